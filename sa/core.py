"""Core of the static-analysis engine: loader, symbol lookup, findings, evidence.

Everything here works on the *source text* of the working tree under REPO (default /repo); nothing from
the repository is imported or executed.
"""
import ast
import hashlib
import json
import os
import re
import sys
import time

REPO = os.environ.get('VERIF_REPO', '/repo')
VERIF = os.path.dirname(os.path.dirname(os.path.abspath(__file__)))
PKG = 'src/ssh_audit'


class AnalysisError(Exception):
    """The checker cannot decide (anchor vanished, unrecognised idiom).  Exit code 2, never a pass."""


# ---------------------------------------------------------------------------------------------
# Loader
# ---------------------------------------------------------------------------------------------
class Module:
    def __init__(self, name, path, relpath):
        self.name = name
        self.path = path
        self.relpath = relpath
        with open(path, 'rb') as f:
            raw = f.read()
        self.digest = hashlib.sha256(raw).hexdigest()
        self.src = raw.decode('utf-8')
        try:
            self.tree = ast.parse(self.src, filename=path)
            compile(self.src, path, 'exec', dont_inherit=True)
        except SyntaxError as e:
            raise AnalysisError('module %s does not compile: %s' % (relpath, e))
        self.lines = self.src.split('\n')
        self.respelled = 0
        if os.environ.get('VERIF_NO_NORMALISE') != '1':
            from . import canon
            self.tree, self.respelled = canon.phase_a(self.tree)
        _annotate(self.tree, self)


def _annotate(tree, module):
    """Parent pointers, enclosing function / class qualified names."""
    def walk(node, parent, func, cls, qual):
        node._parent = parent
        node._module = module
        node._func = func
        node._cls = cls
        node._qual = qual
        if isinstance(node, (ast.FunctionDef, ast.AsyncFunctionDef)):
            q = (qual + '.' if qual else '') + node.name
            node._qualname = q
            # decorators, defaults and annotations belong to the enclosing scope
            for d in node.decorator_list:
                walk(d, node, func, cls, qual)
            walk(node.args, node, func, cls, qual)
            if node.returns is not None:
                walk(node.returns, node, func, cls, qual)
            for ch in node.body:
                walk(ch, node, node, cls, q)
            return
        if isinstance(node, ast.ClassDef):
            q = (qual + '.' if qual else '') + node.name
            node._qualname = q
            for ch in ast.iter_child_nodes(node):
                walk(ch, node, func, node, q)
            return
        for ch in ast.iter_child_nodes(node):
            walk(ch, node, func, cls, qual)
    walk(tree, None, None, None, '')


class Repo:
    def __init__(self, root=None):
        self.root = root or REPO
        self.modules = {}
        pkgdir = os.path.join(self.root, PKG)
        if not os.path.isdir(pkgdir):
            raise AnalysisError('package directory %s missing' % pkgdir)
        for fn in sorted(os.listdir(pkgdir)):
            if fn.endswith('.py'):
                name = fn[:-3]
                self.modules[name] = Module(name, os.path.join(pkgdir, fn), PKG + '/' + fn)
        wrapper = os.path.join(self.root, 'ssh-audit.py')
        if os.path.exists(wrapper):
            self.modules['<wrapper>'] = Module('<wrapper>', wrapper, 'ssh-audit.py')
        self._funcs = None
        from . import alphanorm, canon
        self.inlined = {}
        if os.environ.get('VERIF_NO_NORMALISE') != '1':
            from . import inline
            ref = canon.load_reference()
            if ref:
                import json as _json
                shapes = {}
                if os.path.exists(alphanorm.REF_PATH):
                    with open(alphanorm.REF_PATH) as _f:
                        shapes = _json.load(_f)
                self.inlined = inline.phase_b(self, {k for k in ref if not k.startswith('<')}, set(ref.get('<names>', [])), shapes)
                self._funcs = None
        self.normalised = alphanorm.normalise(self)
        self.respelled = dict(self.inlined)
        if os.environ.get('VERIF_NO_NORMALISE') != '1':
            self.respelled = canon.phase_c(self)
            if self.respelled:
                for m in self.modules.values():
                    _annotate(m.tree, m)
                self._funcs = None
                again = alphanorm.normalise(self)
                for k, v in again.items():
                    self.normalised.setdefault(k, {}).update(v)
            for m in self.modules.values():
                if m.respelled:
                    self.respelled['%s:<phase A>' % m.name] = m.respelled
        if self.normalised:
            self._funcs = None
        # functions the reference snapshot does not know (helpers a change introduced and that could not be substituted back into their callers): the
        # interpretation models interpret calls to them in place, whatever resolver the model itself uses
        try:
            refnames = {k for k in (canon.load_reference() or {}) if not k.startswith('<')}
        except Exception:      # noqa: BLE001
            refnames = set()
        self.new_funcs = {}
        if refnames:
            for (mn, q), fn in self.all_funcs().items():
                if '%s:%s' % (mn, q) not in refnames:
                    self.new_funcs[(mn, q)] = fn
        from . import listinterp as _li
        repo_self = self

        def _fallback(call):
            if not repo_self.new_funcs:
                return None
            f = call.func
            mod = getattr(call, '_module', None)
            mn = getattr(mod, 'name', None)
            if mn is None:
                return None
            if isinstance(f, ast.Name):
                g = repo_self.new_funcs.get((mn, f.id))
                if g is not None:
                    return g
                encl = getattr(call, '_func', None)
                while encl is not None:          # a new nested function of an enclosing function
                    g = repo_self.new_funcs.get((mn, '%s.%s' % (getattr(encl, '_qualname', encl.name), f.id)))
                    if g is not None:
                        return g
                    encl = getattr(encl, '_func', None)
                return None
            if isinstance(f, ast.Attribute) and isinstance(f.value, ast.Name):
                cls = getattr(call, '_cls', None)
                if f.value.id in ('self', 'cls') and cls is not None:
                    return repo_self.new_funcs.get((mn, '%s.%s' % (cls._qualname, f.attr)))
                return repo_self.new_funcs.get((mn, '%s.%s' % (f.value.id, f.attr)))
            return None
        _li.Interp.fallback_resolver = staticmethod(_fallback)

    # -- lookup ------------------------------------------------------------------------------
    def mod(self, name):
        if name not in self.modules:
            raise AnalysisError('anchor vanished: module %s' % name)
        return self.modules[name]

    def all_funcs(self):
        """{(module, qualname): FunctionDef} for every function, method and nested function."""
        if self._funcs is None:
            self._funcs = {}
            for m in self.modules.values():
                for n in ast.walk(m.tree):
                    if isinstance(n, (ast.FunctionDef, ast.AsyncFunctionDef)):
                        self._funcs[(m.name, n._qualname)] = n
        return self._funcs

    def func(self, modname, qual):
        self.mod(modname)
        f = self.all_funcs().get((modname, qual))
        if f is None:
            raise AnalysisError('anchor vanished: function %s.%s' % (modname, qual))
        return f

    def has_func(self, modname, qual):
        return (modname, qual) in self.all_funcs()

    def cls(self, modname, qual):
        m = self.mod(modname)
        for n in ast.walk(m.tree):
            if isinstance(n, ast.ClassDef) and n._qualname == qual:
                return n
        raise AnalysisError('anchor vanished: class %s.%s' % (modname, qual))

    def classes(self):
        out = {}
        for m in self.modules.values():
            for n in ast.walk(m.tree):
                if isinstance(n, ast.ClassDef):
                    out[(m.name, n._qualname)] = n
        return out

    def digests(self, names=None):
        return {m.relpath: m.digest for k, m in sorted(self.modules.items()) if names is None or k in names}


# ---------------------------------------------------------------------------------------------
# Small AST helpers
# ---------------------------------------------------------------------------------------------
def unparse(node):
    return re.sub(r'\s+', ' ', ast.unparse(node)).strip()


def stmt_text(node, limit=220):
    """Normalised text identifying a statement independent of its position.  Compound statements are
    identified by their header only."""
    if isinstance(node, ast.If):
        t = 'if %s:' % unparse(node.test)
    elif isinstance(node, ast.While):
        t = 'while %s:' % unparse(node.test)
    elif isinstance(node, ast.For):
        t = 'for %s in %s:' % (unparse(node.target), unparse(node.iter))
    elif isinstance(node, ast.With):
        t = 'with %s:' % ', '.join(unparse(i) for i in node.items)
    elif isinstance(node, ast.Try):
        t = 'try:'
    elif isinstance(node, ast.ExceptHandler):
        t = 'except %s:' % (unparse(node.type) if node.type is not None else '')
    elif isinstance(node, (ast.FunctionDef, ast.AsyncFunctionDef)):
        t = 'def %s(...)' % node.name
    elif isinstance(node, ast.ClassDef):
        t = 'class %s' % node.name
    else:
        t = unparse(node)
    if len(t) > limit:
        t = t[:limit] + '...'
    return t


def enclosing_stmt(node):
    n = node
    while n is not None and not isinstance(n, (ast.stmt, ast.ExceptHandler)):
        n = getattr(n, '_parent', None)
    return n


def attr_chain(node):
    """'a.b.c' for Name/Attribute chains, else None."""
    parts = []
    n = node
    while isinstance(n, ast.Attribute):
        parts.append(n.attr)
        n = n.value
    if isinstance(n, ast.Name):
        parts.append(n.id)
        return '.'.join(reversed(parts))
    return None


def call_name(call):
    """Dotted name of the callee expression of a Call, or None."""
    if not isinstance(call, ast.Call):
        return None
    return attr_chain(call.func)


def walk_no_nested(node, include_self=True):
    """ast.walk that does not descend into nested function / class / lambda definitions (the nested
    definition node itself is yielded, its body is not)."""
    stack = [(node, True)] if include_self else [(c, False) for c in ast.iter_child_nodes(node)]
    while stack:
        n, root = stack.pop()
        yield n
        if not root and isinstance(n, (ast.FunctionDef, ast.AsyncFunctionDef, ast.ClassDef, ast.Lambda)):
            continue
        stack.extend((c, False) for c in ast.iter_child_nodes(n))


def body_nodes(func):
    """All nodes in the body of a function, not descending into nested defs."""
    for st in func.body:
        for n in walk_no_nested(st):
            yield n


def calls_in(node, nested=False):
    it = ast.walk(node) if nested else walk_no_nested(node)
    return [n for n in it if isinstance(n, ast.Call)]


def names_in(node):
    return {n.id for n in ast.walk(node) if isinstance(n, ast.Name)}


def is_const(node, value=None):
    if not isinstance(node, ast.Constant):
        return False
    return value is None or node.value == value


def get_kw(call, name):
    for k in call.keywords:
        if k.arg == name:
            return k.value
    return None


def param_names(func):
    a = func.args
    return [x.arg for x in a.posonlyargs + a.args] + ([a.vararg.arg] if a.vararg else []) + [x.arg for x in a.kwonlyargs] + ([a.kwarg.arg] if a.kwarg else [])


def bind_args(call, func, skip_self=False):
    """Map parameter name -> argument expression for a call to `func` (positional + keyword)."""
    params = [x.arg for x in func.args.posonlyargs + func.args.args]
    if skip_self and params and params[0] in ('self', 'cls'):
        params = params[1:]
    out = {}
    for i, a in enumerate(call.args):
        if isinstance(a, ast.Starred):
            raise AnalysisError('starred argument in call %s' % unparse(call))
        if i < len(params):
            out[params[i]] = a
    for k in call.keywords:
        if k.arg is None:
            raise AnalysisError('**kwargs in call %s' % unparse(call))
        out[k.arg] = k.value
    return out


def param_default(func, name):
    a = func.args
    pos = a.posonlyargs + a.args
    nd = len(a.defaults)
    for i, p in enumerate(pos):
        if p.arg == name:
            j = i - (len(pos) - nd)
            return a.defaults[j] if j >= 0 else None
    for p, d in zip(a.kwonlyargs, a.kw_defaults):
        if p.arg == name:
            return d
    return None


def repo_resolver(repo, exclude=()):
    """resolver(call) -> FunctionDef for calls of repository code: self.m / cls.m relative to the class the call is written in, Class.m for any class of the
    package, f() for a function of the calling module or a nested function of the calling function.  `exclude`: qualified names never resolved."""
    classes = {}
    for (m, q), c in repo.classes().items():
        classes.setdefault(c.name, []).append((m, q))

    def resolve(call):
        f = call.func
        mod = getattr(call, '_module', None)
        if isinstance(f, ast.Attribute) and isinstance(f.value, ast.Name):
            base = f.value.id
            if base in ('self', 'cls') and getattr(call, '_cls', None) is not None and mod is not None:
                key = (mod.name, '%s.%s' % (call._cls._qualname, f.attr))
            elif base in classes and len(classes[base]) == 1:
                key = (classes[base][0][0], '%s.%s' % (classes[base][0][1], f.attr))
            else:
                return None
        elif isinstance(f, ast.Name) and mod is not None:
            fn = getattr(call, '_func', None)
            key = None
            while fn is not None:
                if repo.has_func(mod.name, '%s.%s' % (fn._qualname, f.id)):
                    key = (mod.name, '%s.%s' % (fn._qualname, f.id))
                    break
                fn = getattr(fn, '_func', None)
            if key is None:
                key = (mod.name, f.id)
        else:
            return None
        if '%s.%s' % key in exclude or key[1] in exclude or not repo.has_func(*key):
            return None
        return repo.func(*key)
    return resolve


def flow_texts(func):
    """Statement texts of a function after forward substitution of single-use temporaries (`t = E; use(t)` in the next statement of the same block
    -> `use(E)`): rules that describe a small function by what it computes match `n = self.read_int(); return self.read(n)` and
    `return self.read(self.read_int())` alike.  Works on a copy; the analysed tree is not modified."""
    import copy as _copy

    def clone(n):
        if isinstance(n, list):
            return [clone(x) for x in n]
        if not isinstance(n, ast.AST):
            return n
        new = type(n)()
        for f in n._fields:
            if hasattr(n, f):
                setattr(new, f, clone(getattr(n, f)))
        return new
    body = clone(func.body)
    loads, stores = {}, {}
    for st in body:
        for x in ast.walk(st):
            if isinstance(x, ast.Name):
                d = loads if isinstance(x.ctx, ast.Load) else stores
                d[x.id] = d.get(x.id, 0) + 1

    def block(stmts):
        out = []
        i = 0
        stmts = list(stmts)
        while i < len(stmts):
            st = stmts[i]
            if isinstance(st, (ast.Assign, ast.AnnAssign)) and i + 1 < len(stmts):
                tg = st.targets[0] if isinstance(st, ast.Assign) and len(st.targets) == 1 else (st.target if isinstance(st, ast.AnnAssign) else None)
                if isinstance(tg, ast.Name) and st.value is not None and loads.get(tg.id, 0) == 1 and stores.get(tg.id, 0) == 1:
                    nxt = stmts[i + 1]
                    hdr = nxt.test if isinstance(nxt, (ast.If, ast.While)) else (nxt.iter if isinstance(nxt, ast.For) else nxt)
                    uses = [x for x in ast.walk(hdr) if isinstance(x, ast.Name) and x.id == tg.id and isinstance(x.ctx, ast.Load)] if not isinstance(nxt, (ast.Try, ast.With, ast.FunctionDef)) else []
                    if len(uses) == 1:
                        class R(ast.NodeTransformer):
                            def visit_Name(self, node):
                                return st.value if node is uses[0] else node
                        if isinstance(nxt, (ast.If, ast.While)):
                            nxt.test = R().visit(nxt.test)
                        elif isinstance(nxt, ast.For):
                            nxt.iter = R().visit(nxt.iter)
                        else:
                            stmts[i + 1] = R().visit(nxt)
                        i += 1
                        continue
            for fld in ('body', 'orelse', 'finalbody'):
                b = getattr(st, fld, None)
                if isinstance(b, list) and b and isinstance(b[0], ast.stmt) and not isinstance(st, (ast.FunctionDef, ast.ClassDef)):
                    setattr(st, fld, block(b))
            out.append(st)
            i += 1
        return out
    res = block(body)
    for st in res:
        ast.fix_missing_locations(st)
    return [ast.unparse(st) for st in res if not (isinstance(st, ast.Expr) and isinstance(st.value, ast.Constant))]


def loc(node):
    m = getattr(node, '_module', None)
    return '%s:%s' % (m.relpath if m else '?', getattr(node, 'lineno', '?'))


def func_id(node):
    """module:qualname of the function enclosing `node` (or of node itself if it is a def)."""
    m = getattr(node, '_module', None)
    if isinstance(node, (ast.FunctionDef, ast.AsyncFunctionDef)):
        return '%s:%s' % (m.name, node._qualname)
    f = getattr(node, '_func', None)
    if f is None:
        return '%s:<module>' % (m.name if m else '?')
    return '%s:%s' % (m.name, f._qualname)


# ---------------------------------------------------------------------------------------------
# Findings / reporting
# ---------------------------------------------------------------------------------------------
class Finding:
    def __init__(self, prop, rule, node, message, func=None, stmt=None, witness=None):
        self.prop = prop
        self.rule = rule
        self.message = message
        self.witness = witness or []
        if node is not None:
            st = enclosing_stmt(node) or node
            self.file = node._module.relpath if getattr(node, '_module', None) else '?'
            self.line = getattr(node, 'lineno', getattr(st, 'lineno', 0))
            self.func = func or func_id(node)
            self.stmt = stmt or stmt_text(st)
        else:
            self.file, self.line = '?', 0
            self.func = func or '?'
            self.stmt = stmt or ''

    def key(self):
        return (self.prop, self.rule, self.func, self.stmt)

    def to_json(self):
        return {'property': self.prop, 'rule': self.rule, 'file': self.file, 'line': self.line, 'function': self.func,
                'statement': self.stmt, 'message': self.message, 'witness': self.witness}

    def __str__(self):
        return '%s [%s] %s:%s in %s: %s  <<%s>>' % (self.prop, self.rule, self.file, self.line, self.func, self.message, self.stmt)


def load_known():
    path = os.path.join(VERIF, 'known_findings.json')
    if not os.path.exists(path):
        return {'known': [], 'fixed': []}
    with open(path) as f:
        return json.load(f)


class Reporter:
    def __init__(self, prop, tier, seed=0):
        self.prop = prop
        self.tier = tier
        self.seed = seed
        self.t0 = time.time()
        self.findings = []
        self.obligations = []     # (rule, description, ok, nontrivial)
        self.samples = []
        self.evaluations = 0
        self.notes = []
        self.assumptions = []
        self.extra = {}
        self.exhaustive = None
        self.explanation = ''
        self.analysed = set()

    # -- recording ---------------------------------------------------------------------------
    def ob(self, rule, desc, ok, nontrivial=True, sample=None):
        self.obligations.append((rule, desc, bool(ok), nontrivial))
        if sample is not None and len(self.samples) < 60:
            self.samples.append(sample)
        return ok

    def finding(self, rule, node, message, **kw):
        f = Finding(self.prop, rule, node, message, **kw)
        if f.key() not in [g.key() for g in self.findings]:
            self.findings.append(f)
        return f

    def check(self, rule, desc, ok, node, message=None, sample=None, **kw):
        """Record an obligation; on failure also record a finding at `node`."""
        self.ob(rule, desc, ok, sample=sample)
        if not ok:
            self.finding(rule, node, message or ('violated: ' + desc), **kw)
        return ok

    def note(self, s):
        self.notes.append(s)

    def evals(self, n=1):
        self.evaluations += n

    def saw(self, node):
        if node is not None:
            self.analysed.add(func_id(node))

    def floor(self, rule, what, count, minimum):
        """Fail closed when a rule matches fewer instances than were confirmed by hand."""
        if count < minimum:
            raise AnalysisError('%s: rule %s matched %d %s, fewer than the %d confirmed by hand -- matcher is blind or anchor moved' % (self.prop, rule, count, what, minimum))

    # -- finishing ---------------------------------------------------------------------------
    def finish(self, repo):
        known = load_known()
        known_keys = {}
        for k in known.get('known', []):
            known_keys[(k['property'], k['rule'], k['function'], k['statement'])] = k
        unlisted, listed = [], []
        for f in self.findings:
            if f.key() in known_keys:
                listed.append((f, known_keys[f.key()]))
            else:
                unlisted.append(f)
        outdir = os.environ.get('VERIF_OUT_DIR') or os.path.join(VERIF, 'out')
        os.makedirs(outdir, exist_ok=True)
        for f, k in listed:
            print('KNOWN-FINDING: property=%s rule=%s %s :: %s' % (f.prop, f.rule, f.func, k.get('what', f.message)))
        stale = []
        seen = {f.key() for f, _ in listed}
        for key, k in known_keys.items():
            if key[0] == self.prop and key not in seen:
                stale.append(k)
        for k in stale:
            print('NOTE: known finding no longer reproduced (site changed or repaired): property=%s rule=%s %s <<%s>>' % (k['property'], k['rule'], k['function'], k['statement']))
        for f in unlisted:
            h = hashlib.sha256(repr(f.key()).encode()).hexdigest()[:12]
            rp = os.path.join(outdir, 'replay-%s-%s.json' % (self.prop, h))
            with open(rp, 'w') as fh:
                json.dump(f.to_json(), fh, indent=1)
            print(str(f))
            for w in f.witness:
                print('    via %s' % (w,))
            print('VIOLATION property=%s replay=%s' % (self.prop, rp))
        n_ob = len(self.obligations)
        n_ok = sum(1 for o in self.obligations if o[2])
        distinct = len({(o[0], o[1]) for o in self.obligations if o[3]})
        cov = {
            'explanation': self.explanation,
            'obligations': n_ob,
            'discharged': n_ok,
            'evaluations': max(self.evaluations, n_ob),
            'distinct_nontrivial': distinct,
            'rule': 'one obligation per rule instance extracted from the current source (call site, guard, table entry, truth-table row group); distinct = distinct (rule, instance) pairs that inspected a repo construct',
            'samples': self.samples[:60] or [{'note': 'no samples recorded'}],
            'functions_analysed': sorted(self.analysed),
            'module_digests': repo.digests() if repo else {},
            'rules': sorted({o[0] for o in self.obligations}),
            'failed_obligations': [{'rule': o[0], 'instance': o[1]} for o in self.obligations if not o[2]][:80],
            'known_findings_reproduced': [f.to_json() for f, _ in listed],
            'unlisted_violations': [f.to_json() for f in unlisted],
            'notes': self.notes,
            'respelled_constructs': getattr(self.repo, 'respelled', {}) if getattr(self, 'repo', None) is not None else {},
            'alpha_normalised_locals': getattr(repo, 'normalised', {}) if repo else {},
            'respelled_constructs': getattr(repo, 'respelled', {}) if repo else {},
            'checker_cmd': 'python3 /verif/check.py %s --tier %s' % (self.prop, self.tier),
            'trusted_base': ['CPython ast module (3.11) parses the same language the repo runs', 'rule tables in /verif/props (hand-confirmed against the source)'],
        }
        if self.exhaustive is not None:
            cov['exhaustive'] = self.exhaustive
        cov.update(self.extra)
        ev = {
            'property_id': self.prop,
            'tier': self.tier,
            'seed': self.seed,
            'level': 'other',
            'coverage': cov,
            'assumptions': self.assumptions or ['source-level static analysis: decides the structural clauses named in coverage.explanation, not the run-time behaviour as a whole'],
            'wall_s': round(time.time() - self.t0, 3),
            'violations': len(unlisted),
        }
        evdir = os.environ.get('VERIF_EVIDENCE_DIR') or os.path.join(VERIF, 'evidence')
        os.makedirs(evdir, exist_ok=True)
        with open(os.path.join(evdir, '%s.json' % self.prop), 'w') as fh:
            json.dump(ev, fh, indent=1, sort_keys=True)
        print('%s tier=%s: %d obligations, %d discharged, %d known finding(s), %d unlisted violation(s), %.2fs' % (
            self.prop, self.tier, n_ob, n_ok, len(listed), len(unlisted), time.time() - self.t0))
        return 1 if unlisted else 0
