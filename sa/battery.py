"""Mutant battery driver (thorough tier): filled in later; records checker-sensitivity data only."""


def run_for_property(prop, rep, seed):
    try:
        from sa import battery_impl
    except ImportError:
        rep.note('mutant battery not available in this revision')
        return
    battery_impl.run_for_property(prop, rep, seed)
    battery_impl.run_seeds_for_property(prop, rep)
    battery_impl.run_refactors_for_property(prop, rep)
