"""Mutant battery: checker-sensitivity data (never decides a property).

Each mutant is a textual edit (old -> new, must match exactly `count` times) applied to a scratch copy of the
*current* tree under a mkdtemp directory outside /repo and /verif (removed immediately).  The mutated copy
must still byte-compile; the property's quick check is then run on it in a sub-process.
expect: 'violation' (exit 1 + VIOLATION line), 'silent' (exit 0, benign twin), 'undecided' (exit 2 accepted or exit 1).
A mutant whose anchor text no longer exists is reported as stale, not as detected.
"""
import concurrent.futures
import importlib
import os
import py_compile
import random
import shutil
import subprocess
import sys
import tempfile

from .core import REPO, VERIF


def load(prop):
    try:
        m = importlib.import_module('mutants.%s' % prop.lower())
    except ImportError:
        return []
    return list(m.MUTANTS)


def _run_one(args):
    prop, mut = args
    tmp = tempfile.mkdtemp(prefix='verif-mut-')
    try:
        dst = os.path.join(tmp, 'repo')
        os.makedirs(os.path.join(dst, 'src'))
        shutil.copytree(os.path.join(REPO, 'src', 'ssh_audit'), os.path.join(dst, 'src', 'ssh_audit'), ignore=shutil.ignore_patterns('__pycache__'))
        shutil.copy(os.path.join(REPO, 'ssh-audit.py'), os.path.join(dst, 'ssh-audit.py'))
        edits = mut.get('edits') or [mut]
        for e in edits:
            path = os.path.join(dst, e['file'])
            with open(path, encoding='utf-8') as f:
                src = f.read()
            cnt = src.count(e['old'])
            if cnt != e.get('count', 1):
                return (mut['name'], 'stale', 'anchor text occurs %d times (expected %d) in %s' % (cnt, e.get('count', 1), e['file']))
            src = src.replace(e['old'], e['new'])
            with open(path, 'w', encoding='utf-8') as f:
                f.write(src)
            try:
                py_compile.compile(path, cfile=os.path.join(tmp, 'x.pyc'), doraise=True)
            except py_compile.PyCompileError as ex:
                return (mut['name'], 'broken', 'mutant does not compile: %s' % ex)
        env = dict(os.environ, VERIF_REPO=dst, VERIF_OUT_DIR=os.path.join(tmp, 'out'), VERIF_EVIDENCE_DIR=os.path.join(tmp, 'ev'), VERIF_NO_BATTERY='1', PYTHONDONTWRITEBYTECODE='1')
        p = subprocess.run([sys.executable, os.path.join(VERIF, 'check.py'), prop, '--tier', 'quick'], env=env, capture_output=True, text=True, timeout=600)
        out = p.stdout + p.stderr
        viol = [l for l in out.splitlines() if l.startswith(prop + ' [')]
        exp = mut.get('expect', 'violation')
        if exp == 'violation':
            ok = p.returncode == 1 and 'VIOLATION property=%s' % prop in out
            if ok and mut.get('expect_text'):
                ok = mut['expect_text'] in out
        elif exp == 'silent':
            ok = p.returncode == 0
        elif exp == 'undecided':
            ok = p.returncode in (1, 2)
        else:
            ok = False
        detail = (viol[0][:300] if viol else out.strip().splitlines()[-1][:300] if out.strip() else '')
        return (mut['name'], 'ok' if ok else 'MISSED' if exp == 'violation' else 'FALSE-ALARM' if exp == 'silent' else 'WRONG', 'exit=%d %s' % (p.returncode, detail))
    finally:
        shutil.rmtree(tmp, ignore_errors=True)


def run(prop, seed=0, only=None):
    muts = load(prop)
    if only:
        muts = [m for m in muts if m['name'] in only]
    random.Random(seed).shuffle(muts)
    if not muts:
        return []
    with concurrent.futures.ProcessPoolExecutor(max_workers=min(16, len(muts))) as ex:
        return list(ex.map(_run_one, [(prop, m) for m in muts]))


def run_for_property(prop, rep, seed):
    res = run(prop, seed)
    summary = {'mutants': 0, 'detected': 0, 'twins': 0, 'twins_silent': 0, 'stale': 0, 'problems': []}
    expects = {m['name']: m.get('expect', 'violation') for m in load(prop)}
    for name, status, detail in sorted(res):
        exp = expects.get(name)
        if status == 'stale' or status == 'broken':
            summary['stale'] += 1
            summary['problems'].append('%s: %s %s' % (name, status, detail))
        elif exp == 'silent':
            summary['twins'] += 1
            summary['twins_silent'] += status == 'ok'
        else:
            summary['mutants'] += 1
            summary['detected'] += status == 'ok'
        if status not in ('ok', 'stale', 'broken'):
            summary['problems'].append('%s: %s %s' % (name, status, detail))
        print('  battery %-45s %-11s %s' % (name, status, detail[:160]))
    rep.extra['mutant_battery'] = summary
    rep.note('mutant battery (checker sensitivity, does not decide the property): %(detected)d/%(mutants)d mutants detected, %(twins_silent)d/%(twins)d benign twins silent, %(stale)d stale' % summary)


def _run_seed(args):
    prop, name = args
    d = os.path.join(VERIF, 'seeded', name)
    tmp = tempfile.mkdtemp(prefix='verif-seed-')
    try:
        dst = os.path.join(tmp, 'repo')
        os.makedirs(os.path.join(dst, 'src'))
        shutil.copytree(os.path.join(REPO, 'src', 'ssh_audit'), os.path.join(dst, 'src', 'ssh_audit'), ignore=shutil.ignore_patterns('__pycache__'))
        shutil.copy(os.path.join(REPO, 'ssh-audit.py'), os.path.join(dst, 'ssh-audit.py'))
        p = subprocess.run(['patch', '-s', '-p1', '-i', os.path.join(d, 'patch.diff')], cwd=dst, capture_output=True, text=True)
        if p.returncode != 0:
            return (name, 'stale', 'patch does not apply to the current tree')
        env = dict(os.environ, VERIF_REPO=dst, VERIF_OUT_DIR=os.path.join(tmp, 'out'), VERIF_EVIDENCE_DIR=os.path.join(tmp, 'ev'), VERIF_NO_BATTERY='1', PYTHONDONTWRITEBYTECODE='1')
        r = subprocess.run([sys.executable, os.path.join(VERIF, 'check.py'), prop, '--tier', 'quick'], env=env, capture_output=True, text=True, timeout=600)
        viol = [l for l in r.stdout.splitlines() if l.startswith(prop + ' [')]
        return (name, 'ok' if r.returncode == 1 else 'MISSED', 'exit=%d %s' % (r.returncode, (viol[0][:200] if viol else '')))
    finally:
        shutil.rmtree(tmp, ignore_errors=True)


def run_seeds_for_property(prop, rep):
    """Independent seeded changes written against this property (kept under /verif/seeded): each is re-applied to a scratch copy of the current
    tree and the property's quick check must report it.  Checker-sensitivity data like the mutant battery: recorded, never decides the property."""
    root = os.path.join(VERIF, 'seeded')
    names = sorted(n for n in os.listdir(root) if n.startswith(prop + '-') and os.path.exists(os.path.join(root, n, 'patch.diff'))) if os.path.isdir(root) else []
    if not names:
        return
    with concurrent.futures.ProcessPoolExecutor(max_workers=min(8, len(names))) as ex:
        res = list(ex.map(_run_seed, [(prop, n) for n in names]))
    summary = {'seeded_changes': len(res), 'caught': sum(1 for r in res if r[1] == 'ok'), 'problems': ['%s: %s %s' % r for r in res if r[1] != 'ok']}
    for name, status, detail in res:
        print('  seeded  %-45s %-11s %s' % (name, status, detail[:160]))
    rep.extra['independent_seeded_changes'] = summary
    rep.note('independent seeded changes for this property (checker sensitivity): %(caught)d/%(seeded_changes)d reported by this check' % summary)


def _run_refactor(args):
    prop, name = args
    d = os.path.join(VERIF, 'refactors', name)
    tmp = tempfile.mkdtemp(prefix='verif-refac-')
    try:
        dst = os.path.join(tmp, 'repo')
        os.makedirs(os.path.join(dst, 'src'))
        shutil.copytree(os.path.join(REPO, 'src', 'ssh_audit'), os.path.join(dst, 'src', 'ssh_audit'), ignore=shutil.ignore_patterns('__pycache__'))
        shutil.copy(os.path.join(REPO, 'ssh-audit.py'), os.path.join(dst, 'ssh-audit.py'))
        p = subprocess.run(['patch', '-s', '-p1', '-i', os.path.join(d, 'patch.diff')], cwd=dst, capture_output=True, text=True)
        if p.returncode != 0:
            return (name, 'stale', 'patch does not apply to the current tree')
        env = dict(os.environ, VERIF_REPO=dst, VERIF_OUT_DIR=os.path.join(tmp, 'out'), VERIF_EVIDENCE_DIR=os.path.join(tmp, 'ev'), VERIF_NO_BATTERY='1', PYTHONDONTWRITEBYTECODE='1')
        r = subprocess.run([sys.executable, os.path.join(VERIF, 'check.py'), prop, '--tier', 'quick'], env=env, capture_output=True, text=True, timeout=600)
        viol = [l for l in r.stdout.splitlines() if l.startswith(prop + ' [') or l.startswith('ANALYSIS-ERROR')]
        return (name, 'ok' if r.returncode == 0 else ('undecided' if r.returncode == 2 else 'FALSE-ALARM'), 'exit=%d %s' % (r.returncode, (viol[0][:200] if viol else '')))
    finally:
        shutil.rmtree(tmp, ignore_errors=True)


def run_refactors_for_property(prop, rep):
    """Independent behaviour-preserving refactorings (kept under /verif/refactors): each is re-applied to a scratch copy of the current tree; this
    property's quick check must stay silent on it (exit 2, "cannot decide", is recorded separately).  Checker-robustness data, never decides the property."""
    root = os.path.join(VERIF, 'refactors')
    names = sorted(n for n in os.listdir(root) if os.path.exists(os.path.join(root, n, 'patch.diff'))) if os.path.isdir(root) else []
    if not names:
        return
    with concurrent.futures.ProcessPoolExecutor(max_workers=min(8, len(names))) as ex:
        res = list(ex.map(_run_refactor, [(prop, n) for n in names]))
    summary = {'refactorings': len(res), 'silent': sum(1 for r in res if r[1] == 'ok'), 'undecided': [r[0] for r in res if r[1] == 'undecided'], 'problems': ['%s: %s %s' % r for r in res if r[1] not in ('ok', 'undecided')]}
    for name, status, detail in res:
        if status != 'ok':
            print('  refactor %-43s %-11s %s' % (name, status, detail[:160]))
    rep.extra['independent_refactorings'] = summary
    rep.note('independent behaviour-preserving refactorings (checker robustness): silent on %(silent)d/%(refactorings)d' % summary)
