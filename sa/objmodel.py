"""Objects for the list interpreter: instances of repository classes whose constructor and property getters are interpreted from the AST.

make(repo, interp_factory) returns (construct, attr_hook):
    construct(class node, {parameter: value}) -> Obj      interprets __init__ with the given arguments; every `self.X = v` becomes field X
    attr_hook(base, attr, interp)                         field of an Obj, or the value a @property getter of its class returns (interpreted)
Nothing is executed; a constructor or getter the interpreter cannot follow raises Unknown.
"""
import ast

from .core import unparse
from .abseval import Unknown, Opaque


class Obj:
    def __init__(self, cls, fields):
        self.cls = cls
        self.fields = fields

    def __repr__(self):
        return '<%s %s>' % (self.cls.name, {k: v for k, v in self.fields.items()})

    def __deepcopy__(self, memo):
        return self         # objects of the modelled message classes are immutable after construction


def _method(cls, name):
    for st in cls.body:
        if isinstance(st, ast.FunctionDef) and st.name == name:
            return st
    return None


def make(interp_factory, extra_env=None):
    extra_env = extra_env or {}
    def construct(cls, args):
        init = _method(cls, '__init__')
        if init is None:
            raise Unknown('class %s has no __init__' % cls.name)
        params = [a.arg for a in init.args.args]
        env = dict(extra_env)
        env[params[0]] = Opaque()
        nd = len(init.args.defaults)
        for p, d in zip(params[len(params) - nd:], init.args.defaults):
            env[p] = ast.literal_eval(d)
        for p, v in args.items():
            if p not in params[1:]:
                raise Unknown('%s() has no parameter %s' % (cls.name, p))
            env[p] = v
        missing = [p for p in params[1:] if p not in env]
        if missing:
            raise Unknown('%s() called without %s' % (cls.name, missing))
        finals = interp_factory().run(init.body, env)
        if len(finals) != 1 or finals[0].get('<forks>') or finals[0].get('<outcome>') == 'raise':
            raise Unknown('constructor of %s does not evaluate on a single path' % cls.name)
        pre = params[0] + '.'
        fields = {k[len(pre):]: v for k, v in finals[0].items() if isinstance(k, str) and k.startswith(pre) and '.' not in k[len(pre):]}
        return Obj(cls, fields)

    def attr_hook(base, attr, interp):
        if not isinstance(base, Obj):
            return None
        if attr in base.fields:
            return (True, base.fields[attr])
        m = _method(base.cls, attr)
        if m is not None and any(isinstance(d, ast.Name) and d.id == 'property' for d in m.decorator_list):
            sp = m.args.args[0].arg
            env = dict(extra_env)
            env[sp] = base
            env.update({'%s.%s' % (sp, k): v for k, v in base.fields.items()})
            finals = interp_factory().run(m.body, env)
            if len(finals) != 1 or finals[0].get('<forks>') or finals[0].get('<outcome>') != 'return':
                raise Unknown('property %s.%s does not evaluate on a single path' % (base.cls.name, attr))
            return (True, finals[0].get('<return>'))
        raise Unknown('%s object has no modelled attribute %s' % (base.cls.name, attr))
    return construct, attr_hook
