"""Exception-escape analysis over the resolved call graph.

For every function: the set of exception classes that may propagate out of it, each with the originating
site and a witness chain.  Sources: explicit raise / sys.exit, a repo-specific table of partial operations,
resolved callees.  Handlers subtract what they catch (builtin hierarchy; `except Exception` does not catch
SystemExit / KeyboardInterrupt)."""
import ast
import builtins

from .core import unparse, walk_no_nested, func_id, stmt_text, call_name, attr_chain
from .logic import path_condition

# exception names that are not builtins: name -> builtin base used for `catches`
ALIASES = {
    'struct.error': ('struct.error', 'Exception'),
    'socket.error': ('OSError', None), 'socket.timeout': ('TimeoutError', None), 'socket.gaierror': ('socket.gaierror', 'OSError'),
    'socket.herror': ('socket.herror', 'OSError'),
    'binascii.Error': ('binascii.Error', 'ValueError'), 'json.JSONDecodeError': ('json.JSONDecodeError', 'ValueError'),
    'ipaddress.AddressValueError': ('ipaddress.AddressValueError', 'ValueError'), 'argparse.ArgumentError': ('argparse.ArgumentError', 'Exception'),
    'queue.Empty': ('queue.Empty', 'Exception'), 'IOError': ('OSError', None), 'EnvironmentError': ('OSError', None),
}


class Hierarchy:
    def __init__(self, repo):
        self.pkg = {}
        for (m, q), c in repo.classes().items():
            bases = [attr_chain(b) for b in c.bases if attr_chain(b)]
            self.pkg[c.name] = bases
            self.pkg[q] = bases

    def norm(self, name):
        if name in ALIASES:
            return ALIASES[name][0]
        return name

    def bases(self, name):
        """Ancestors of an exception class name (inclusive)."""
        name = self.norm(name)
        out = [name]
        short = name.split('.')[-1]
        if name in self.pkg or short in self.pkg:
            for b in self.pkg.get(name, self.pkg.get(short, [])):
                out += self.bases(b.split('.')[-1] if b.split('.')[-1] in self.pkg else b)
            return out
        for k, (canon, base) in ALIASES.items():
            if canon == name and base:
                return out + self.bases(base)
        cls = getattr(builtins, name, None)
        if isinstance(cls, type) and issubclass(cls, BaseException):
            return [c.__name__ for c in cls.__mro__ if c is not object]
        return out + ['Exception', 'BaseException']

    def catches(self, handler_type, exc):
        """Does `except <handler_type>` catch class `exc`?"""
        if handler_type is None:
            return True
        names = []
        if isinstance(handler_type, ast.Tuple):
            names = [attr_chain(e) for e in handler_type.elts]
        else:
            names = [attr_chain(handler_type)]
        anc = self.bases(exc)
        anc_short = {a.split('.')[-1] for a in anc} | set(anc)
        for n in names:
            if n is None:
                return True       # unknown expression: assume it may catch (conservative for "handled")
            nn = self.norm(n)
            if nn in anc or nn.split('.')[-1] in anc_short:
                return True
        return False


class Site:
    def __init__(self, exc, node, desc, func, single_target_only=False):
        self.exc = exc
        self.node = node
        self.desc = desc
        self.func = func
        self.single_target_only = single_target_only

    def key(self):
        return (func_id(self.func), stmt_text(enclosing(self.node)), self.exc)


def enclosing(node):
    n = node
    while n is not None and not isinstance(n, (ast.stmt, ast.ExceptHandler)):
        n = getattr(n, '_parent', None)
    return n or node


def enclosing_handlers(node, func):
    """Try statements whose *body* contains node (innermost first), up to func."""
    out = []
    child = node
    par = getattr(node, '_parent', None)
    while par is not None and par is not func:
        if isinstance(par, ast.Try) and any(child is s for s in par.body):
            out.append(par)
        child = par
        par = getattr(par, '_parent', None)
    return out


class EscapeAnalysis:
    def __init__(self, repo, cg, partial_sites, skip_func=None, total_here=None, edge_filter=None):
        """partial_sites(func) -> [Site]; total_here: {(func_id, exc or '*', substring of stmt): reason}"""
        self.repo = repo
        self.cg = cg
        self.h = Hierarchy(repo)
        self.partial_sites = partial_sites
        self.skip_func = skip_func or (lambda f: False)
        self.total_here = total_here or {}
        self.edge_filter = edge_filter
        self.local = {}      # func -> [Site] (own sites that are not handled locally)
        self.calls = {}      # func -> [(callee, call node)]
        self.escape = {}     # func -> {site key: (Site, chain tuple)}
        self.used_exemptions = set()
        self._prepare()
        self._solve()

    def _handled_locally(self, site_node, exc, func):
        for t in enclosing_handlers(site_node, func):
            for h in t.handlers:
                if self.h.catches(h.type, exc):
                    return True
        return False

    def _exempt(self, site):
        fid = func_id(site.func)
        st = stmt_text(enclosing(site.node))
        for (f, exc, sub), reason in self.total_here.items():
            if f == fid and (exc == '*' or exc == site.exc) and sub in st:
                self.used_exemptions.add((f, exc, sub))
                return True
        return False

    def _prepare(self):
        for f in self.cg.sym.funcs.values():
            if self.skip_func(f):
                self.local[f] = []
                self.calls[f] = []
                continue
            sites = []
            for s in self._explicit_sites(f) + self.partial_sites(f):
                if self._exempt(s):
                    continue
                if not self._handled_locally(s.node, s.exc, f):
                    sites.append(s)
            self.local[f] = sites
            self.calls[f] = [(g, n) for (g, n, kind) in self.cg.edges.get(f, [])]

    def _explicit_sites(self, f):
        out = []
        for n in walk_no_nested(f):
            if isinstance(n, ast.Raise):
                if n.exc is None:
                    # bare re-raise: classes of the enclosing handler
                    h = n
                    while h is not None and not isinstance(h, ast.ExceptHandler):
                        h = getattr(h, '_parent', None)
                    names = []
                    if h is not None and h.type is not None:
                        names = [attr_chain(e) for e in (h.type.elts if isinstance(h.type, ast.Tuple) else [h.type])]
                    for nm in names or ['Exception']:
                        out.append(Site(self.h.norm(nm or 'Exception'), n, 're-raise', f))
                else:
                    e = n.exc
                    nm = None
                    if isinstance(e, ast.Call):
                        nm = attr_chain(e.func)
                        if nm and nm.split('.')[-1].startswith('_type_err'):
                            nm = 'TypeError'
                    else:
                        nm = attr_chain(e)
                    nm = nm or 'Exception'
                    if nm.split('.')[0] in ('cls', 'self'):
                        nm = 'Exception'
                    out.append(Site(self.h.norm(nm.split('.')[-1] if nm.split('.')[-1] in self.h.pkg else nm), n, 'raise %s' % nm, f))
            elif isinstance(n, ast.Call) and unparse(n.func) in ('sys.exit', 'exit', 'os._exit'):
                conds = path_condition(n)
                single = any(unparse(t) == 'len(aconf.target_list) > 0' and p is False for t, p, k in conds)
                out.append(Site('SystemExit', n, 'sys.exit(%s)' % (unparse(n.args[0]) if n.args else ''), f, single_target_only=single))
        return out

    def _solve(self):
        for f in self.local:
            self.escape[f] = {}
            for s in self.local[f]:
                self.escape[f][s.key()] = (s, (func_id(f),))
        changed = True
        rounds = 0
        while changed and rounds < 60:
            changed = False
            rounds += 1
            for f in self.local:
                for g, call in self.calls[f]:
                    for key, (s, chain) in list(self.escape.get(g, {}).items()):
                        if key in self.escape[f]:
                            continue
                        if len(chain) > 14:
                            continue
                        if self._handled_locally(call, s.exc, f):
                            continue
                        if self.edge_filter is not None and self.edge_filter(f, call, g, s):
                            continue
                        self.escape[f][key] = (s, (func_id(f) + ' L%d' % getattr(call, 'lineno', 0),) + chain)
                        changed = True

    def of(self, f):
        return list(self.escape.get(f, {}).values())
