"""A small interpreter for *pure* expressions over abstract environments.

The checker evaluates guard expressions taken from the repository's AST on environments it constructs
(truth-table rows, boundary integers, small lists).  No repository code is executed: only expression trees
made of constants, names, attribute chains, comparisons, boolean operators, membership tests, len(), cast(),
simple subscripts, startswith/endswith/find on strings and list/tuple literals are interpreted; anything else
raises Unknown, which callers turn into ANALYSIS-ERROR (exit 2), never a pass.
"""
import ast

from .core import AnalysisError, unparse, loc


class Unknown(AnalysisError):
    pass


_CMP = {
    ast.Lt: lambda a, b: a < b, ast.LtE: lambda a, b: a <= b, ast.Gt: lambda a, b: a > b, ast.GtE: lambda a, b: a >= b,
    ast.Eq: lambda a, b: a == b, ast.NotEq: lambda a, b: a != b, ast.In: lambda a, b: a in b, ast.NotIn: lambda a, b: a not in b,
    ast.Is: lambda a, b: a is b, ast.IsNot: lambda a, b: a is not b,
}
_BIN = {
    ast.Add: lambda a, b: a + b, ast.Sub: lambda a, b: a - b, ast.Mult: lambda a, b: a * b, ast.Mod: lambda a, b: a % b,
    ast.FloorDiv: lambda a, b: a // b, ast.BitAnd: lambda a, b: a & b, ast.BitOr: lambda a, b: a | b, ast.LShift: lambda a, b: a << b,
    ast.RShift: lambda a, b: a >> b, ast.BitXor: lambda a, b: a ^ b,
    ast.Pow: lambda a, b: _pow(a, b),
}


def _pow(a, b):
    if isinstance(a, int) and isinstance(b, int) and not isinstance(a, bool) and 0 <= b <= 70000 and abs(a) <= 1 << 64:
        return a ** b
    raise Unknown('power outside the evaluator\'s range')
_STR_METHODS = ('startswith', 'endswith', 'find', 'strip', 'lower', 'upper', 'rindex', 'index', 'split', 'rfind', 'lstrip', 'rstrip', 'ljust', 'rjust', 'replace', 'isdigit', 'count', 'rsplit', 'partition', 'rpartition', 'casefold', 'title', 'capitalize', 'zfill', 'isalpha', 'isalnum', 'isspace', 'isascii', 'isprintable', 'removeprefix', 'removesuffix')


def _has_opaque(v, depth=0):
    if isinstance(v, Opaque):
        return True
    if depth < 4 and isinstance(v, (list, tuple, set)):
        return any(_has_opaque(x, depth + 1) for x in v)
    if depth < 4 and isinstance(v, dict):
        return any(_has_opaque(x, depth + 1) for x in v.values()) or any(_has_opaque(x, depth + 1) for x in v)
    return False


def ev(node, env, hook=None):
    """env maps normalised source text (e.g. 'aconf.port', 'level') to Python values.  `hook(node)` may
    return (True, value) to override evaluation of a sub-expression."""
    if hook is not None:
        r = hook(node)
        if r is not None:
            return r[1]
    t = None
    if isinstance(node, (ast.Name, ast.Attribute, ast.Subscript, ast.Call, ast.Compare)):
        t = unparse(node)
        if t in env:
            return env[t]
    if isinstance(node, ast.Constant):
        return node.value
    if isinstance(node, ast.Name):
        raise Unknown('abstract evaluation: no value for %s (%s)' % (node.id, loc(node)))
    if isinstance(node, ast.Attribute):
        raise Unknown('abstract evaluation: no value for %s (%s)' % (t, loc(node)))
    if isinstance(node, (ast.List, ast.Tuple)):
        vals = [ev(e, env, hook) for e in node.elts]
        return vals if isinstance(node, ast.List) else tuple(vals)
    if isinstance(node, ast.BoolOp):
        if isinstance(node.op, ast.And):
            v = True
            for x in node.values:
                v = ev(x, env, hook)
                if not v:
                    return v
            return v
        v = False
        for x in node.values:
            v = ev(x, env, hook)
            if v:
                return v
        return v
    if isinstance(node, ast.UnaryOp):
        v = ev(node.operand, env, hook)
        if isinstance(node.op, ast.Not):
            return not v
        if isinstance(node.op, ast.USub):
            return -v
    if isinstance(node, ast.IfExp):
        return ev(node.body, env, hook) if ev(node.test, env, hook) else ev(node.orelse, env, hook)
    if isinstance(node, ast.Compare):
        left = ev(node.left, env, hook)
        for op, r in zip(node.ops, node.comparators):
            right = ev(r, env, hook)
            f = _CMP.get(type(op))
            if f is None:
                raise Unknown('operator in %s' % t)
            if isinstance(left, Opaque) or isinstance(right, Opaque):
                if isinstance(op, (ast.Is, ast.IsNot)) and (left is None or right is None):
                    pass        # an opaque token is a non-None value
                else:
                    raise Unknown('comparison with a value that is not computable: %s' % unparse(node))
            if not f(left, right):
                return False
            left = right
        return True
    if isinstance(node, ast.BinOp) and type(node.op) in _BIN:
        lv, rv = ev(node.left, env, hook), ev(node.right, env, hook)
        if isinstance(lv, Opaque) or isinstance(rv, Opaque) or (isinstance(node.op, ast.Mod) and isinstance(lv, (str, bytes)) and _has_opaque(rv)):
            raise Unknown('arithmetic on a value that is not computable: %s' % unparse(node))
        return _BIN[type(node.op)](lv, rv)
    if isinstance(node, ast.Subscript):
        base = ev(node.value, env, hook)
        if isinstance(node.slice, ast.Slice):
            lo = ev(node.slice.lower, env, hook) if node.slice.lower is not None else None
            hi = ev(node.slice.upper, env, hook) if node.slice.upper is not None else None
            step = ev(node.slice.step, env, hook) if node.slice.step is not None else None
            return base[lo:hi:step]
        return base[ev(node.slice, env, hook)]
    if isinstance(node, ast.Call):
        fn = node.func
        if isinstance(fn, ast.Name):
            if fn.id == 'len' and len(node.args) == 1:
                return len(ev(node.args[0], env, hook))
            if fn.id == 'cast' and len(node.args) == 2:
                return ev(node.args[1], env, hook)
            if fn.id in ('bool', 'int', 'str', 'abs') and len(node.args) == 1:
                return {'bool': bool, 'int': int, 'str': str, 'abs': abs}[fn.id](ev(node.args[0], env, hook))
            if fn.id in ('min', 'max') and node.args and not node.keywords:
                vals = [ev(a, env, hook) for a in node.args]
                return (min if fn.id == 'min' else max)(*vals) if len(vals) > 1 else (min if fn.id == 'min' else max)(vals[0])
        if isinstance(fn, ast.Attribute) and fn.attr in _STR_METHODS:
            base = ev(fn.value, env, hook)
            if isinstance(base, str):
                return getattr(base, fn.attr)(*[ev(a, env, hook) for a in node.args])
            if isinstance(base, bytes) and hasattr(bytes, fn.attr):
                return getattr(base, fn.attr)(*[ev(a, env, hook) for a in node.args])
        if isinstance(fn, ast.Attribute) and fn.attr == 'decode':
            base = ev(fn.value, env, hook)
            if isinstance(base, (bytes, bytearray)):
                return bytes(base).decode(*[ev(a, env, hook) for a in node.args])
        if isinstance(fn, ast.Attribute) and fn.attr in ('keys', 'values', 'items', 'get'):
            base = ev(fn.value, env, hook)
            if isinstance(base, dict):
                return getattr(base, fn.attr)(*[ev(a, env, hook) for a in node.args])
    raise Unknown('abstract evaluation: unsupported expression %s (%s)' % (unparse(node)[:80], loc(node)))


class Opaque:
    """Non-None token for values the evaluator cannot compute."""
    def __repr__(self):
        return '<opaque>'


def track_block(body, env, tracked, on_eval=None, hook=None):
    """Abstractly interpret a statement list over `env`, tracking assignments to the `tracked` names.  Guards
    must be decidable on env (else Unknown); uncomputable values become Opaque().  Returns 'return'/'raise'
    when the block leaves the function, else None."""
    from .core import stmt_text
    for st in body:
        if isinstance(st, ast.If):
            c = ev(st.test, env, hook)
            if on_eval:
                on_eval()
            r = track_block(st.body if c else st.orelse, env, tracked, on_eval, hook)
            if r:
                return r
        elif isinstance(st, (ast.Assign, ast.AnnAssign)):
            targets = st.targets if isinstance(st, ast.Assign) else [st.target]
            if st.value is None:
                continue
            for t in targets:
                pairs = []
                if isinstance(t, ast.Tuple) and isinstance(st.value, ast.Tuple) and len(t.elts) == len(st.value.elts):
                    pairs = list(zip(t.elts, st.value.elts))
                else:
                    pairs = [(t, st.value)]
                for a, b in pairs:
                    nm = unparse(a)
                    if nm in tracked:
                        try:
                            env[nm] = ev(b, env, hook)
                        except Unknown:
                            env[nm] = Opaque()
        elif isinstance(st, ast.Expr) and isinstance(st.value, ast.Call) and isinstance(st.value.func, ast.Attribute) and st.value.func.attr in ('append', 'extend', 'add') and unparse(st.value.func.value) in tracked:
            nm = unparse(st.value.func.value)
            try:
                val = ev(st.value.args[0], env, hook)
            except Unknown:
                val = Opaque()
            if isinstance(env.get(nm), list):
                if st.value.func.attr == 'extend' and isinstance(val, (list, tuple)):
                    env[nm].extend(val)
                else:
                    env[nm].append(val)
            elif isinstance(env.get(nm), set):
                env[nm].add(val)
        elif isinstance(st, ast.AugAssign):
            nm = unparse(st.target)
            if nm in tracked:
                try:
                    cur = env[nm]
                    val = ev(st.value, env, hook)
                    env[nm] = _BIN[type(st.op)](cur, val)
                except (Unknown, KeyError, TypeError):
                    env[nm] = Opaque()
        elif isinstance(st, ast.Return):
            if '<return>' in tracked:
                try:
                    env['<return>'] = ev(st.value, env, hook) if st.value is not None else None
                except Unknown:
                    env['<return>'] = Opaque()
            return 'return'
        elif isinstance(st, ast.Raise):
            return 'raise'
        elif isinstance(st, ast.Expr) and isinstance(st.value, ast.Call) and unparse(st.value.func) in ('sys.exit',):
            return 'raise'
        elif isinstance(st, (ast.For, ast.While, ast.Try, ast.With)):
            for n in ast.walk(st):
                if isinstance(n, ast.Assign) and any(unparse(t) in tracked for t in n.targets):
                    raise Unknown('tracked variable assigned inside a compound statement: %s' % stmt_text(st))
    return None


def explore(stmts, env, tracked, loops=None, budget=None):
    """Path-forking abstract interpreter for a statement list, tracking only the `tracked` names.
    Conditions that cannot be evaluated on env are forked (both branches explored) when their branches can
    change a tracked name or return; otherwise they are skipped.  `loops` maps a for-loop's iterable text to
    the abstract sequence of target bindings to iterate, e.g. {'texts': [{'level': 'fail'}, ...]}.
    Returns a list of (env, outcome) with outcome in {'fall', 'return', 'raise'}; the returned value is in
    env['<return>'] (Opaque() when not computable)."""
    from .core import stmt_text
    loops = loops or {}
    budget = budget or [4000]

    def relevant(node):
        for n in ast.walk(node):
            if isinstance(n, (ast.Return, ast.Raise)):
                return True
            if isinstance(n, (ast.Assign, ast.AugAssign, ast.AnnAssign)):
                ts = n.targets if isinstance(n, ast.Assign) else [n.target]
                for t in ts:
                    for x in ast.walk(t):
                        if isinstance(x, ast.Name) and x.id in tracked:
                            return True
        return False

    def run(block, envs):
        """envs: list of env dicts still falling through; returns (fall_envs, finished)"""
        finished = []
        for st in block:
            nxt = []
            for e in envs:
                budget[0] -= 1
                if budget[0] < 0:
                    raise Unknown('path explosion in abstract exploration')
                if e.get('<jump>'):
                    nxt.append(e)
                    continue
                if isinstance(st, ast.If):
                    try:
                        c = ev(st.test, e)
                        branches = [(st.body if c else st.orelse, e)]
                    except Unknown:
                        if relevant(st):
                            branches = [(st.body, dict(e)), (st.orelse, dict(e))]
                        else:
                            branches = [([], e)]
                    for b, e2 in branches:
                        f, fin = run(b, [e2])
                        nxt.extend(f)
                        finished.extend(fin)
                elif isinstance(st, ast.For):
                    key = unparse(st.iter)
                    if key in loops:
                        cur = [e]
                        broke = []
                        for binding in loops[key]:
                            step = []
                            for e2 in cur:
                                e3 = dict(e2)
                                e3.update(binding)
                                f, fin = run(st.body, [e3])
                                finished.extend(fin)
                                for e4 in f:
                                    j = e4.pop('<jump>', None)
                                    if j == 'break':
                                        broke.append(e4)
                                    else:
                                        step.append(e4)
                            cur = step
                        cur = cur + broke
                        for e2 in cur:
                            e2['<loops_done>'] = e2.get('<loops_done>', ()) + (key,)
                        nxt.extend(cur)
                    elif relevant(st):
                        raise Unknown('loop over %s changes a tracked name but no abstract sequence was supplied' % key)
                    else:
                        nxt.append(e)
                elif isinstance(st, (ast.While, ast.Try)):
                    if relevant(st):
                        raise Unknown('tracked name changed inside %s' % stmt_text(st))
                    nxt.append(e)
                elif isinstance(st, ast.With):
                    f, fin = run(st.body, [e])
                    nxt.extend(f)
                    finished.extend(fin)
                elif isinstance(st, ast.Return):
                    try:
                        e['<return>'] = ev(st.value, e) if st.value is not None else None
                    except Unknown:
                        e['<return>'] = Opaque()
                    finished.append((e, 'return'))
                elif isinstance(st, ast.Raise):
                    finished.append((e, 'raise'))
                elif isinstance(st, (ast.Continue, ast.Break)):
                    e['<jump>'] = 'continue' if isinstance(st, ast.Continue) else 'break'
                    nxt.append(e)      # approximated: treated by the caller's loop as end of this iteration
                elif isinstance(st, (ast.Assign, ast.AnnAssign, ast.AugAssign)):
                    track_block([st], e, tracked)
                    nxt.append(e)
                else:
                    nxt.append(e)
            envs = nxt
            if not envs:
                break
        return envs, finished
    fall, fin = run(stmts, [dict(env)])
    return [(e, 'fall') for e in fall] + fin
