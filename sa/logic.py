"""Propositional evaluation of pure guard expressions, path conditions, ordering evaluation.

The checker's *own* interpreter evaluates expression trees over abstract valuations; repo code is never run.
"""
import ast
import itertools

from .core import AnalysisError, unparse, loc


def atoms_of(expr, atomize):
    """Set of atom keys of a guard expression.  `atomize(node)` returns a key (str) for nodes that are
    atomic propositions, or None for nodes the evaluator must decompose."""
    out = []

    def rec(n):
        k = atomize(n)
        if k is not None:
            out.append(k)
            return
        if isinstance(n, ast.BoolOp):
            for v in n.values:
                rec(v)
        elif isinstance(n, ast.UnaryOp) and isinstance(n.op, ast.Not):
            rec(n.operand)
        elif isinstance(n, ast.IfExp):
            rec(n.test), rec(n.body), rec(n.orelse)
        elif isinstance(n, ast.Constant):
            pass
        elif isinstance(n, ast.Compare) and len(n.ops) > 1:
            for c in split_compare(n):
                rec(c)
        elif isinstance(n, ast.Call) and isinstance(n.func, ast.Name) and n.func.id == 'bool' and len(n.args) == 1:
            rec(n.args[0])
        else:
            raise AnalysisError('unrecognised proposition %s at %s' % (unparse(n), loc(n)))
    rec(expr)
    return sorted(set(out))


def split_compare(n):
    """a < b < c  ->  [a < b, b < c]"""
    out = []
    left = n.left
    for op, right in zip(n.ops, n.comparators):
        c = ast.Compare(left=left, ops=[op], comparators=[right])
        ast.copy_location(c, n)
        c._module = getattr(n, '_module', None)
        out.append(c)
        left = right
    return out


def eval_prop(expr, atomize, val):
    """Evaluate guard `expr` under valuation `val` (atom key -> bool)."""
    k = atomize(expr)
    if k is not None:
        neg = False
        if k.startswith('!'):
            neg, k = True, k[1:]
        if k not in val:
            raise AnalysisError('atom %s has no valuation (%s)' % (k, loc(expr)))
        return (not val[k]) if neg else val[k]
    if isinstance(expr, ast.BoolOp):
        vs = [eval_prop(v, atomize, val) for v in expr.values]
        return all(vs) if isinstance(expr.op, ast.And) else any(vs)
    if isinstance(expr, ast.UnaryOp) and isinstance(expr.op, ast.Not):
        return not eval_prop(expr.operand, atomize, val)
    if isinstance(expr, ast.IfExp):
        return eval_prop(expr.body, atomize, val) if eval_prop(expr.test, atomize, val) else eval_prop(expr.orelse, atomize, val)
    if isinstance(expr, ast.Constant):
        return bool(expr.value)
    if isinstance(expr, ast.Compare) and len(expr.ops) > 1:
        return all(eval_prop(c, atomize, val) for c in split_compare(expr))
    if isinstance(expr, ast.Call) and isinstance(expr.func, ast.Name) and expr.func.id == 'bool' and len(expr.args) == 1:
        return eval_prop(expr.args[0], atomize, val)
    raise AnalysisError('unrecognised proposition %s at %s' % (unparse(expr), loc(expr)))


def valuations(atoms):
    for bits in itertools.product([False, True], repeat=len(atoms)):
        yield dict(zip(atoms, bits))


def text_atomizer(table, strict=True):
    """Atomizer from a table {normalised source text: atom key}.  A key may start with '!' to denote the
    negation of an atom (e.g. 'x is None' -> '!x_present').  Compound nodes (and/or/not/ifexp) return None."""
    def atomize(n):
        if isinstance(n, (ast.BoolOp, ast.IfExp, ast.UnaryOp)):
            try:
                tt = unparse(n)
            except Exception:
                tt = None
            if tt in table:
                return table[tt]
        if isinstance(n, (ast.BoolOp, ast.IfExp)):
            return None
        if isinstance(n, ast.UnaryOp) and isinstance(n.op, ast.Not):
            return None
        if isinstance(n, ast.Constant):
            return None
        t = unparse(n)
        if t in table:
            return table[t]
        if isinstance(n, ast.Compare) and len(n.ops) > 1:
            return None
        if isinstance(n, ast.Call) and isinstance(n.func, ast.Name) and n.func.id == 'bool' and len(n.args) == 1:
            return None
        if strict:
            raise AnalysisError('unrecognised atom "%s" at %s' % (t, loc(n)))
        return 'opaque:' + t
    return atomize


# ---------------------------------------------------------------------------------------------
# Path conditions
# ---------------------------------------------------------------------------------------------
def always_exits(stmts):
    """True when a statement list always leaves the enclosing block (return/raise/continue/break/sys.exit)."""
    if not stmts:
        return False
    last = stmts[-1]
    if isinstance(last, (ast.Return, ast.Raise, ast.Continue, ast.Break)):
        return True
    if isinstance(last, ast.Expr) and isinstance(last.value, ast.Call) and unparse(last.value.func) in ('sys.exit', 'exit', 'os._exit'):
        return True
    if isinstance(last, ast.If) and last.orelse:
        return always_exits(last.body) and always_exits(last.orelse)
    return False


def _has_exit(stmts):
    """Does the statement list contain a return/raise/continue/break that leaves the *enclosing* block?"""
    for st in stmts:
        if isinstance(st, (ast.Return, ast.Raise, ast.Continue, ast.Break)):
            return True
        if isinstance(st, ast.Expr) and isinstance(st.value, ast.Call) and unparse(st.value.func) in ('sys.exit', 'exit', 'os._exit'):
            return True
        if isinstance(st, ast.If) and (_has_exit(st.body) or _has_exit(st.orelse)):
            return True
        if isinstance(st, (ast.With,)) and _has_exit(st.body):
            return True
        if isinstance(st, ast.Try) and (_has_exit(st.body) or _has_exit(st.orelse) or _has_exit(st.finalbody) or any(_has_exit(h.body) for h in st.handlers)):
            return True
        if isinstance(st, (ast.For, ast.While)):
            # return/raise inside a loop leave the enclosing block too; break/continue do not
            for n in ast.walk(st):
                if isinstance(n, (ast.Return, ast.Raise)):
                    return True
    return False


def _and(a, b):
    if a is True:
        return b
    if b is True:
        return a
    if a is False or b is False:
        return False
    return ast.BoolOp(op=ast.And(), values=[a, b])


def _or(a, b):
    if a is False:
        return b
    if b is False:
        return a
    if a is True or b is True:
        return True
    return ast.BoolOp(op=ast.Or(), values=[a, b])


def _not(a):
    if a is True:
        return False
    if a is False:
        return True
    return ast.UnaryOp(op=ast.Not(), operand=a)


def pass_formula(stmts):
    """Propositional condition (ast expr, or True/False) under which control falls through a statement
    list, ignoring state changes inside it.  Loops and try blocks are assumed to fall through."""
    f = True
    for st in stmts:
        if isinstance(st, (ast.Return, ast.Raise, ast.Continue, ast.Break)):
            return False
        if isinstance(st, ast.Expr) and isinstance(st.value, ast.Call) and unparse(st.value.func) in ('sys.exit', 'exit', 'os._exit'):
            return False
        if isinstance(st, ast.If):
            pb, po = pass_formula(st.body), pass_formula(st.orelse)
            if pb is True and po is True:
                continue
            g = _or(_and(st.test, pb), _and(_not(st.test), po))
            f = _and(f, g)
        elif isinstance(st, ast.With):
            f = _and(f, pass_formula(st.body))
        if f is False:
            return False
    return f


def sibling_guard(sib):
    """(test, polarity, 'guard') contributed by a preceding sibling statement, or None."""
    if not isinstance(sib, ast.If):
        return None
    if not sib.orelse and always_exits(sib.body):
        return (sib.test, False, 'guard')
    if sib.orelse and always_exits(sib.orelse) and not _has_exit(sib.body):
        return (sib.test, True, 'guard')
    if _has_exit(sib.body) or _has_exit(sib.orelse):
        f = pass_formula([sib])
        if f is True:
            return None
        if f is False:
            f = ast.Constant(value=False)
        ast.copy_location(f, sib)
        for n in ast.walk(f):
            if not hasattr(n, 'lineno'):
                ast.copy_location(n, sib)
            if not hasattr(n, '_module'):
                n._module = getattr(sib, '_module', None)
        return (f, True, 'guard')
    return None


def path_condition(node, stop=None):
    """List of (test_expr, polarity, kind) enclosing `node` inside its function: `if` tests with the branch
    taken, `while` tests, loop iterables ('for', iter, target) and dominating early-exit guards
    (`if X: return/continue` before the statement => (X, False, 'guard')).  Innermost last."""
    conds = []
    child = node
    parent = getattr(node, '_parent', None)
    while parent is not None and not isinstance(parent, (ast.FunctionDef, ast.AsyncFunctionDef, ast.ClassDef, ast.Module)):
        local = []
        # conditions inside an expression: the branch of a conditional expression, the operands evaluated before this one in a short-circuit chain
        if isinstance(parent, ast.IfExp) and child is not parent.test:
            local.append((parent.test, child is parent.body, 'ifexp'))
        elif isinstance(parent, ast.BoolOp) and child in parent.values:
            k = parent.values.index(child)
            for v in parent.values[:k]:
                local.append((v, isinstance(parent.op, ast.And), 'and' if isinstance(parent.op, ast.And) else 'or'))
        for field in ('body', 'orelse', 'finalbody', 'handlers'):
            blk = getattr(parent, field, None)
            if isinstance(blk, list) and child in blk:
                # early-exit guards among preceding siblings
                for sib in blk[:blk.index(child)]:
                    g = sibling_guard(sib)
                    if g is not None:
                        local.append(g)
                if parent is stop:
                    pass        # conditions *inside* the stop node only: its own header is not part of the result
                elif isinstance(parent, ast.If):
                    local.insert(0, (parent.test, field == 'body', 'if'))
                elif isinstance(parent, ast.While) and field == 'body':
                    local.insert(0, (parent.test, True, 'while'))
                elif isinstance(parent, ast.For) and field == 'body':
                    local.insert(0, (parent.iter, True, 'for'))
                break
        conds = local + conds
        if parent is stop:
            return conds
        child = parent
        parent = getattr(parent, '_parent', None)
    if parent is not None and isinstance(parent, (ast.FunctionDef, ast.AsyncFunctionDef)) and child in parent.body:
        pre = []
        for sib in parent.body[:parent.body.index(child)]:
            g = sibling_guard(sib)
            if g is not None:
                pre.append(g)
        conds = pre + conds
    return conds


def implied_atoms(conds):
    """Atoms (comparison / call expressions) whose truth value follows from a path condition: a true conjunction makes every conjunct true, a false
    disjunction every disjunct false, `not` flips.  Yields (expression, truth)."""
    def rec(t, p):
        if isinstance(t, ast.UnaryOp) and isinstance(t.op, ast.Not):
            yield from rec(t.operand, not p)
        elif isinstance(t, ast.BoolOp) and isinstance(t.op, ast.And) and p:
            for v in t.values:
                yield from rec(v, True)
        elif isinstance(t, ast.BoolOp) and isinstance(t.op, ast.Or) and not p:
            for v in t.values:
                yield from rec(v, False)
        else:
            yield t, p
    for t, p, k in conds:
        if k == 'for':
            continue
        yield from rec(t, p)


def eval_path(conds, atomize, val, kinds=('if', 'guard', 'while')):
    for test, pol, kind in conds:
        if kind not in kinds:
            continue
        if eval_prop(test, atomize, val) != pol:
            return False
    return True


# ---------------------------------------------------------------------------------------------
# Ordering evaluation: integer variable against constants
# ---------------------------------------------------------------------------------------------
_CMP = {
    ast.Lt: lambda a, b: a < b, ast.LtE: lambda a, b: a <= b, ast.Gt: lambda a, b: a > b,
    ast.GtE: lambda a, b: a >= b, ast.Eq: lambda a, b: a == b, ast.NotEq: lambda a, b: a != b,
}


def eval_int_guard(expr, env, opaque=None):
    """Evaluate a guard whose atoms are comparisons between integer expressions over `env`
    (name/text -> int) and constants; `opaque(node)` may supply truth values for non-integer atoms."""
    def num(n):
        if isinstance(n, ast.Constant) and isinstance(n.value, (int, float)) and not isinstance(n.value, bool):
            return n.value
        t = unparse(n)
        if t in env:
            return env[t]
        if isinstance(n, ast.Call) and isinstance(n.func, ast.Name) and n.func.id == 'cast' and len(n.args) == 2:
            return num(n.args[1])
        if isinstance(n, ast.UnaryOp) and isinstance(n.op, ast.USub):
            return -num(n.operand)
        raise AnalysisError('ordering evaluator: unknown integer term %s at %s' % (t, loc(n)))

    def rec(n):
        if opaque is not None:
            r = opaque(n)
            if r is not None:
                return r
        if isinstance(n, ast.BoolOp):
            vs = [rec(v) for v in n.values]
            return all(vs) if isinstance(n.op, ast.And) else any(vs)
        if isinstance(n, ast.UnaryOp) and isinstance(n.op, ast.Not):
            return not rec(n.operand)
        if isinstance(n, ast.Compare):
            left = n.left
            for op, right in zip(n.ops, n.comparators):
                f = _CMP.get(type(op))
                if f is None:
                    raise AnalysisError('ordering evaluator: operator in %s at %s' % (unparse(n), loc(n)))
                if not f(num(left), num(right)):
                    return False
                left = right
            return True
        if isinstance(n, ast.Constant):
            return bool(n.value)
        if isinstance(n, ast.Call) and isinstance(n.func, ast.Name) and n.func.id == 'bool' and len(n.args) == 1:
            return rec(n.args[0])
        raise AnalysisError('ordering evaluator: unrecognised guard %s at %s' % (unparse(n), loc(n)))
    return rec(expr)


def excludes(conds, atom_text, value=True):
    """Do the path conditions rule out `atom_text` having truth value `value`?  Every other atom is
    universally quantified (the conditions must fail for all their valuations)."""
    for t, p, k in conds:
        if k == 'for':
            continue
        atz = text_atomizer({atom_text: 'X'}, strict=False)
        try:
            ats = atoms_of(t, atz)
        except AnalysisError:
            continue
        if 'X' not in ats:
            continue
        others = [a for a in ats if a != 'X']
        if len(others) > 12:
            continue
        ok = True
        for val in valuations(others):
            val['X'] = value
            if eval_prop(t, atz, val) == p:
                ok = False
                break
        if ok:
            return True
    return False
