"""Regular-language tools on Python regex syntax trees (re._parser): epsilon-NFA construction over a finite
alphabet, subset construction, language inclusion with a shortest counter-example.

Only the *language* of a pattern is modelled (greedy vs lazy repeats and captures do not matter for it).
Unsupported opcodes raise Unsupported -> callers report ANALYSIS-ERROR (cannot decide), never a pass."""
import re
try:
    import re._parser as sre_parse
    import re._constants as sre_c
except ImportError:      # older interpreters
    import sre_parse
    import sre_constants as sre_c

from .core import AnalysisError


class Unsupported(AnalysisError):
    pass


PRINTABLE = frozenset(range(32, 127))


def _category(cat, alphabet):
    name = str(cat)
    if name.endswith('CATEGORY_DIGIT'):
        return frozenset(c for c in alphabet if 48 <= c <= 57)
    if name.endswith('CATEGORY_NOT_DIGIT'):
        return frozenset(c for c in alphabet if not 48 <= c <= 57)
    if name.endswith('CATEGORY_SPACE'):
        return frozenset(c for c in alphabet if c in (32, 9, 10, 11, 12, 13))
    if name.endswith('CATEGORY_NOT_SPACE'):
        return frozenset(c for c in alphabet if c not in (32, 9, 10, 11, 12, 13))
    if name.endswith('CATEGORY_WORD'):
        return frozenset(c for c in alphabet if chr(c).isalnum() or c == 95)
    if name.endswith('CATEGORY_NOT_WORD'):
        return frozenset(c for c in alphabet if not (chr(c).isalnum() or c == 95))
    raise Unsupported('regex category %s' % name)


def _charset(items, alphabet):
    neg = False
    s = set()
    for op, av in items:
        n = str(op)
        if n == 'NEGATE':
            neg = True
        elif n == 'LITERAL':
            s.add(av)
        elif n == 'RANGE':
            s.update(range(av[0], av[1] + 1))
        elif n == 'CATEGORY':
            s |= _category(av, alphabet)
        else:
            raise Unsupported('regex set item %s' % n)
    s = frozenset(c for c in s if c in alphabet)
    return frozenset(alphabet - s) if neg else s


class NFA:
    def __init__(self, alphabet):
        self.alphabet = alphabet
        self.n = 0
        self.eps = {}
        self.trans = {}       # state -> [(charset, target)]

    def new(self):
        self.n += 1
        return self.n - 1

    def add_eps(self, a, b):
        self.eps.setdefault(a, set()).add(b)

    def add(self, a, cs, b):
        self.trans.setdefault(a, []).append((cs, b))

    def build(self, tree, start, at_start=True, at_end=True):
        """Thompson construction of `tree` (a SubPattern / list of nodes) from `start`; returns end state."""
        cur = start
        items = list(tree)
        for idx, (op, av) in enumerate(items):
            n = str(op)
            nxt = self.new()
            if n == 'LITERAL':
                if av in self.alphabet:
                    self.add(cur, frozenset([av]), nxt)
            elif n == 'NOT_LITERAL':
                self.add(cur, frozenset(self.alphabet - {av}), nxt)
            elif n == 'ANY':
                self.add(cur, frozenset(c for c in self.alphabet if c != 10), nxt)
            elif n == 'IN':
                self.add(cur, _charset(av, self.alphabet), nxt)
            elif n == 'AT':
                a = str(av)
                if a in ('AT_BEGINNING', 'AT_BEGINNING_STRING'):
                    if not (at_start and idx == 0):
                        raise Unsupported('^ not at the start of the pattern')
                    self.add_eps(cur, nxt)
                elif a in ('AT_END', 'AT_END_STRING'):
                    if not (at_end and idx == len(items) - 1):
                        raise Unsupported('$ not at the end of the pattern')
                    self.add_eps(cur, nxt)
                else:
                    raise Unsupported('regex anchor %s' % a)
            elif n == 'SUBPATTERN':
                sub = av[-1]
                end = self.build(sub, cur, at_start and idx == 0, at_end and idx == len(items) - 1)
                self.add_eps(end, nxt)
            elif n == 'BRANCH':
                for alt in av[1]:
                    s0 = self.new()
                    self.add_eps(cur, s0)
                    e = self.build(alt, s0, at_start and idx == 0, at_end and idx == len(items) - 1)
                    self.add_eps(e, nxt)
            elif n in ('MAX_REPEAT', 'MIN_REPEAT', 'POSSESSIVE_REPEAT'):
                lo, hi, sub = av
                unbounded = hi == sre_c.MAXREPEAT
                if not unbounded and hi > 64:
                    raise Unsupported('repeat bound %d' % hi)
                c = cur
                for _ in range(lo):
                    e = self.build(sub, c, False, False)
                    c = e
                if unbounded:
                    loop = self.new()
                    self.add_eps(c, loop)
                    e = self.build(sub, loop, False, False)
                    self.add_eps(e, loop)
                    self.add_eps(loop, nxt)
                else:
                    self.add_eps(c, nxt)
                    for _ in range(hi - lo):
                        e = self.build(sub, c, False, False)
                        self.add_eps(e, nxt)
                        c = e
            else:
                raise Unsupported('regex opcode %s' % n)
            cur = nxt
        return cur

    def closure(self, states):
        out = set(states)
        stack = list(states)
        while stack:
            s = stack.pop()
            for t in self.eps.get(s, ()):
                if t not in out:
                    out.add(t)
                    stack.append(t)
        return frozenset(out)

    def step(self, states, ch):
        out = set()
        for s in states:
            for cs, t in self.trans.get(s, ()):
                if ch in cs:
                    out.add(t)
        return self.closure(out)


class Lang:
    def __init__(self, pattern, alphabet=PRINTABLE, anchored_start=True, tree=None):
        self.pattern = pattern
        if tree is None:
            try:
                tree = sre_parse.parse(pattern)
            except re.error as e:
                raise AnalysisError('pattern does not parse: %s' % e)
        self.groups = tree.state.groups - 1 if hasattr(tree, 'state') else 0
        self.nfa = NFA(alphabet)
        self.start = self.nfa.new()
        self.accept = self.nfa.build(tree, self.start)
        self.alphabet = alphabet
        self.opcodes = sorted({str(op) for op, av in _walk(tree)})

    def initial(self):
        return self.nfa.closure([self.start])

    def accepting(self, st):
        return self.accept in st

    def accepts(self, s):
        st = self.initial()
        for ch in s:
            st = self.nfa.step(st, ord(ch))
            if not st:
                return False
        return self.accepting(st)


def _walk(tree):
    for op, av in tree:
        yield op, av
        n = str(op)
        if n == 'SUBPATTERN':
            yield from _walk(av[-1])
        elif n == 'BRANCH':
            for alt in av[1]:
                yield from _walk(alt)
        elif n in ('MAX_REPEAT', 'MIN_REPEAT', 'POSSESSIVE_REPEAT'):
            yield from _walk(av[2])


def _classes(langs, alphabet):
    """Partition the alphabet into classes that no charset of any NFA distinguishes."""
    sig = {}
    sets = []
    for L in langs:
        for lst in L.nfa.trans.values():
            for cs, t in lst:
                sets.append(cs)
    sets = list(dict.fromkeys(sets))
    for c in alphabet:
        key = tuple(c in s for s in sets)
        sig.setdefault(key, []).append(c)
    return [v for v in sig.values()]


def inclusion(spec, impl):
    """Is L(spec) a subset of L(impl)?  Returns (True, stats) or (False, shortest counter-example string)."""
    from collections import deque
    classes = _classes([spec, impl], spec.alphabet)
    reps = [cl[0] for cl in classes]
    start = (spec.initial(), impl.initial())
    seen = {start: None}
    q = deque([start])
    states = 0
    while q:
        a, b = q.popleft()
        states += 1
        if spec.accepting(a) and not impl.accepting(b):
            # reconstruct
            s = []
            cur = (a, b)
            while seen[cur] is not None:
                prev, ch = seen[cur]
                s.append(chr(ch))
                cur = prev
            return False, ''.join(reversed(s))
        for ch in reps:
            na = spec.nfa.step(a, ch)
            if not na:
                continue
            nb = impl.nfa.step(b, ch)
            nxt = (na, nb)
            if nxt not in seen:
                seen[nxt] = ((a, b), ch)
                q.append(nxt)
    return True, {'product_states': states, 'alphabet_classes': len(classes)}


def split_at_group(pattern, group=1, alphabet=PRINTABLE):
    """For a pattern whose top level is a concatenation containing capture group `group` as one item:
    returns (Lang of what precedes the group, Lang of the group's own sub-pattern, Lang of what follows).
    Raises Unsupported when the group is nested inside a repeat / branch (its text is then not a factor)."""
    try:
        tree = sre_parse.parse(pattern)
    except re.error as e:
        raise AnalysisError('pattern does not parse: %s' % e)
    items = list(tree)
    for i, (op, av) in enumerate(items):
        if str(op) == 'SUBPATTERN' and av[0] == group:
            pre, post = items[:i], items[i + 1:]
            pre = [(o, a) for o, a in pre if not (str(o) == 'AT' and str(a) in ('AT_BEGINNING', 'AT_BEGINNING_STRING'))]
            post = [(o, a) for o, a in post if not (str(o) == 'AT' and str(a) in ('AT_END', 'AT_END_STRING'))]
            return (Lang(pattern + ' [before group %d]' % group, alphabet, tree=pre), Lang(pattern + ' [group %d]' % group, alphabet, tree=list(av[-1])),
                    Lang(pattern + ' [after group %d]' % group, alphabet, tree=post))
    raise Unsupported('capture group %d of %r is not a top-level factor of the pattern' % (group, pattern))
