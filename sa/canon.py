"""Spelling normalisation of the analysed tree (companion of alphanorm).

Many rules compare the text of a guard with the spelling it had in the tree the rules were confirmed against.  A
behaviour-preserving respelling (`not x is None`, `len(x) >= 1`, flipped comparison, swapped if/else, `if a: if b:`,
`if not c: <rest>` instead of `if c: continue`, a temporary in front of `return`) must not change a verdict.  Every
rewrite below is a logical equivalence of Python semantics for the value kinds this package uses (ints, strings, lists,
None); guidance by the reference snapshot only *selects which of two equivalent spellings* is kept, so a violation is
never normalised away: the normalised tree computes the same function as the tree on disk.

phase A (unconditional, forms that do not occur in the reference tree):
    not (a is None) -> a is not None (and the other membership / identity / equality operators); len(x) >= 1, len(x) != 0,
    0 < len(x) -> len(x) > 0; len(x) < 1, len(x) <= 0 -> len(x) == 0; constant on the left of a comparison -> on the right.
phase C (guided by reference_canon.json, per function, after alpha-normalisation of local names):
    comparison orientation, if/else polarity, nested single ifs -> conjunction, trailing `if not c: rest` in a loop body
    -> `if c: continue; rest`, `t = E; return t` -> `return E` -- each only when the current spelling does not occur in the
    reference function and the equivalent one does.
"""
import ast
import json
import os

REF_PATH = os.path.join(os.path.dirname(os.path.abspath(__file__)), 'reference_canon.json')

NEG = {ast.Is: ast.IsNot, ast.IsNot: ast.Is, ast.Eq: ast.NotEq, ast.NotEq: ast.Eq, ast.In: ast.NotIn, ast.NotIn: ast.In}
NEG_ORD = {ast.Lt: ast.GtE, ast.GtE: ast.Lt, ast.Gt: ast.LtE, ast.LtE: ast.Gt}
FLIP = {ast.Lt: ast.Gt, ast.Gt: ast.Lt, ast.LtE: ast.GtE, ast.GtE: ast.LtE, ast.Eq: ast.Eq, ast.NotEq: ast.NotEq}


def _is_len(e):
    return isinstance(e, ast.Call) and isinstance(e.func, ast.Name) and e.func.id == 'len' and len(e.args) == 1 and not e.keywords


def _numeric(e):
    return _is_len(e) or (isinstance(e, ast.Constant) and isinstance(e.value, int) and not isinstance(e.value, bool))


def _simple(e):
    if isinstance(e, (ast.Name, ast.Constant)):
        return True
    if isinstance(e, ast.Attribute):
        return _simple(e.value)
    if isinstance(e, ast.Subscript):
        return _simple(e.value) and _simple(e.slice)
    if _is_len(e):
        return _simple(e.args[0])
    if isinstance(e, ast.UnaryOp) and isinstance(e.op, ast.USub):
        return _simple(e.operand)
    return False


def _plain_callee(e):
    return isinstance(e, ast.Name) or (isinstance(e, ast.Attribute) and _plain_callee(e.value))


def negate(test):
    """A spelling of `not test` (logical negation in a boolean context)."""
    if isinstance(test, ast.UnaryOp) and isinstance(test.op, ast.Not):
        return test.operand
    if isinstance(test, ast.Compare) and len(test.ops) == 1:
        t = type(test.ops[0])
        r = test.comparators[0]
        if _is_len(test.left) and isinstance(r, ast.Constant) and r.value == 0 and t in (ast.Gt, ast.Eq):
            # a length is never negative: not (len(x) > 0) <=> len(x) == 0
            return ast.copy_location(ast.Compare(left=test.left, ops=[ast.Eq() if t is ast.Gt else ast.Gt()], comparators=test.comparators), test)
        if t in NEG:
            return ast.copy_location(ast.Compare(left=test.left, ops=[NEG[t]()], comparators=test.comparators), test)
        if t in NEG_ORD and (_numeric(test.left) or _numeric(test.comparators[0])):
            return ast.copy_location(ast.Compare(left=test.left, ops=[NEG_ORD[t]()], comparators=test.comparators), test)
    return ast.copy_location(ast.UnaryOp(op=ast.Not(), operand=test), test)


class PhaseA(ast.NodeTransformer):
    def __init__(self):
        self.count = 0
        self.docstrings = 0

    def visit_FunctionDef(self, node):
        # a docstring is an expression statement without effect (no module of the package reads __doc__): dropped from the analysed tree so that
        # rules about "the first statement" / "the only statement" of a function do not depend on whether it is documented
        self.generic_visit(node)
        if len(node.body) > 1 and isinstance(node.body[0], ast.Expr) and isinstance(node.body[0].value, ast.Constant) and isinstance(node.body[0].value.value, str):
            node.body = node.body[1:]
            self.docstrings += 1
        return node

    visit_AsyncFunctionDef = visit_FunctionDef

    def visit_UnaryOp(self, node):
        self.generic_visit(node)
        if isinstance(node.op, ast.Not) and isinstance(node.operand, ast.Compare) and len(node.operand.ops) == 1:
            t = type(node.operand.ops[0])
            c = node.operand
            if t in NEG or (t in NEG_ORD and (_numeric(c.left) or _numeric(c.comparators[0]))):
                self.count += 1
                return self.visit_Compare(negate(c), revisit=True)
        return node

    def visit_Compare(self, node, revisit=False):
        if not revisit:
            self.generic_visit(node)
        if len(node.ops) != 1:
            return node
        op, l, r = node.ops[0], node.left, node.comparators[0]
        # constant on the left
        if isinstance(l, ast.Constant) and not isinstance(r, ast.Constant) and type(op) in FLIP and not isinstance(l.value, str):
            self.count += 1
            node = ast.copy_location(ast.Compare(left=r, ops=[FLIP[type(op)]()], comparators=[l]), node)
            op, l, r = node.ops[0], node.left, node.comparators[0]
        if _is_len(l) and isinstance(r, ast.Constant) and isinstance(r.value, int) and not isinstance(r.value, bool):
            v = r.value
            pos = (isinstance(op, ast.GtE) and v == 1) or (isinstance(op, ast.NotEq) and v == 0)
            zero = (isinstance(op, ast.Lt) and v == 1) or (isinstance(op, ast.LtE) and v == 0)
            if pos:
                self.count += 1
                return ast.copy_location(ast.Compare(left=l, ops=[ast.Gt()], comparators=[ast.copy_location(ast.Constant(value=0), r)]), node)
            if zero:
                self.count += 1
                return ast.copy_location(ast.Compare(left=l, ops=[ast.Eq()], comparators=[ast.copy_location(ast.Constant(value=0), r)]), node)
        return node


def _flatten_else_after_jump(node):
    """if c: ...; <return/raise/continue/break>  else: REST   ->   if c: ...; <jump>   REST   (equivalent: the else branch is the fall-through)"""
    n = 0
    for fld in ('body', 'orelse', 'finalbody'):
        b = getattr(node, fld, None)
        if isinstance(b, list) and b and isinstance(b[0], ast.stmt):
            out = []
            work = list(b)
            while work:
                st = work.pop(0)
                if isinstance(st, ast.If) and st.orelse and st.body and isinstance(st.body[-1], (ast.Return, ast.Raise, ast.Continue, ast.Break)):
                    rest, st.orelse = st.orelse, []
                    work = rest + work
                    n += 1
                out.append(st)
            setattr(node, fld, out)
    for ch in ast.iter_child_nodes(node):
        if isinstance(ch, (ast.stmt, ast.ExceptHandler, ast.Module)) or isinstance(node, ast.Module):
            n += _flatten_else_after_jump(ch)
    return n


def phase_a(tree):
    t = PhaseA()
    tree = t.visit(tree)
    t.count += _flatten_else_after_jump(tree)
    ast.fix_missing_locations(tree)
    return tree, t.count


# ---------------------------------------------------------------------------------------------------------------------------
def _own_nodes(node):
    for ch in ast.iter_child_nodes(node):
        if isinstance(ch, (ast.FunctionDef, ast.AsyncFunctionDef, ast.Lambda, ast.ClassDef)):
            continue
        yield ch
        yield from _own_nodes(ch)


def _u(n):
    return ast.unparse(n)


def facts(func):
    """Spelling facts of one function: texts of tests, comparisons, continue-guards and returned expressions."""
    tests, compares, conts, rets, simple = [], [], [], [], []
    for n in _own_nodes(func):
        if isinstance(n, (ast.Expr, ast.Assign, ast.AugAssign, ast.AnnAssign)) and not (isinstance(n, ast.Expr) and isinstance(n.value, ast.Constant)):
            simple.append(_u(n))
        if isinstance(n, (ast.If, ast.While, ast.IfExp)):
            tests.append(_u(n.test))
            if isinstance(n, ast.If) and not n.orelse and len(n.body) == 1 and isinstance(n.body[0], ast.Continue):
                conts.append(_u(n.test))
        if isinstance(n, ast.Compare):
            compares.append(_u(n))
        if isinstance(n, ast.Return) and n.value is not None:
            rets.append(_u(n.value))
    return {'tests': sorted(tests), 'compares': sorted(compares), 'continues': sorted(conts), 'returns': sorted(rets), 'simple': sorted(simple)}


def build_reference(repo):
    ref = {'%s:%s' % (m, q): facts(f) for (m, q), f in repo.all_funcs().items()}
    # names bound at class / module level (phase B propagates literals bound to names this list does not know)
    names = []
    for m in repo.modules.values():
        for node in ast.walk(m.tree):
            if isinstance(node, (ast.ClassDef, ast.Module)):
                prefix = (node._qualname + '.') if isinstance(node, ast.ClassDef) else ''
                for st in node.body:
                    tgts = st.targets if isinstance(st, ast.Assign) else [st.target] if isinstance(st, ast.AnnAssign) else []
                    for t in tgts:
                        if isinstance(t, ast.Name):
                            names.append('%s:%s%s' % (m.name, prefix, t.id))
    ref['<names>'] = sorted(names)
    return ref


def load_reference():
    if not os.path.exists(REF_PATH):
        return {}
    with open(REF_PATH) as f:
        return json.load(f)


class _Guided:
    def __init__(self, ref, cur):
        # a spelling is rewritten only while it occurs more often than in the reference function (surplus) and the
        # equivalent spelling occurs less often (deficit); counters are updated after every rewrite
        from collections import Counter
        self.ref = {k: Counter(ref.get(k, [])) for k in ('tests', 'compares', 'continues', 'returns', 'simple')}
        self.cur = {k: Counter(cur.get(k, [])) for k in ('tests', 'compares', 'continues', 'returns', 'simple')}
        self.count = 0

    def surplus(self, kind, text):
        return self.cur[kind][text] > self.ref[kind][text]

    def deficit(self, kind, text):
        return self.cur[kind][text] < self.ref[kind][text]

    def moved(self, kind, old, new):
        self.cur[kind][old] -= 1
        self.cur[kind][new] += 1
        self.count += 1

    def expr(self, e):
        """orientation of comparisons inside an expression (bottom-up, own scope)"""
        for fld, val in ast.iter_fields(e):
            if isinstance(val, ast.AST) and not isinstance(val, (ast.Lambda,)):
                setattr(e, fld, self.expr(val))
            elif isinstance(val, list):
                setattr(e, fld, [self.expr(v) if isinstance(v, ast.AST) and not isinstance(v, ast.Lambda) else v for v in val])
        if isinstance(e, ast.Compare) and len(e.ops) == 1 and type(e.ops[0]) in FLIP and _simple(e.left) and _simple(e.comparators[0]):
            if self.surplus('compares', _u(e)):
                f = ast.copy_location(ast.Compare(left=e.comparators[0], ops=[FLIP[type(e.ops[0])]()], comparators=[e.left]), e)
                if self.deficit('compares', _u(f)):
                    self.moved('compares', _u(e), _u(f))
                    return f
        return e

    def block(self, stmts, in_loop):
        out = []
        i = 0
        stmts = list(stmts)
        while i < len(stmts):
            st = stmts[i]
            if isinstance(st, (ast.FunctionDef, ast.AsyncFunctionDef, ast.ClassDef)):
                out.append(st)
                i += 1
                continue
            # t = E; return t  ->  return E
            if isinstance(st, ast.Assign) and len(st.targets) == 1 and isinstance(st.targets[0], ast.Name) and i + 1 < len(stmts) and isinstance(stmts[i + 1], ast.Return) \
                    and isinstance(stmts[i + 1].value, ast.Name) and stmts[i + 1].value.id == st.targets[0].id and st.targets[0].id in self.return_temps:
                val = self.expr(st.value)
                if self.deficit('returns', _u(val)) and self.surplus('returns', st.targets[0].id):
                    self.moved('returns', st.targets[0].id, _u(val))
                    out.append(ast.copy_location(ast.Return(value=val), st))
                    i += 2
                    continue
            # t = E; f(t, ...)  /  x = f(t, ...)   ->   f(E, ...)      (t a temporary whose single use is the first argument of a call whose callee
            # expression is a chain of plain names, so E is still the first thing evaluated)
            if isinstance(st, ast.Assign) and len(st.targets) == 1 and isinstance(st.targets[0], ast.Name) and i + 1 < len(stmts) \
                    and self.loads.get(st.targets[0].id) == 1 and self.stores.get(st.targets[0].id) == 1 and isinstance(stmts[i + 1], (ast.Expr, ast.Assign)) \
                    and isinstance(stmts[i + 1].value, ast.Call) and stmts[i + 1].value.args and isinstance(stmts[i + 1].value.args[0], ast.Name) \
                    and stmts[i + 1].value.args[0].id == st.targets[0].id and _plain_callee(stmts[i + 1].value.func) and self.surplus('simple', _u(st)):
                nxt = stmts[i + 1]
                old_arg = nxt.value.args[0]
                nxt.value.args[0] = st.value
                if self.deficit('simple', _u(nxt)):
                    self.cur['simple'][_u(st)] -= 1
                    self.cur['simple'][_u(nxt)] += 1
                    self.count += 1
                    i += 1
                    continue
                nxt.value.args[0] = old_arg
            # t = E; if t: ...   ->  if E: ...      (t a temporary with this single use)
            if isinstance(st, ast.Assign) and len(st.targets) == 1 and isinstance(st.targets[0], ast.Name) and i + 1 < len(stmts) and isinstance(stmts[i + 1], ast.If) \
                    and isinstance(stmts[i + 1].test, ast.Name) and stmts[i + 1].test.id == st.targets[0].id and self.loads.get(st.targets[0].id) == 1 and self.stores.get(st.targets[0].id) == 1:
                val = self.expr(st.value)
                if self.surplus('tests', st.targets[0].id) and (self.deficit('tests', _u(val)) or self.deficit('tests', _u(negate(val)))):
                    self.moved('tests', st.targets[0].id, _u(val))
                    nxt = stmts[i + 1]
                    stmts[i + 1] = ast.copy_location(ast.If(test=val, body=nxt.body, orelse=nxt.orelse), nxt)
                    i += 1
                    continue
            st = self.stmt(st, in_loop)
            # trailing `if not c: rest` in a loop body  ->  `if c: continue` + rest
            if in_loop and i == len(stmts) - 1 and isinstance(st, ast.If) and not st.orelse and self.surplus('tests', _u(st.test)):
                neg = negate(st.test)
                if self.deficit('continues', _u(neg)) and self.deficit('tests', _u(neg)):
                    self.moved('tests', _u(st.test), _u(neg))
                    self.cur['continues'][_u(neg)] += 1
                    out.append(ast.copy_location(ast.If(test=neg, body=[ast.copy_location(ast.Continue(), st)], orelse=[]), st))
                    out.extend(st.body)         # already processed by self.stmt (its own trailing guard included)
                    i += 1
                    continue
            out.append(st)
            i += 1
        return out

    def stmt(self, st, in_loop):
        if isinstance(st, ast.If):
            st.test = self.expr(st.test)
            # nested single ifs -> conjunction
            while not st.orelse and len(st.body) == 1 and isinstance(st.body[0], ast.If) and not st.body[0].orelse and self.surplus('tests', _u(st.test)):
                inner = st.body[0]
                inner.test = self.expr(inner.test)

                def flat(e):
                    return list(e.values) if isinstance(e, ast.BoolOp) and isinstance(e.op, ast.And) else [e]
                conj = ast.copy_location(ast.BoolOp(op=ast.And(), values=flat(st.test) + flat(inner.test)), st.test)
                if self.deficit('tests', _u(conj)) and self.surplus('tests', _u(inner.test)):
                    self.cur['tests'][_u(st.test)] -= 1
                    self.cur['tests'][_u(inner.test)] -= 1
                    self.cur['tests'][_u(conj)] += 1
                    self.count += 1
                    st = ast.copy_location(ast.If(test=conj, body=inner.body, orelse=[]), st)
                else:
                    break
            # polarity
            if st.orelse and self.surplus('tests', _u(st.test)):
                neg = negate(st.test)
                if self.deficit('tests', _u(neg)):
                    self.moved('tests', _u(st.test), _u(neg))
                    st = ast.copy_location(ast.If(test=neg, body=st.orelse, orelse=st.body), st)
            st.body = self.block(st.body, in_loop)
            st.orelse = self.block(st.orelse, in_loop)
            return st
        if isinstance(st, (ast.For, ast.AsyncFor)):
            st.iter = self.expr(st.iter)
            st.body = self.block(st.body, True)
            st.orelse = self.block(st.orelse, in_loop)
            return st
        if isinstance(st, ast.While):
            st.test = self.expr(st.test)
            st.body = self.block(st.body, True)
            st.orelse = self.block(st.orelse, in_loop)
            return st
        if isinstance(st, (ast.With, ast.AsyncWith)):
            st.body = self.block(st.body, in_loop)
            return st
        if isinstance(st, ast.Try):
            st.body = self.block(st.body, in_loop)
            for h in st.handlers:
                h.body = self.block(h.body, in_loop)
            st.orelse = self.block(st.orelse, in_loop)
            st.finalbody = self.block(st.finalbody, in_loop)
            return st
        return self.expr(st)

    def run(self, func):
        # names that are only ever assigned immediately before `return <name>` and read nowhere else
        loads, stores = {}, {}
        for n in _own_nodes(func):
            if isinstance(n, ast.Name):
                d = loads if isinstance(n.ctx, ast.Load) else stores
                d[n.id] = d.get(n.id, 0) + 1
        pairs = {}

        def scan(stmts):
            for a, b in zip(stmts, stmts[1:]):
                if isinstance(a, ast.Assign) and len(a.targets) == 1 and isinstance(a.targets[0], ast.Name) and isinstance(b, ast.Return) and isinstance(b.value, ast.Name) and b.value.id == a.targets[0].id:
                    pairs[b.value.id] = pairs.get(b.value.id, 0) + 1
            for st in stmts:
                for fld in ('body', 'orelse', 'finalbody'):
                    blk = getattr(st, fld, None)
                    if isinstance(blk, list) and blk and isinstance(blk[0], ast.stmt) and not isinstance(st, (ast.FunctionDef, ast.AsyncFunctionDef, ast.ClassDef)):
                        scan(blk)
                for h in getattr(st, 'handlers', []) or []:
                    scan(h.body)
        scan(func.body)
        self.return_temps = {n for n, k in pairs.items() if loads.get(n, 0) == k and stores.get(n, 0) == k}
        self.loads, self.stores = loads, stores
        func.body = self.block(func.body, False)
        return self.count


def phase_c(repo):
    """Guided respelling of every function that has a reference entry.  Returns {function id: rewrites}."""
    if not os.path.exists(REF_PATH):
        return {}
    with open(REF_PATH) as f:
        ref = json.load(f)
    applied = {}
    for (m, q), func in repo.all_funcs().items():
        key = '%s:%s' % (m, q)
        if key not in ref or key.startswith('<'):
            continue
        cur = facts(func)
        r = ref[key]
        if cur['tests'] == r['tests'] and cur['compares'] == r['compares'] and cur['returns'] == r['returns'] and cur['simple'] == r.get('simple', cur['simple']):
            continue
        n = _Guided(r, cur).run(func)
        if n:
            applied[key] = n
    if applied:
        for mod in repo.modules.values():
            ast.fix_missing_locations(mod.tree)
    return applied
