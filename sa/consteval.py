"""Total evaluator for the literal sub-language the repo's tables use.  Never executes repo code."""
import ast

from .core import AnalysisError, unparse, loc


class NotLiteral(AnalysisError):
    pass


class DupKey(Exception):
    pass


class ConstEnv:
    """Constants visible in a module: module-level NAME = literal and Class.NAME = literal."""

    def __init__(self, repo):
        self.repo = repo
        self._cache = {}
        self._dups = []

    def module_consts(self, modname):
        if modname in self._cache:
            return self._cache[modname]
        m = self.repo.mod(modname)
        env = {}
        self._cache[modname] = env
        imports = {}
        for st in m.tree.body:
            if isinstance(st, ast.ImportFrom) and st.module and st.module.startswith('ssh_audit'):
                for a in st.names:
                    src = st.module.split('.')[1] if '.' in st.module else a.name
                    imports[a.asname or a.name] = (src, a.name if '.' in st.module else None)
        env['__imports__'] = imports
        for st in m.tree.body:
            if isinstance(st, ast.ClassDef):
                cenv = {}
                env[st.name] = cenv
                self._class_consts(st, cenv, env)
            else:
                self._bind(st, env, env)
        return env

    def _class_consts(self, cls, cenv, menv):
        for st in cls.body:
            if isinstance(st, ast.ClassDef):
                sub = {}
                cenv[st.name] = sub
                self._class_consts(st, sub, menv)
            else:
                self._bind(st, cenv, menv)

    def _bind(self, st, env, outer):
        targets = []
        value = None
        if isinstance(st, ast.Assign):
            targets, value = st.targets, st.value
        elif isinstance(st, ast.AnnAssign) and st.value is not None:
            targets, value = [st.target], st.value
        else:
            return
        try:
            v = self.eval(value, [env, outer])
        except NotLiteral:
            return
        for t in targets:
            if isinstance(t, ast.Name):
                env[t.id] = v
            elif isinstance(t, ast.Tuple) and isinstance(v, (tuple, list)) and len(t.elts) == len(v):
                for e, x in zip(t.elts, v):
                    if isinstance(e, ast.Name):
                        env[e.id] = x

    def lookup(self, modname, dotted):
        """Value of e.g. 'SSH2_KexDB.MASTER_DB' in module `modname` (follows package imports)."""
        env = self.module_consts(modname)
        parts = dotted.split('.')
        cur = env
        for i, p in enumerate(parts):
            if isinstance(cur, dict) and p in cur and not (i == 0 and p == '__imports__'):
                cur = cur[p]
            elif i == 0 and p in env.get('__imports__', {}):
                src, name = env['__imports__'][p]
                if name is None:           # from ssh_audit import exitcodes
                    cur = self.module_consts(src)
                else:
                    cur = self.lookup(src, name)
            else:
                raise NotLiteral('no constant %s in module %s' % (dotted, modname))
        return cur

    def eval_in(self, node, modname, clsname=None, local=None):
        env = self.module_consts(modname)
        scopes = []
        if local:
            scopes.append(local)
        if clsname and clsname in env:
            scopes.append(env[clsname])
        scopes.append(env)
        self._cur_mod = modname
        return self.eval(node, scopes)

    def eval(self, node, scopes):
        ev = lambda n: self.eval(n, scopes)
        if isinstance(node, ast.Constant):
            return node.value
        if isinstance(node, ast.List):
            return [ev(e) for e in node.elts]
        if isinstance(node, ast.Tuple):
            return tuple(ev(e) for e in node.elts)
        if isinstance(node, ast.Set):
            return set(ev(e) for e in node.elts)
        if isinstance(node, ast.Dict):
            out = {}
            for k, v in zip(node.keys, node.values):
                if k is None:
                    raise NotLiteral('dict unpacking at %s' % loc(node))
                kk = ev(k)
                if kk in out:
                    self._dups.append((kk, k))
                out[kk] = ev(v)
            return out
        if isinstance(node, ast.Name):
            for s in scopes:
                if node.id in s and node.id != '__imports__':
                    return s[node.id]
            for s in scopes:
                imp = s.get('__imports__', {}) if isinstance(s, dict) else {}
                if node.id in imp:
                    src, name = imp[node.id]
                    return self.module_consts(src) if name is None else self.lookup(src, name)
            raise NotLiteral('name %s is not a constant (%s)' % (node.id, loc(node)))
        if isinstance(node, ast.Attribute):
            base = ev(node.value)
            if isinstance(base, dict) and node.attr in base:
                return base[node.attr]
            raise NotLiteral('attribute %s not constant (%s)' % (unparse(node), loc(node)))
        if isinstance(node, ast.UnaryOp) and isinstance(node.op, ast.USub):
            v = ev(node.operand)
            if isinstance(v, (int, float)):
                return -v
        if isinstance(node, ast.BinOp):
            l, r = ev(node.left), ev(node.right)
            if isinstance(node.op, ast.Mult) and isinstance(l, int) and isinstance(r, int):
                return l * r
            if isinstance(node.op, ast.Add) and type(l) is type(r) and isinstance(l, (int, str, list, tuple)):
                return l + r
            if isinstance(node.op, ast.Sub) and isinstance(l, int) and isinstance(r, int):
                return l - r
            if isinstance(node.op, ast.Mod) and isinstance(l, str):
                try:
                    return l % r
                except Exception:
                    pass
        if isinstance(node, ast.Call) and isinstance(node.func, ast.Attribute) and node.func.attr == 'format' and not node.keywords:
            base = ev(node.func.value)
            if isinstance(base, str):
                try:
                    return base.format(*[ev(a) for a in node.args])
                except Exception:
                    pass
        if isinstance(node, ast.Call) and isinstance(node.func, ast.Name) and node.func.id in ('tuple', 'list', 'set', 'frozenset', 'sorted', 'dict', 'len') and len(node.args) <= 1 and not node.keywords:
            # pure constructors of the builtin containers applied to a constant
            if not node.args:
                return {'tuple': (), 'list': [], 'set': set(), 'frozenset': frozenset(), 'sorted': [], 'dict': {}}.get(node.func.id, 0)
            v = ev(node.args[0])
            if isinstance(v, (list, tuple, set, frozenset, dict, str)):
                try:
                    return {'tuple': tuple, 'list': list, 'set': set, 'frozenset': frozenset, 'sorted': sorted, 'dict': dict, 'len': len}[node.func.id](v)
                except Exception:
                    pass
        if isinstance(node, ast.Call) and isinstance(node.func, ast.Name) and node.func.id == 'range' and 1 <= len(node.args) <= 3 and not node.keywords:
            av = [ev(a) for a in node.args]
            if all(isinstance(a, int) and not isinstance(a, bool) and abs(a) <= 1 << 20 for a in av):
                try:
                    return list(range(*av))
                except ValueError:
                    pass
        if isinstance(node, ast.Call) and isinstance(node.func, ast.Attribute) and node.func.attr in ('keys', 'values', 'items') and not node.args and not node.keywords:
            base = ev(node.func.value)
            if isinstance(base, dict):
                return list(getattr(base, node.func.attr)())
        if isinstance(node, ast.JoinedStr):
            raise NotLiteral('f-string at %s' % loc(node))
        raise NotLiteral('not a literal: %s (%s)' % (unparse(node)[:80], loc(node)))


def dict_literal_dups(node):
    """Duplicate constant keys inside any dict literal below `node` (still visible on the AST)."""
    dups = []
    for d in ast.walk(node):
        if isinstance(d, ast.Dict):
            seen = {}
            for k in d.keys:
                if isinstance(k, ast.Constant):
                    if k.value in seen:
                        dups.append(k)
                    seen[k.value] = k
    return dups
