"""Intra-procedural, flow-insensitive backward slice (data + control dependence) over names and
attribute chains.  Over-approximate: safe for non-interference rules ("X does not depend on Y")."""
import ast

from .core import attr_chain, walk_no_nested, unparse
from .logic import path_condition

MUTATORS = {'append', 'extend', 'insert', 'remove', 'pop', 'clear', 'sort', 'update', 'setdefault', 'add', 'discard', 'reverse', '__setitem__'}


def uses(expr, call_uses=None):
    """Names and maximal attribute chains read by an expression."""
    out = set()
    if expr is None:
        return out

    def rec(n):
        if isinstance(n, ast.Call) and call_uses is not None:
            r = call_uses(n)
            if r is not None:
                out.update(r)
                return
        if isinstance(n, ast.Attribute):
            c = attr_chain(n)
            if c is not None:
                out.add(c)
                return
            rec(n.value)
            return
        if isinstance(n, ast.Name):
            out.add(n.id)
            return
        if isinstance(n, (ast.Lambda, ast.FunctionDef)):
            return
        if isinstance(n, (ast.ListComp, ast.SetComp, ast.GeneratorExp, ast.DictComp)):
            bound = set()
            for g in n.generators:
                for t in ast.walk(g.target):
                    if isinstance(t, ast.Name):
                        bound.add(t.id)
            inner = set()
            for ch in ast.iter_child_nodes(n):
                for sub in ast.walk(ch):
                    pass
            tmp = set()
            saved = set(out)
            for ch in ast.iter_child_nodes(n):
                rec(ch)
            new = out - saved
            for x in list(new):
                if x.split('.')[0] in bound:
                    out.discard(x)
            return
        for ch in ast.iter_child_nodes(n):
            rec(ch)
    rec(expr)
    return out


def root(name):
    return name.split('.')[0]


class Slice:
    def __init__(self, func, call_uses=None, with_is_control=False):
        self.func = func
        self.events = []       # (target, uses, control uses, node)
        cu = call_uses
        for n in walk_no_nested(func):
            if n is func:
                continue
            if isinstance(n, ast.Assign):
                for t in n.targets:
                    self._assign(t, n.value, n, cu)
            elif isinstance(n, ast.AnnAssign) and n.value is not None:
                self._assign(n.target, n.value, n, cu)
            elif isinstance(n, ast.AugAssign):
                self._assign(n.target, n.value, n, cu, extra=uses(n.target, cu))
            elif isinstance(n, (ast.For, ast.AsyncFor)):
                for t in ast.walk(n.target):
                    if isinstance(t, ast.Name):
                        self._event(t.id, uses(n.iter, cu), n)
            elif isinstance(n, ast.With):
                for it in n.items:
                    if it.optional_vars is not None:
                        for t in ast.walk(it.optional_vars):
                            if isinstance(t, ast.Name):
                                self._event(t.id, uses(it.context_expr, cu), n)
            elif isinstance(n, ast.Return):
                self._event('<return>', uses(n.value, cu), n)
            elif isinstance(n, ast.Expr) and isinstance(n.value, ast.Call):
                c = n.value
                if isinstance(c.func, ast.Attribute) and c.func.attr in MUTATORS:
                    tgt = attr_chain(c.func.value)
                    if tgt is None and isinstance(c.func.value, ast.Subscript):
                        b = c.func.value
                        while isinstance(b, ast.Subscript):
                            b = b.value
                        tgt = attr_chain(b)
                    if tgt is not None:
                        u = set()
                        for a in list(c.args) + [k.value for k in c.keywords]:
                            u |= uses(a, cu)
                        u |= uses(c.func.value, cu)
                        self._event(tgt, u, n)
            elif isinstance(n, (ast.ListComp, ast.SetComp, ast.GeneratorExp, ast.DictComp)):
                pass
            elif isinstance(n, ast.NamedExpr):
                self._assign(n.target, n.value, n, cu)

    def _control(self, node):
        c = set()
        for test, pol, kind in path_condition(node):
            c |= uses(test)
        return c

    def _event(self, target, u, node):
        self.events.append((target, set(u), self._control(node), node))

    def _assign(self, t, value, node, cu, extra=None):
        extra = extra or set()
        if isinstance(t, ast.Name):
            self._event(t.id, uses(value, cu) | extra, node)
        elif isinstance(t, (ast.Tuple, ast.List)):
            if isinstance(value, (ast.Tuple, ast.List)) and len(value.elts) == len(t.elts):
                for a, b in zip(t.elts, value.elts):
                    self._assign(a, b, node, cu, extra)
            else:
                for a in t.elts:
                    self._assign(a, value, node, cu, extra)
        elif isinstance(t, ast.Attribute):
            c = attr_chain(t)
            if c is not None:
                self._event(c, uses(value, cu) | extra, node)
        elif isinstance(t, ast.Subscript):
            b = t
            idx = set()
            while isinstance(b, ast.Subscript):
                idx |= uses(b.slice, cu)
                b = b.value
            c = attr_chain(b)
            if c is not None:
                self._event(c, uses(value, cu) | idx | {c} | extra, node)
        elif isinstance(t, ast.Starred):
            self._assign(t.value, value, node, cu, extra)

    def last_def_line(self, name):
        ls = [getattr(node, 'end_lineno', node.lineno) for tgt, u, ctl, node in self.events if tgt == name]
        return max(ls) if ls else None

    def closure(self, seeds, before=None):
        """All names / attribute chains the seeds depend on (data and control).  With `before`, only
        definitions at or before that source line are considered (sound when the program point is not inside
        a loop that also contains later definitions)."""
        R = set(seeds)
        changed = True
        while changed:
            changed = False
            for tgt, u, ctl, node in self.events:
                if before is not None and node.lineno > before:
                    continue
                hit = tgt in R or any(r == tgt or r.startswith(tgt + '.') or tgt.startswith(r + '.') for r in R if '.' in r or '.' in tgt)
                if hit:
                    new = (u | ctl) - R
                    if new:
                        R |= new
                        changed = True
        return R

    def events_for(self, name):
        return [e for e in self.events if e[0] == name]
