"""Phase B of the spelling normalisation: undo "extract method" / "extract constant" / tuple-prefix spellings.

The rules were confirmed against the functions of one tree (their ids are the keys of reference_canon.json).  The most common
behaviour-preserving edit of such a function moves a part of it into a new private helper, or a literal into a new class-level constant.
A rule that looks at the original function then sees a call instead of the statements.  Before any rule runs, every function that does
NOT exist in the reference (a helper that was introduced later) is substituted back into its callers, when that can be done exactly:

    * constants: an assignment NAME = <literal> in a class body or at module level whose name the reference does not know is propagated
      to its uses (Cls.NAME, self.NAME, cls.NAME, NAME) when the literal is a scalar or a tuple/list of scalars and NAME is never rebound;
    * x.startswith((a, b)) / x.endswith((a, b)) -> x.startswith(a) or x.startswith(b)   (x a plain name chain);
    * helpers: a call f(args) of a new function of the same module (static / class / instance method, module function or nested function)
      is replaced by f's body with parameters bound to the arguments.  `return` statements are turned into structured control flow (the rest
      of a block moves into the else branch of a returning `if`; a search loop `for ..: if c: return A` + `return B` becomes for/break/else);
      helpers whose returns cannot be structured that way (inside try/with/nested loops), generators, recursive helpers, helpers using
      *args/**kwargs are left alone.  Multi-statement helpers are only expanded where the call is the first thing its statement evaluates
      (the statement's own value, an if test, the first operand ...), single-expression helpers anywhere.

The result computes the same function as the tree on disk; the transformation never touches a function the reference knows, except by
replacing calls of new helpers inside it.  Reported positions of inlined statements point at the helper's own lines.
"""
import ast
import copy
import itertools

SCALAR = (str, bytes, int, float, bool, type(None))


class NotInlinable(Exception):
    pass


def _clone(node):
    """Copy of an AST restricted to its fields and positions (the loader's parent / module annotations are not followed)."""
    if isinstance(node, list):
        return [_clone(x) for x in node]
    if not isinstance(node, ast.AST):
        return node
    new = type(node)()
    for f in node._fields:
        if hasattr(node, f):
            setattr(new, f, _clone(getattr(node, f)))
    for a in ('lineno', 'col_offset', 'end_lineno', 'end_col_offset'):
        if hasattr(node, a):
            setattr(new, a, getattr(node, a))
    return new


def _is_literal(e, depth=0):
    if isinstance(e, ast.Constant):
        return isinstance(e.value, SCALAR)
    if isinstance(e, (ast.Tuple, ast.List)) and depth == 0:
        return len(e.elts) <= 12 and all(_is_literal(x, 1) for x in e.elts)
    if isinstance(e, ast.UnaryOp) and isinstance(e.op, ast.USub):
        return _is_literal(e.operand, 1)
    if isinstance(e, ast.Dict) and depth == 0:
        return len(e.keys) <= 12 and all(k is not None and _is_literal(k, 1) for k in e.keys) and all(_is_literal(v, 1) for v in e.values)
    return False


def _plain(e):
    if isinstance(e, (ast.Name, ast.Constant)):
        return True
    if isinstance(e, ast.Attribute):
        return _plain(e.value)
    if isinstance(e, ast.Subscript):
        return _plain(e.value) and _plain(e.slice)
    return False


# ------------------------------------------------------------------------------------------------------------------------
# constants
# ------------------------------------------------------------------------------------------------------------------------
def _propagate_constants(repo, ref_names):
    n = 0
    for m in repo.modules.values():
        cands = {}          # (class name or None, NAME) -> literal
        for node in ast.walk(m.tree):
            owner = None
            if isinstance(node, ast.ClassDef):
                owner = node
            elif not isinstance(node, ast.Module):
                continue
            for st in node.body:
                tgt = None
                if isinstance(st, ast.Assign) and len(st.targets) == 1 and isinstance(st.targets[0], ast.Name):
                    tgt, val = st.targets[0].id, st.value
                elif isinstance(st, ast.AnnAssign) and isinstance(st.target, ast.Name) and st.value is not None:
                    tgt, val = st.target.id, st.value
                if tgt is None or not (_is_literal(val) or (isinstance(val, (ast.Tuple, ast.List)) and len(val.elts) <= 12 and _display(val))):
                    continue
                qual = '%s:%s%s' % (m.name, (owner._qualname + '.') if owner is not None else '', tgt)
                if qual in ref_names:
                    continue
                cands[(owner.name if owner is not None else None, tgt)] = val
        if not cands:
            continue
        # never rebound anywhere in the module (attribute store or global store)
        for node in ast.walk(m.tree):
            if isinstance(node, ast.Attribute) and isinstance(node.ctx, (ast.Store, ast.Del)):
                for k in [k for k in cands if k[1] == node.attr]:
                    del cands[k]
            if isinstance(node, ast.Global):
                for k in [k for k in cands if k[0] is None and k[1] in node.names]:
                    del cands[k]
        class_names = {}     # class -> names bound in its body (a bare name in a class-level value refers to them; inside a method it must be qualified)
        for node in ast.walk(m.tree):
            if isinstance(node, ast.ClassDef):
                class_names[node.name] = {t.id for st in node.body if isinstance(st, (ast.Assign, ast.AnnAssign)) for t in (st.targets if isinstance(st, ast.Assign) else [st.target]) if isinstance(t, ast.Name)}
        # ... nor mutated in place (item store / delete, or a mutating method call on it): a container that is written to is state, not a constant
        MUT_ = ('append', 'extend', 'insert', 'remove', 'pop', 'clear', 'sort', 'reverse', 'update', 'setdefault', 'add', 'discard', 'popitem')

        def _base_name(e):
            while isinstance(e, ast.Subscript):
                e = e.value
            if isinstance(e, ast.Attribute):
                return e.attr
            if isinstance(e, ast.Name):
                return e.id
            return None
        for node in ast.walk(m.tree):
            nm_ = None
            if isinstance(node, ast.Subscript) and isinstance(node.ctx, (ast.Store, ast.Del)):
                nm_ = _base_name(node.value)
            elif isinstance(node, ast.Call) and isinstance(node.func, ast.Attribute) and node.func.attr in MUT_:
                nm_ = _base_name(node.func.value)
            elif isinstance(node, ast.AugAssign):
                nm_ = _base_name(node.target)
            if nm_ is not None:
                for k in [k for k in cands if k[1] == nm_ and isinstance(cands[k], (ast.Dict, ast.List, ast.Set))]:
                    del cands[k]
        module_level = {k[1]: v for k, v in cands.items() if k[0] is None}
        class_level = {k: v for k, v in cands.items() if k[0] is not None}

        class T(ast.NodeTransformer):
            def __init__(self):
                self.cls = []
                self.shadow = []

            def visit_ClassDef(self, node):
                self.cls.append(node.name)
                self.generic_visit(node)
                self.cls.pop()
                return node

            def visit_FunctionDef(self, node):
                loc = {a.arg for a in node.args.posonlyargs + node.args.args + node.args.kwonlyargs}
                for x in ast.walk(node):
                    if isinstance(x, ast.Name) and isinstance(x.ctx, ast.Store):
                        loc.add(x.id)
                self.shadow.append(loc)
                self.generic_visit(node)
                self.shadow.pop()
                return node

            def visit_Attribute(self, node):
                nonlocal n
                self.generic_visit(node)
                if isinstance(node.ctx, ast.Load) and isinstance(node.value, ast.Name):
                    base = node.value.id
                    owner = None
                    if base in ('self', 'cls') and self.cls:
                        owner = self.cls[-1]
                    elif any(k[0] == base for k in class_level):
                        owner = base
                    if owner is not None and (owner, node.attr) in class_level:
                        n += 1
                        return ast.copy_location(_qualify(_clone(class_level[(owner, node.attr)]), owner, class_names.get(owner, ())), node)
                return node

            def visit_Name(self, node):
                nonlocal n
                if isinstance(node.ctx, ast.Load) and node.id in module_level and self.shadow and not any(node.id in s for s in self.shadow):
                    n += 1
                    return ast.copy_location(_clone(module_level[node.id]), node)
                return node
        m.tree = T().visit(m.tree)
    return n


def _qualify(e, owner, names):
    class Q(ast.NodeTransformer):
        def visit_Name(self, node):
            if isinstance(node.ctx, ast.Load) and node.id in names:
                return ast.copy_location(ast.Attribute(value=ast.Name(id=owner, ctx=ast.Load()), attr=node.id, ctx=ast.Load()), node)
            return node
    e = Q().visit(e)
    ast.fix_missing_locations(e)
    return e


def _display(e, depth=0):
    """a literal display whose leaves are constants or plain name chains (class references)"""
    if isinstance(e, ast.Constant):
        return isinstance(e.value, SCALAR)
    if isinstance(e, (ast.Name, ast.Attribute)):
        return _plain(e) and depth > 0
    if isinstance(e, (ast.Tuple, ast.List, ast.Set)) and depth < 3:
        return len(e.elts) <= 64 and all(_display(x, depth + 1) for x in e.elts)
    if isinstance(e, ast.Dict) and depth < 3:
        return len(e.keys) <= 64 and all(k is not None and _display(k, depth + 1) for k in e.keys) and all(_display(v, depth + 1) for v in e.values)
    return False


def _canon_name(n):
    return n.strip('_').lower()


MUTATING = ('append', 'extend', 'insert', 'remove', 'pop', 'clear', 'update', 'setdefault', 'add', 'discard', 'sort', 'reverse', 'popitem')


def _relocalise_constants(repo, ref_names, ref_shapes):
    """A literal table moved from a function into a new class-level (or module-level) constant is given back to the functions that had a local of that
    name in the reference tree:   NAME = {..} in the class + Cls.NAME in f   ->   name = {..} at the top of f + name   (the table is never mutated or rebound)."""
    n = 0
    for m in repo.modules.values():
        cands = {}
        for node in ast.walk(m.tree):
            owner = node if isinstance(node, ast.ClassDef) else None
            if owner is None and not isinstance(node, ast.Module):
                continue
            for st in node.body:
                tgt = None
                if isinstance(st, ast.Assign) and len(st.targets) == 1 and isinstance(st.targets[0], ast.Name):
                    tgt, val = st.targets[0].id, st.value
                elif isinstance(st, ast.AnnAssign) and isinstance(st.target, ast.Name) and st.value is not None:
                    tgt, val = st.target.id, st.value
                if tgt is None or not _display(val) or isinstance(val, ast.Constant):
                    continue
                qual = '%s:%s%s' % (m.name, (owner._qualname + '.') if owner is not None else '', tgt)
                if qual not in ref_names:
                    cands[(owner.name if owner is not None else None, tgt)] = val
        if not cands:
            continue
        for node in ast.walk(m.tree):
            if isinstance(node, ast.Attribute) and isinstance(node.ctx, (ast.Store, ast.Del)):
                for k in [k for k in cands if k[1] == node.attr]:
                    del cands[k]
            if isinstance(node, ast.Call) and isinstance(node.func, ast.Attribute) and node.func.attr in MUTATING:
                b = node.func.value
                nm = b.attr if isinstance(b, ast.Attribute) else (b.id if isinstance(b, ast.Name) else None)
                for k in [k for k in cands if k[1] == nm]:
                    del cands[k]
            if isinstance(node, (ast.Subscript,)) and isinstance(node.ctx, (ast.Store, ast.Del)):
                b = node.value
                nm = b.attr if isinstance(b, ast.Attribute) else (b.id if isinstance(b, ast.Name) else None)
                for k in [k for k in cands if k[1] == nm]:
                    del cands[k]
        if not cands:
            continue
        for func in [x for x in ast.walk(m.tree) if isinstance(x, (ast.FunctionDef, ast.AsyncFunctionDef))]:
            key = '%s:%s' % (m.name, func._qualname)
            if key not in ref_shapes:
                continue
            ref_locals = {nm for _, ns in ref_shapes[key] for nm in ns}
            stored = {x.id for x in _own(func) if isinstance(x, ast.Name) and isinstance(x.ctx, (ast.Store, ast.Del))} | {a.arg for a in func.args.args}
            cls_name = func._cls.name if getattr(func, '_cls', None) is not None else None
            for (owner, name), val in cands.items():
                local = [r for r in ref_locals if _canon_name(r) == _canon_name(name)]
                if len(local) != 1 or local[0] in stored:
                    continue
                uses = []
                for x in _own(func):
                    if owner is not None and isinstance(x, ast.Attribute) and x.attr == name and isinstance(x.ctx, ast.Load) and isinstance(x.value, ast.Name) and (x.value.id == owner or (x.value.id in ('self', 'cls') and cls_name == owner)):
                        uses.append(x)
                    if owner is None and isinstance(x, ast.Name) and x.id == name and isinstance(x.ctx, ast.Load):
                        uses.append(x)
                if not uses:
                    continue

                class R(ast.NodeTransformer):
                    def visit_FunctionDef(self, node):
                        return node if node is not func else self.generic_visit(node)

                    visit_AsyncFunctionDef = visit_FunctionDef
                    visit_Lambda = visit_FunctionDef

                    def visit_Attribute(self, node):
                        self.generic_visit(node)
                        return ast.copy_location(ast.Name(id=local[0], ctx=ast.Load()), node) if node in uses else node

                    def visit_Name(self, node):
                        return ast.copy_location(ast.Name(id=local[0], ctx=ast.Load()), node) if node in uses else node
                R().visit(func)
                first = func.body[0]
                func.body.insert(0, ast.copy_location(ast.Assign(targets=[ast.Name(id=local[0], ctx=ast.Store())], value=_clone(val)), first))
                stored.add(local[0])
                n += 1
        ast.fix_missing_locations(m.tree)
    return n


# ------------------------------------------------------------------------------------------------------------------------
# startswith / endswith with a tuple
# ------------------------------------------------------------------------------------------------------------------------
class _AffixTuples(ast.NodeTransformer):
    def __init__(self):
        self.count = 0

    def visit_Call(self, node):
        self.generic_visit(node)
        if isinstance(node.func, ast.Attribute) and node.func.attr in ('startswith', 'endswith') and len(node.args) == 1 and not node.keywords \
                and isinstance(node.args[0], ast.Tuple) and node.args[0].elts and _plain(node.func.value) and all(isinstance(x, ast.Constant) for x in node.args[0].elts):
            self.count += 1
            calls = [ast.copy_location(ast.Call(func=_clone(node.func), args=[x], keywords=[]), node) for x in node.args[0].elts]
            if len(calls) == 1:
                return calls[0]
            return ast.copy_location(ast.BoolOp(op=ast.Or(), values=calls), node)
        return node


# ------------------------------------------------------------------------------------------------------------------------
# helpers
# ------------------------------------------------------------------------------------------------------------------------
def _own(node):
    for ch in ast.iter_child_nodes(node):
        if isinstance(ch, (ast.FunctionDef, ast.AsyncFunctionDef, ast.Lambda, ast.ClassDef)):
            continue
        yield ch
        yield from _own(ch)


def _has_return(st):
    if isinstance(st, ast.Return):
        return True
    return any(isinstance(x, ast.Return) for x in _own(st))


class _Helper:
    def __init__(self, module, func, kind, owner_cls, encl_func):
        self.module = module
        self.func = func
        self.kind = kind            # 'static' | 'class' | 'instance' | 'plain'
        self.cls = owner_cls        # ClassDef or None
        self.encl = encl_func       # enclosing FunctionDef for nested helpers
        self.name = func.name
        a = func.args
        self.ok = not (a.vararg or a.kwarg or a.posonlyargs or a.kwonlyargs) and not isinstance(func, ast.AsyncFunctionDef)
        for x in _own(func):
            if isinstance(x, (ast.Yield, ast.YieldFrom, ast.Await, ast.Global, ast.Nonlocal)):
                self.ok = False
        for x in ast.walk(func):
            if x is not func and isinstance(x, (ast.FunctionDef, ast.AsyncFunctionDef, ast.ClassDef)):
                self.ok = False
        self.params = [p.arg for p in a.args]
        self.defaults = dict(zip(self.params[len(self.params) - len(a.defaults):], a.defaults))
        self.stored = {x.id for x in _own(func) if isinstance(x, ast.Name) and isinstance(x.ctx, (ast.Store, ast.Del))}
        self.locals = self.stored - set(self.params)
        body = func.body
        self.single_expr = len(body) == 1 and isinstance(body[0], ast.Return) and body[0].value is not None
        if not self.single_expr and self.ok:
            # a body made of nothing but returns under conditions (guard clauses / if-else chains) is one conditional expression
            e = _as_expression(body)
            if e is not None:
                self.func = _clone_shallow_func(func, [ast.copy_location(ast.Return(value=e), body[0])])
                self.single_expr = True


def _as_expression(stmts):
    """`if c: return A` ... `return B`  ->  A if c else B   (None when the statements are anything else)"""
    if not stmts:
        return None
    st = stmts[0]
    if isinstance(st, ast.Return) and st.value is not None:
        return st.value
    if isinstance(st, ast.If):
        a = _as_expression(st.body)
        if a is None:
            return None
        b = _as_expression(st.orelse) if st.orelse else _as_expression(list(stmts[1:]))
        if b is not None:
            return ast.copy_location(ast.IfExp(test=st.test, body=a, orelse=b), st)
    return None


def _clone_shallow_func(func, body):
    new = type(func)()
    for f in func._fields:
        setattr(new, f, getattr(func, f))
    for a in ('lineno', 'col_offset', 'end_lineno', 'end_col_offset', '_qualname', '_parent', '_module', '_func', '_cls', '_qual'):
        if hasattr(func, a):
            setattr(new, a, getattr(func, a))
    new.body = body
    new._original = func
    return new


_counter = itertools.count(1)


def _structure(stmts, ret, in_loop=False):
    """Replace `return E` by `ret = E` and restructure so that nothing runs after it.  Returns (statements, always_returns)."""
    out = []
    stmts = list(stmts)
    for i, st in enumerate(stmts):
        if isinstance(st, ast.Return):
            val = st.value if st.value is not None else ast.Constant(value=None)
            out.append(ast.copy_location(ast.Assign(targets=[ast.Name(id=ret, ctx=ast.Store())], value=val), st))
            if in_loop:
                out.append(ast.copy_location(ast.Break(), st))
            return out, True
        if not _has_return(st):
            if in_loop and any(isinstance(x, ast.Break) for x in _own(st)) and not isinstance(st, (ast.For, ast.While)):
                raise NotInlinable('break next to return in a loop')
            out.append(st)
            continue
        rest = stmts[i + 1:]
        if isinstance(st, ast.If):
            b, br = _structure(st.body, ret, in_loop)
            o, orr = _structure(st.orelse, ret, in_loop)
            if br and orr:
                out.append(ast.copy_location(ast.If(test=st.test, body=b, orelse=o), st))
                return out, True
            if br or orr:
                r, rr = _structure(rest, ret, in_loop)
                if br:
                    new = ast.If(test=st.test, body=b, orelse=o + r)
                else:
                    new = ast.If(test=st.test, body=b + r, orelse=o)
                if not new.body:
                    new.body = [ast.copy_location(ast.Pass(), st)]
                out.append(ast.copy_location(new, st))
                return out, rr
            raise NotInlinable('return under a nested condition that does not end its branch')
        if isinstance(st, (ast.For, ast.While)) and not in_loop and not st.orelse:
            if any(isinstance(x, ast.Break) for x in _own(st)):
                raise NotInlinable('loop with both break and return')
            for x in _own(st):
                if isinstance(x, (ast.For, ast.While, ast.Try, ast.With)) and _has_return(x):
                    raise NotInlinable('return inside a nested loop / try')
            body, _ = _structure(st.body, ret, True)
            r, rr = _structure(rest, ret, False)
            new = copy.copy(st)
            new.body = body
            new.orelse = r
            out.append(new)
            return out, rr and bool(r)
        raise NotInlinable('return inside %s' % type(st).__name__)
    return out, False


class _Subst(ast.NodeTransformer):
    def __init__(self, mapping):
        self.mapping = mapping

    def visit_Name(self, node):
        if node.id in self.mapping:
            new = self.mapping[node.id]
            if isinstance(new, str):
                return ast.copy_location(ast.Name(id=new, ctx=node.ctx), node)
            if isinstance(node.ctx, ast.Load):
                return ast.copy_location(_clone(new), node)
        return node


def _bind(helper, call, base_self):
    """{param: argument expression}; raises NotInlinable for call shapes that are not plain."""
    params = list(helper.params)
    bound = {}
    if helper.kind in ('instance', 'class'):
        if not params:
            raise NotInlinable('method without receiver parameter')
        if base_self is not None:
            bound[params[0]] = base_self
            params = params[1:]
        # otherwise Cls.method(obj, ...): the receiver is the first positional argument
    if any(isinstance(a, ast.Starred) for a in call.args) or any(k.arg is None for k in call.keywords):
        raise NotInlinable('star arguments')
    if len(call.args) > len(params):
        raise NotInlinable('too many arguments')
    for p, a in zip(params, call.args):
        bound[p] = a
    for k in call.keywords:
        if k.arg not in params or k.arg in bound:
            raise NotInlinable('unknown keyword')
        bound[k.arg] = k.value
    for p in params:
        if p not in bound:
            if p not in helper.defaults:
                raise NotInlinable('missing argument')
            bound[p] = helper.defaults[p]
    return bound


def _expand(helper, call, base_self, want_value, keep_names=()):
    """(prelude statements, value expression or None).  keep_names: locals of the reference version of the calling function -- a helper local of that name
    is (very likely) the caller's own variable that moved out with the extracted code, and keeps its name."""
    k = next(_counter)
    bound = _bind(helper, call, base_self)
    pre = []
    mapping = {}
    loads = {}
    for x in _own(helper.func):
        if isinstance(x, ast.Name) and isinstance(x.ctx, ast.Load):
            loads[x.id] = loads.get(x.id, 0) + 1
    for p in helper.params:
        a = bound[p]
        if p not in helper.stored and (_plain(a) or _is_literal(a) or (helper.single_expr and loads.get(p, 0) <= 1)):
            mapping[p] = a
        else:
            tmp = p if p in keep_names else 'inl%d_%s' % (k, p)
            pre.append(ast.copy_location(ast.Assign(targets=[ast.Name(id=tmp, ctx=ast.Store())], value=a), call))
            mapping[p] = tmp
    for loc in helper.locals:
        mapping[loc] = loc if loc in keep_names else 'inl%d_%s' % (k, loc)
    body = [_Subst(mapping).visit(_clone(st)) for st in helper.func.body]
    if helper.single_expr:
        return pre, body[0].value
    ret = 'inl%d_ret' % k
    stmts, always = _structure(body, ret)
    value = None
    if want_value:
        if stmts and always and isinstance(stmts[-1], ast.Assign) and isinstance(stmts[-1].targets[0], ast.Name) and stmts[-1].targets[0].id == ret \
                and not any(isinstance(x, ast.Name) and x.id == ret for s in stmts[:-1] for x in ast.walk(s)):
            value = stmts[-1].value
            stmts = stmts[:-1]
        else:
            if not always:
                pre.append(ast.copy_location(ast.Assign(targets=[ast.Name(id=ret, ctx=ast.Store())], value=ast.Constant(value=None)), call))
            value = ast.Name(id=ret, ctx=ast.Load())
    else:
        # result unused: drop the stores into the result variable where the value is effect-free
        def strip(block):
            outb = []
            for s in block:
                if isinstance(s, ast.Assign) and isinstance(s.targets[0], ast.Name) and s.targets[0].id == ret:
                    if _plain(s.value) or _is_literal(s.value):
                        continue
                    outb.append(ast.copy_location(ast.Expr(value=s.value), s))
                    continue
                for fld in ('body', 'orelse'):
                    if isinstance(getattr(s, fld, None), list):
                        nb = strip(getattr(s, fld))
                        if fld == 'body' and not nb:
                            nb = [ast.copy_location(ast.Pass(), s)]
                        setattr(s, fld, nb)
                outb.append(s)
            return outb
        stmts = strip(stmts)
    for s in pre + stmts:
        for x in ast.walk(s):
            x._inlined_from = helper.name
    return pre + stmts, value


class _Inliner:
    def __init__(self, module, helpers, ref_shapes=None):
        self.ref_shapes = ref_shapes or {}
        self._keep = {}
        self.module = module
        self.helpers = helpers          # list of _Helper of this module
        self.count = 0
        self.failed = {}
        self.expanded = set()

    def keep_names(self, ctx_funcs):
        if not ctx_funcs or not self.ref_shapes:
            return ()
        f = ctx_funcs[-1]
        key = '%s:%s' % (self.module.name, getattr(f, '_qualname', f.name))
        if key not in self.ref_shapes:
            return ()
        if key not in self._keep:
            self._keep[key] = {nm for _, ns in self.ref_shapes[key] for nm in ns}
        return self._keep[key]

    def resolve(self, call, ctx_cls, ctx_funcs):
        f = call.func
        if isinstance(f, ast.Name):
            for h in self.helpers:
                if h.kind == 'plain' and h.name == f.id and (h.encl is None or h.encl in ctx_funcs) and h.cls is None:
                    return h, None
            return None, None
        if isinstance(f, ast.Attribute) and isinstance(f.value, ast.Name):
            base = f.value.id
            for h in self.helpers:
                if h.cls is None or h.name != f.attr:
                    continue
                if base == h.cls.name:
                    return h, (ast.Name(id=h.cls.name, ctx=ast.Load()) if h.kind == 'class' else None)
                if base in ('self', 'cls') and ctx_cls is h.cls:
                    if h.kind == 'static':
                        return h, None
                    return h, ast.Name(id=base, ctx=ast.Load())
        return None, None

    # positions of a statement that are evaluated first and unconditionally
    def _first_calls(self, e, ctx_cls, ctx_funcs, acc):
        """collect (parent, field, index, call, helper, base) for helper calls in hoistable position, in evaluation order; stops at the first obstacle"""
        def rec(node, setter):
            if isinstance(node, ast.Call):
                h, base = self.resolve(node, ctx_cls, ctx_funcs)
                if h is not None:
                    acc.append((node, setter, h, base))
                    return False          # the expansion replaces it; arguments are handled by the expansion itself
                if not _plain(node.func):
                    if isinstance(node.func, ast.Attribute):
                        if not rec(node.func.value, lambda v, n=node.func: setattr(n, 'value', v)):
                            return False
                    else:
                        return False
                for i, a in enumerate(node.args):
                    if not rec(a, lambda v, n=node, i=i: n.args.__setitem__(i, v)):
                        return False
                for kw in node.keywords:
                    if not rec(kw.value, lambda v, n=kw: setattr(n, 'value', v)):
                        return False
                return False              # after a foreign call anything later is no longer "first"
            if isinstance(node, (ast.Name, ast.Constant)):
                return True
            if isinstance(node, ast.Attribute):
                return rec(node.value, lambda v, n=node: setattr(n, 'value', v))
            if isinstance(node, ast.Subscript):
                return rec(node.value, lambda v, n=node: setattr(n, 'value', v)) and rec(node.slice, lambda v, n=node: setattr(n, 'slice', v))
            if isinstance(node, ast.UnaryOp):
                return rec(node.operand, lambda v, n=node: setattr(n, 'operand', v))
            if isinstance(node, ast.BinOp):
                return rec(node.left, lambda v, n=node: setattr(n, 'left', v)) and rec(node.right, lambda v, n=node: setattr(n, 'right', v))
            if isinstance(node, ast.BoolOp):
                rec(node.values[0], lambda v, n=node: n.values.__setitem__(0, v))
                return False
            if isinstance(node, ast.Compare):
                if not rec(node.left, lambda v, n=node: setattr(n, 'left', v)):
                    return False
                if len(node.comparators) == 1:
                    return rec(node.comparators[0], lambda v, n=node: n.comparators.__setitem__(0, v))
                return False
            if isinstance(node, (ast.Tuple, ast.List)):
                for i, x in enumerate(node.elts):
                    if not rec(x, lambda v, n=node, i=i: n.elts.__setitem__(i, v)):
                        return False
                return True
            if isinstance(node, ast.IfExp):
                rec(node.test, lambda v, n=node: setattr(n, 'test', v))
                return False
            if isinstance(node, ast.Starred):
                return rec(node.value, lambda v, n=node: setattr(n, 'value', v))
            return False
        return rec

    def block(self, stmts, ctx_cls, ctx_funcs):
        out = []
        for st in stmts:
            out.extend(self.stmt(st, ctx_cls, ctx_funcs))
        return out

    def _single_exprs(self, node, ctx_cls, ctx_funcs):
        """substitute single-expression helpers anywhere below node (own scope)"""
        me = self

        class S(ast.NodeTransformer):
            def visit_FunctionDef(self, n):
                return n

            visit_AsyncFunctionDef = visit_FunctionDef
            visit_ClassDef = visit_FunctionDef

            def visit_Call(self, n):
                self.generic_visit(n)
                h, base = me.resolve(n, ctx_cls, ctx_funcs)
                if h is not None and h.ok and h.single_expr:
                    try:
                        pre, val = _expand(h, n, base, True, me.keep_names(ctx_funcs))
                    except NotInlinable as e:
                        me.failed[h.name] = str(e)
                        return n
                    if pre:
                        return n
                    me.count += 1
                    me.expanded.add(h.name)
                    return ast.copy_location(val, n)
                return n
        return S().visit(node)

    def stmt(self, st, ctx_cls, ctx_funcs):
        if isinstance(st, (ast.FunctionDef, ast.AsyncFunctionDef)):
            if not any(h.func is st for h in self.helpers) or True:
                st.body = self.block(st.body, ctx_cls, ctx_funcs + [st])
            return [st]
        if isinstance(st, ast.ClassDef):
            st.body = self.block(st.body, st, [])
            return [st]
        # `x = A(...) if c else B(...)` with a (multi-statement) helper in a branch: the helper call is conditional, so the statement is first split into
        # `if c: x = A(...)  else: x = B(...)` (same evaluation order: the test, then one branch)
        if isinstance(st, (ast.Assign, ast.AnnAssign, ast.Return, ast.Expr)) and isinstance(getattr(st, 'value', None), ast.IfExp):
            ie = st.value

            def _has_helper(e):
                for x in ast.walk(e):
                    if isinstance(x, ast.Call):
                        h, _b = self.resolve(x, ctx_cls, ctx_funcs)
                        if h is not None and h.ok and not h.single_expr:
                            return True
                return False
            if (_has_helper(ie.body) or _has_helper(ie.orelse)) and not _has_helper(ie.test):
                a_, b_ = copy.copy(st), copy.copy(st)
                a_.value, b_.value = ie.body, ie.orelse
                if isinstance(st, ast.Assign):
                    a_.targets = [_clone(t) for t in st.targets]
                    b_.targets = [_clone(t) for t in st.targets]
                new_if = ast.copy_location(ast.If(test=ie.test, body=[a_], orelse=[b_]), st)
                for x in (a_, b_):
                    x._parent = new_if
                new_if._parent = getattr(st, '_parent', None)
                return self.stmt(new_if, ctx_cls, ctx_funcs)
        # header expressions
        hdr = None
        if isinstance(st, (ast.Assign, ast.AugAssign, ast.AnnAssign, ast.Expr, ast.Return)):
            hdr = 'value'
        elif isinstance(st, ast.If):
            hdr = 'test'
        elif isinstance(st, (ast.For,)):
            hdr = 'iter'
        pre_all = []
        if hdr is not None and getattr(st, hdr, None) is not None:
            for _ in range(8):
                acc = []
                rec = self._first_calls(getattr(st, hdr), ctx_cls, ctx_funcs, acc)
                rec(getattr(st, hdr), lambda v, n=st, f=hdr: setattr(n, f, v))
                if not acc:
                    break
                call, setter, h, base = acc[0]
                if not h.ok:
                    self.failed[h.name] = 'unsupported signature or body'
                    break
                want = not (isinstance(st, ast.Expr) and st.value is call)
                try:
                    pre, val = _expand(h, call, base, want, self.keep_names(ctx_funcs))
                except NotInlinable as e:
                    self.failed[h.name] = str(e)
                    break
                self.count += 1
                self.expanded.add(h.name)
                pre_all.extend(self.block(pre, ctx_cls, ctx_funcs))
                if not want:
                    return pre_all
                setter(val)
        # remaining single-expression helpers anywhere in the statement's own expressions
        if isinstance(st, (ast.If, ast.While)):
            st.test = self._single_exprs(st.test, ctx_cls, ctx_funcs)
        elif isinstance(st, ast.For):
            st.iter = self._single_exprs(st.iter, ctx_cls, ctx_funcs)
        elif isinstance(st, (ast.With,)):
            st.items = [self._single_exprs(i, ctx_cls, ctx_funcs) for i in st.items]
        elif not isinstance(st, ast.Try):
            st = self._single_exprs(st, ctx_cls, ctx_funcs)
        for fld in ('body', 'orelse', 'finalbody'):
            b = getattr(st, fld, None)
            if isinstance(b, list) and b and isinstance(b[0], ast.stmt):
                setattr(st, fld, self.block(b, ctx_cls, ctx_funcs))
        for hnd in getattr(st, 'handlers', []) or []:
            hnd.body = self.block(hnd.body, ctx_cls, ctx_funcs)
        return pre_all + [st]


def _collect_helpers(module, ref_funcs):
    helpers = []

    def walk(node, cls, encl):
        for ch in ast.iter_child_nodes(node):
            if isinstance(ch, (ast.FunctionDef, ast.AsyncFunctionDef)):
                key = '%s:%s' % (module.name, ch._qualname)
                if key not in ref_funcs:
                    kind = 'plain'
                    if cls is not None and encl is None:
                        decos = {d.id for d in ch.decorator_list if isinstance(d, ast.Name)}
                        if 'staticmethod' in decos:
                            kind = 'static'
                        elif 'classmethod' in decos:
                            kind = 'class'
                        elif 'property' in decos or ch.decorator_list and not decos <= {'staticmethod', 'classmethod'}:
                            kind = None
                        else:
                            kind = 'instance'
                    elif ch.decorator_list:
                        kind = None
                    if kind is not None:
                        helpers.append(_Helper(module, ch, kind, cls if encl is None else None, encl))
                walk(ch, cls, ch)
            elif isinstance(ch, ast.ClassDef):
                walk(ch, ch, None)
            else:
                walk(ch, cls, encl)
    walk(module.tree, None, None)
    return helpers


class _ExpandContextManagers(ast.NodeTransformer):
    """`with helper(): BODY`, where `helper` is a parameterless @contextmanager generator of the same module whose body is `PRE; try: yield finally: FIN`,
    is by the definition of contextlib.contextmanager the same as `PRE; try: BODY finally: FIN` (no `as` target, the generator does not catch anything)."""
    def __init__(self, tree):
        self.count = 0
        self.managers = {}
        for f in ast.walk(tree):
            if not isinstance(f, ast.FunctionDef) or f.args.args or f.args.vararg or f.args.kwarg or f.args.kwonlyargs:
                continue
            if not any(ast.unparse(d).split('.')[-1] == 'contextmanager' for d in f.decorator_list):
                continue
            body = [st for st in f.body if not (isinstance(st, ast.Expr) and isinstance(st.value, ast.Constant))]
            if not body or not isinstance(body[-1], ast.Try):
                continue
            t = body[-1]
            if t.handlers or t.orelse or len(t.body) != 1 or not (isinstance(t.body[0], ast.Expr) and isinstance(t.body[0].value, ast.Yield) and t.body[0].value.value is None):
                continue
            if any(isinstance(x, (ast.Yield, ast.YieldFrom, ast.Return)) for st in body[:-1] + t.finalbody for x in ast.walk(st)):
                continue
            self.managers[f.name] = (body[:-1], t.finalbody)

    def visit_With(self, node):
        self.generic_visit(node)
        if len(node.items) == 1 and node.items[0].optional_vars is None and isinstance(node.items[0].context_expr, ast.Call):
            c = node.items[0].context_expr
            if isinstance(c.func, ast.Name) and c.func.id in self.managers and not c.args and not c.keywords:
                pre, fin = self.managers[c.func.id]
                self.count += 1
                new = ast.copy_location(ast.Try(body=node.body, handlers=[], orelse=[], finalbody=[_clone(x) for x in fin]), node)
                return [_clone(x) for x in pre] + [new]
        return node


class _UnrollClassLoops(ast.NodeTransformer):
    """for c in (ClassA, ClassB): c.method(...)   ->   ClassA.method(...); ClassB.method(...)     (a literal tuple / list of class names, a body of plain
    expression statements that use the loop variable only as a receiver, no break / continue / else)"""
    def __init__(self):
        self.count = 0

    def _rewrite_block(self, stmts):
        out = []
        for st in stmts:
            if isinstance(st, ast.For) and isinstance(st.target, ast.Name) and isinstance(st.iter, (ast.Tuple, ast.List)) and 1 <= len(st.iter.elts) <= 4 and not st.orelse \
                    and all(isinstance(x, ast.Name) and x.id[:1].isupper() for x in st.iter.elts) and all(isinstance(b, ast.Expr) and isinstance(b.value, ast.Call) for b in st.body) \
                    and not any(isinstance(x, ast.Name) and x.id == st.target.id and isinstance(x.ctx, ast.Store) for b in st.body for x in ast.walk(b)):
                for elt in st.iter.elts:
                    for b in st.body:
                        out.append(_Subst({st.target.id: elt}).visit(_clone(b)))
                self.count += 1
                continue
            out.append(st)
        return out

    def generic_visit(self, node):
        super().generic_visit(node)
        for fld in ('body', 'orelse', 'finalbody'):
            b = getattr(node, fld, None)
            if isinstance(b, list) and b and isinstance(b[0], ast.stmt):
                setattr(node, fld, self._rewrite_block(b))
        return node


def _calls(func, name):
    for x in ast.walk(func):
        if isinstance(x, ast.Call):
            f = x.func
            if (isinstance(f, ast.Name) and f.id == name) or (isinstance(f, ast.Attribute) and f.attr == name):
                yield x


def phase_b(repo, ref_funcs, ref_names, ref_shapes=None):
    """Returns {description: count} of what was substituted back."""
    from .core import _annotate
    applied = {}
    if ref_names and ref_shapes:
        n = _relocalise_constants(repo, ref_names, ref_shapes)
        if n:
            applied['<new constant tables given back to their functions>'] = n
            for m in repo.modules.values():
                _annotate(m.tree, m)
    n = _propagate_constants(repo, ref_names) if ref_names else 0
    if n:
        applied['<new constants propagated>'] = n
    for m in repo.modules.values():
        t = _AffixTuples()
        m.tree = t.visit(m.tree)
        if t.count:
            applied['%s:<affix tuples>' % m.name] = t.count
    for m in repo.modules.values():
        _annotate(m.tree, m)
        helpers = _collect_helpers(m, ref_funcs)
        if not helpers:
            continue
        # recursive helpers are left alone; helpers are expanded bottom-up (a helper's own body first)
        for h in helpers:
            if any(True for _ in _calls(getattr(h.func, '_original', h.func), h.name)):
                h.ok = False
        expanded = set()
        for _round in range(4):
            inl = _Inliner(m, helpers, ref_shapes)
            m.tree.body = inl.block(m.tree.body, None, [])
            expanded |= inl.expanded
            if inl.count:
                applied['%s:<helpers inlined>' % m.name] = applied.get('%s:<helpers inlined>' % m.name, 0) + inl.count
                for h in helpers:
                    hh = _Helper(m, getattr(h.func, '_original', h.func), h.kind, h.cls, h.encl)
                    hh.ok = hh.ok and h.ok
                    h.__dict__.update(hh.__dict__)
            else:
                break
        for name, why in inl.failed.items():
            applied['%s:<not inlined: %s>' % (m.name, name)] = why
        # drop helper definitions that were expanded and are no longer referenced anywhere in the module
        for h in helpers:
            if h.name not in expanded or (h.name.startswith('__') and h.name.endswith('__')):
                continue
            used = False
            for x in ast.walk(m.tree):
                if isinstance(x, ast.Name) and x.id == h.name and isinstance(x.ctx, ast.Load):
                    used = True
                if isinstance(x, ast.Attribute) and x.attr == h.name:
                    used = True
            if not used:
                for node in ast.walk(m.tree):
                    b = getattr(node, 'body', None)
                    orig = getattr(h.func, '_original', h.func)
                    if isinstance(b, list) and orig in b:
                        b.remove(orig)
                        if not b:
                            b.append(ast.copy_location(ast.Pass(), orig))
        ast.fix_missing_locations(m.tree)
        _annotate(m.tree, m)
    for m in repo.modules.values():
        cm = _ExpandContextManagers(m.tree)
        if cm.managers:
            m.tree = cm.visit(m.tree)
            if cm.count:
                applied['%s:<context managers expanded>' % m.name] = cm.count
                ast.fix_missing_locations(m.tree)
                _annotate(m.tree, m)
    for m in repo.modules.values():
        u = _UnrollClassLoops()
        m.tree = u.visit(m.tree)
        if u.count:
            applied['%s:<class loops unrolled>' % m.name] = u.count
            ast.fix_missing_locations(m.tree)
            _annotate(m.tree, m)
    return applied
