"""Symbol table, light-weight type inference and call resolution specific to this code base.

Resolution kinds: 'exact' (single definition chosen by name/type), 'dispatch' (class-hierarchy dispatch on
a typed receiver), 'by-name' (receiver type unknown: every package class defining the method),
'external' (stdlib / builtin), 'unresolved'.
"""
import ast
import builtins

from .core import AnalysisError, unparse, attr_chain, walk_no_nested, func_id


class Symbols:
    def __init__(self, repo):
        self.repo = repo
        self.classes = {}        # simple class name (and qualified) -> ClassDef
        self.class_mod = {}
        self.funcs = repo.all_funcs()
        self.mod_funcs = {}      # module -> {name: FunctionDef}
        self.imports = {}        # module -> {local name: ('class'|'func'|'module'|'ext'|'const', target)}
        for (m, q), c in repo.classes().items():
            self.classes[q] = c
            self.classes[c.name] = c
            self.class_mod[c.name] = m
        for (m, q), f in self.funcs.items():
            if '.' not in q:
                self.mod_funcs.setdefault(m, {})[q] = f
        for m in repo.modules.values():
            imp = {}
            for st in ast.walk(m.tree):
                if isinstance(st, ast.Import):
                    for a in st.names:
                        imp[(a.asname or a.name).split('.')[0]] = ('ext', a.name)
                elif isinstance(st, ast.ImportFrom):
                    for a in st.names:
                        local = a.asname or a.name
                        if st.module and st.module.startswith('ssh_audit.'):
                            src = st.module.split('.', 1)[1]
                            if a.name in self.classes and self.class_mod.get(a.name) == src:
                                imp[local] = ('class', a.name)
                            elif (src, a.name) in self.funcs:
                                imp[local] = ('func', (src, a.name))
                            else:
                                imp[local] = ('const', (src, a.name))
                        elif st.module == 'ssh_audit':
                            imp[local] = ('module', a.name)
                        else:
                            imp[local] = ('ext', '%s.%s' % (st.module, a.name))
            self.imports[m.name] = imp
        self._subclasses = {}
        for c in set(self.classes.values()):
            for b in c.bases:
                bn = attr_chain(b)
                if bn and bn.split('.')[-1] in self.classes:
                    self._subclasses.setdefault(bn.split('.')[-1], set()).add(c.name)
        self._fields = {}
        self._tcache = {}
        self._ecache = {}
        self._evisiting = set()
        self._bcache = {}
        self._fcache = {}
        self._visiting = set()

    # -- classes -----------------------------------------------------------------------------
    def mro(self, cname):
        out, todo = [], [cname]
        while todo:
            c = todo.pop(0)
            if c in out or c not in self.classes:
                continue
            out.append(c)
            for b in self.classes[c].bases:
                bn = attr_chain(b)
                if bn:
                    todo.append(bn.split('.')[-1])
        return out

    def subclasses(self, cname):
        out, todo = set(), [cname]
        while todo:
            c = todo.pop()
            for s in self._subclasses.get(c, ()):
                if s not in out:
                    out.add(s)
                    todo.append(s)
        return out

    def method(self, cname, mname):
        for c in self.mro(cname):
            for st in self.classes[c].body:
                if isinstance(st, (ast.FunctionDef, ast.AsyncFunctionDef)) and st.name == mname:
                    if mname and any(unparse(d).endswith('.setter') for d in st.decorator_list):
                        continue
                    return st
        return None

    def dispatch(self, cname, mname):
        """Definitions of mname that a receiver statically typed `cname` may run (own/inherited + overrides)."""
        out = []
        m = self.method(cname, mname)
        if m is not None:
            out.append(m)
        for s in self.subclasses(cname):
            for st in self.classes[s].body:
                if isinstance(st, (ast.FunctionDef, ast.AsyncFunctionDef)) and st.name == mname and st not in out:
                    out.append(st)
        return out

    def is_property(self, f):
        return any(unparse(d) == 'property' for d in f.decorator_list)

    def classes_defining(self, mname, prop=None):
        out = []
        for c in set(self.classes.values()):
            for st in c.body:
                if isinstance(st, (ast.FunctionDef, ast.AsyncFunctionDef)) and st.name == mname:
                    if any(unparse(d).endswith('.setter') for d in st.decorator_list):
                        continue
                    if prop is None or self.is_property(st) == prop:
                        out.append(st)
        return out

    # -- types -------------------------------------------------------------------------------
    def ann_class(self, ann):
        """Package class named by an annotation (handles strings, Optional[...])."""
        if ann is None:
            return None
        if isinstance(ann, ast.Constant) and isinstance(ann.value, str):
            try:
                ann = ast.parse(ann.value, mode='eval').body
            except SyntaxError:
                return None
        if isinstance(ann, ast.Subscript):
            base = attr_chain(ann.value)
            if base in ('Optional', 'typing.Optional'):
                return self.ann_class(ann.slice)
            return None
        n = attr_chain(ann)
        if n:
            last = n.split('.')[-1]
            if n in self.classes:
                return self.classes[n].name
            if last in self.classes:
                return last
        return None

    def field_types(self, cname):
        """{attribute name (mangled as written): class} from assignments in the class's methods."""
        if cname in self._fields:
            return self._fields[cname]
        out = {}
        self._fields[cname] = out
        for c in self.mro(cname):
            for st in self.classes[c].body:
                if not isinstance(st, (ast.FunctionDef, ast.AsyncFunctionDef)):
                    continue
                for n in walk_no_nested(st):
                    tgt, val, ann = None, None, None
                    if isinstance(n, ast.Assign) and len(n.targets) == 1:
                        tgt, val = n.targets[0], n.value
                    elif isinstance(n, ast.AnnAssign):
                        tgt, val, ann = n.target, n.value, n.annotation
                    if isinstance(tgt, ast.Attribute) and isinstance(tgt.value, ast.Name) and tgt.value.id == 'self':
                        t = self.ann_class(ann) if ann is not None else None
                        if t is None and val is not None:
                            t = self.type_of(val, st)
                        if t is not None and tgt.attr not in out:
                            out[tgt.attr] = t
        return out

    def type_of(self, expr, func, depth=0):
        """Package class of an expression inside `func`, or None."""
        if depth > 6 or expr is None:
            return None
        key = (id(expr), id(func))
        if key in self._tcache:
            return self._tcache[key]
        if key in self._visiting:
            return None
        self._visiting.add(key)
        try:
            t = self._type_of(expr, func, depth)
        finally:
            self._visiting.discard(key)
        if depth == 0:
            self._tcache[key] = t
        return t

    def _type_of(self, expr, func, depth):
        if isinstance(expr, ast.Name):
            if expr.id in ('self', 'cls') and getattr(func, '_cls', None) is not None:
                return func._cls.name
            f = func
            while f is not None:
                for a in f.args.posonlyargs + f.args.args + f.args.kwonlyargs:
                    if a.arg == expr.id:
                        return self.ann_class(a.annotation)
                for n in walk_no_nested(f):
                    if isinstance(n, ast.AnnAssign) and isinstance(n.target, ast.Name) and n.target.id == expr.id:
                        t = self.ann_class(n.annotation)
                        if t:
                            return t
                    if isinstance(n, ast.Assign) and any(isinstance(t, ast.Name) and t.id == expr.id for t in n.targets):
                        t = self.type_of(n.value, f, depth + 1)
                        if t:
                            return t
                    if isinstance(n, (ast.With,)):
                        for it in n.items:
                            if isinstance(it.optional_vars, ast.Name) and it.optional_vars.id == expr.id:
                                t = self.type_of(it.context_expr, f, depth + 1)
                                if t:
                                    return t
                f = getattr(f, '_func', None)
            return None
        if isinstance(expr, ast.Call):
            if isinstance(expr.func, ast.Name) and expr.func.id == 'cast' and len(expr.args) == 2:
                return self.ann_class(expr.args[0]) or self.type_of(expr.args[1], func, depth + 1)
            if isinstance(expr.func, ast.Attribute) and expr.func.attr == 'deepcopy' and expr.args:
                return self.type_of(expr.args[0], func, depth + 1)
            if isinstance(expr.func, ast.Name) and expr.func.id == 'cls' and getattr(func, '_cls', None) is not None:
                return func._cls.name
            for kind, tgt in self.resolve_call(expr, func, depth=depth + 1):
                if kind in ('exact', 'dispatch') and tgt is not None:
                    if tgt.name == '__init__' and tgt._cls is not None:
                        cn = self._callee_class(expr, func)
                        return cn or tgt._cls.name
                    t = self.ann_class(tgt.returns)
                    if t:
                        return t
            cn = self._callee_class(expr, func)
            return cn
        if isinstance(expr, ast.Attribute):
            base = self.type_of(expr.value, func, depth + 1)
            if base is not None:
                ft = self.field_types(base)
                name = expr.attr
                if name in ft:
                    return ft[name]
                m = self.method(base, name)
                if m is not None and self.is_property(m):
                    return self.ann_class(m.returns)
            return None
        if isinstance(expr, ast.IfExp):
            return self.type_of(expr.body, func, depth + 1) or self.type_of(expr.orelse, func, depth + 1)
        return None

    def _callee_class(self, call, func):
        n = attr_chain(call.func)
        if n is None:
            return None
        mod = func._module.name if func is not None else None
        if n in self.classes and (n in self.imports.get(mod, {}) or self.class_mod.get(n) == mod or '.' in n):
            return self.classes[n].name
        return None

    # -- receivers known NOT to be package objects -------------------------------------------
    _EXT_CTORS = {'dict', 'list', 'set', 'tuple', 'str', 'bytes', 'bytearray', 'open', 'sorted', 'frozenset', 'int', 'float', 'range', 'enumerate', 'zip'}

    def _ann_is_external(self, ann):
        if ann is None:
            return False
        if isinstance(ann, ast.Constant) and isinstance(ann.value, str):
            try:
                ann = ast.parse(ann.value, mode='eval').body
            except SyntaxError:
                return False
        if self.ann_class(ann) is not None:
            return False
        t = unparse(ann)
        if t in ('Any', 'typing.Any', 'object'):
            return False
        if isinstance(ann, ast.Subscript) and attr_chain(ann.value) in ('Optional', 'Union'):
            # Optional[X]/Union[...] external iff no package class inside
            for n in ast.walk(ann.slice):
                if isinstance(n, (ast.Name, ast.Attribute)) and self.ann_class(n) is not None:
                    return False
                if isinstance(n, ast.Name) and n.id == 'Any':
                    return False
        return True

    def _value_is_external(self, v, func, depth):
        if isinstance(v, (ast.Dict, ast.List, ast.Set, ast.Tuple, ast.ListComp, ast.DictComp, ast.SetComp, ast.GeneratorExp, ast.JoinedStr, ast.BinOp, ast.Compare)):
            return True
        if isinstance(v, ast.Constant):
            return v.value is not None
        if isinstance(v, ast.Call):
            n = attr_chain(v.func)
            mod = v._module.name
            imp = self.imports.get(mod, {})
            if n is not None:
                head = n.split('.')[0]
                if n in self._EXT_CTORS:
                    return True
                if head in imp and imp[head][0] == 'ext':
                    return True
            if isinstance(v.func, ast.Attribute):
                # method of an external receiver yields an external value (str.split, dict.get, ...)
                if self.known_external(v.func.value, func, depth + 1):
                    return True
        if isinstance(v, ast.Call):
            for kind, tgt in self.resolve_call(v, func, depth + 1):
                if kind == 'exact' and tgt is not None and tgt.name != '__init__' and self._ann_is_external(tgt.returns):
                    return True
        if isinstance(v, ast.IfExp):
            return self._value_is_external(v.body, func, depth + 1) and self._value_is_external(v.orelse, func, depth + 1)
        if isinstance(v, ast.Subscript):
            return self.known_external(v.value, func, depth + 1)
        if isinstance(v, ast.Name):
            return self.known_external(v, func, depth + 1)
        return False

    def known_external(self, expr, func, depth=0):
        """True when the receiver expression is certainly not an instance of a package class."""
        if depth > 5 or func is None:
            return False
        key = (id(expr), id(func))
        if key in self._ecache:
            return self._ecache[key]
        if key in self._evisiting:
            return False
        self._evisiting.add(key)
        try:
            r = self._known_external(expr, func, depth)
        finally:
            self._evisiting.discard(key)
        if not self._evisiting:
            self._ecache[key] = r
        return r

    def _bindings(self, f):
        """{name: ([annotations], [values])} for local bindings of function f (cached)."""
        b = self._bcache.get(id(f))
        if b is None:
            b = {}
            for n in walk_no_nested(f):
                if isinstance(n, ast.AnnAssign) and isinstance(n.target, ast.Name):
                    b.setdefault(n.target.id, ([], []))[0].append(n.annotation)
                elif isinstance(n, ast.Assign):
                    for t in n.targets:
                        if isinstance(t, ast.Name):
                            b.setdefault(t.id, ([], []))[1].append(n.value)
                elif isinstance(n, ast.With):
                    for it in n.items:
                        if isinstance(it.optional_vars, ast.Name):
                            b.setdefault(it.optional_vars.id, ([], []))[1].append(it.context_expr)
            self._bcache[id(f)] = b
        return b

    def _known_external(self, expr, func, depth):
        if isinstance(expr, (ast.Constant, ast.Dict, ast.List, ast.Set, ast.Tuple, ast.JoinedStr, ast.ListComp, ast.BinOp)):
            return True
        if isinstance(expr, ast.Name):
            mod = expr._module.name
            f = func
            found_local = False
            while f is not None:
                for a in f.args.posonlyargs + f.args.args + f.args.kwonlyargs:
                    if a.arg == expr.id:
                        return self._ann_is_external(a.annotation)
                anns, vals = self._bindings(f).get(expr.id, ([], []))
                if anns:
                    return all(self._ann_is_external(a) for a in anns)
                vals = [v for v in vals if not (isinstance(v, ast.Constant) and v.value is None)]
                if vals:
                    return all(self._value_is_external(v, f, depth) for v in vals)
                f = getattr(f, '_func', None)
            imp = self.imports.get(mod, {})
            if expr.id in imp and imp[expr.id][0] in ('const', 'ext'):
                return True
            if hasattr(builtins, expr.id) and expr.id not in self.classes:
                return True
            return False
        if isinstance(expr, ast.Attribute) and expr.attr.startswith('__') and expr.attr.endswith('__'):
            return True
        if isinstance(expr, ast.Attribute) and isinstance(expr.value, ast.Name) and expr.value.id in ('self', 'cls') and func._cls is not None:
            ck = (func._cls.name, expr.attr)
            if ck in self._fcache:
                return self._fcache[ck]
            r = self._field_external(expr, func, depth)
            self._fcache[ck] = r
            return r
        if isinstance(expr, ast.Call):
            return self._value_is_external(expr, func, depth)
        if isinstance(expr, ast.Subscript):
            return self.known_external(expr.value, func, depth + 1)
        return False

    def _field_external(self, expr, func, depth):
        if True:
            # field assigned only external values / annotated external anywhere in the class hierarchy
            vals, anns = [], []
            for c in self.mro(func._cls.name):
                for n in ast.walk(self.classes[c]):
                    tgt = None
                    if isinstance(n, ast.Assign) and len(n.targets) == 1:
                        tgt, val, ann = n.targets[0], n.value, None
                    elif isinstance(n, ast.AnnAssign):
                        tgt, val, ann = n.target, n.value, n.annotation
                    else:
                        continue
                    if isinstance(tgt, ast.Attribute) and isinstance(tgt.value, ast.Name) and tgt.value.id in ('self', 'cls') and tgt.attr == expr.attr:
                        if ann is not None:
                            anns.append(ann)
                        elif val is not None:
                            vals.append((val, n._func))
                    if isinstance(tgt, ast.Name) and tgt.id == expr.attr and n._func is None:      # class attribute
                        if ann is not None:
                            anns.append(ann)
                        elif val is not None:
                            vals.append((val, None))
            if anns:
                return all(self._ann_is_external(a) for a in anns)
            if vals:
                return all((isinstance(v, ast.Constant) and v.value is None) or self._value_is_external(v, g, depth) for v, g in vals if g is not None or True)
            return False
        if isinstance(expr, ast.Call):
            return self._value_is_external(expr, func, depth)
        if isinstance(expr, ast.Subscript):
            return self.known_external(expr.value, func, depth + 1)
        return False

    # -- call resolution ---------------------------------------------------------------------
    def resolve_call(self, call, func, depth=0):
        """[(kind, FunctionDef|None)] for a Call node inside `func` (None for module level)."""
        mod = call._module.name
        imp = self.imports.get(mod, {})
        f = call.func
        if isinstance(f, ast.Name):
            name = f.id
            # nested functions in enclosing scopes
            g = func
            while g is not None:
                for n in walk_no_nested(g):
                    if n is not g and isinstance(n, (ast.FunctionDef, ast.AsyncFunctionDef)) and n.name == name and n._func is g:
                        return [('exact', n)]
                g = getattr(g, '_func', None)
            if name == 'cls' and func is not None and func._cls is not None:
                init = self.method(func._cls.name, '__init__')
                return [('exact', init)] if init is not None else [('external', None)]
            if name in self.mod_funcs.get(mod, {}):
                return [('exact', self.mod_funcs[mod][name])]
            if name in self.classes and (self.class_mod.get(name) == mod or imp.get(name, ('', ''))[0] == 'class'):
                init = self.method(name, '__init__')
                return [('exact', init)] if init is not None else [('external', None)]
            if name in imp and imp[name][0] == 'func':
                return [('exact', self.funcs[imp[name][1]])]
            if hasattr(builtins, name) or name in imp:
                return [('external', None)]
            # local variable holding a callable: resolved by the caller-specific idiom tables
            return [('unresolved', None)]
        if isinstance(f, ast.Attribute):
            mname = f.attr
            recv = f.value
            # super(...).m()
            if isinstance(recv, ast.Call) and isinstance(recv.func, ast.Name) and recv.func.id == 'super' and func is not None and func._cls is not None:
                for c in self.mro(func._cls.name)[1:]:
                    for st in self.classes[c].body:
                        if isinstance(st, (ast.FunctionDef, ast.AsyncFunctionDef)) and st.name == mname:
                            return [('exact', st)]
                return [('external', None)]
            chain = attr_chain(recv)
            if isinstance(recv, ast.Name):
                rn = recv.id
                local_shadow = func is not None and rn in [a.arg for a in func.args.posonlyargs + func.args.args + func.args.kwonlyargs]
                if not local_shadow:
                    if rn in imp and imp[rn][0] in ('ext',):
                        return [('external', None)]
                    if rn in imp and imp[rn][0] == 'module':
                        tgt = self.funcs.get((imp[rn][1], mname))
                        return [('exact', tgt)] if tgt is not None else [('external', None)]
                    if rn in self.classes and (self.class_mod.get(rn) == mod or imp.get(rn, ('', ''))[0] == 'class'):
                        m = self.method(rn, mname)
                        if m is not None:
                            return [('exact', m)]
                        return [('external', None)]
            if chain is not None and chain in self.classes:      # Algorithms.Item(...), SSH_Socket.InsufficientReadException
                m = self.method(self.classes[chain].name, mname)
                if m is not None:
                    return [('exact', m)]
            t = self.type_of(recv, func, depth) if func is not None else None
            if t is not None:
                ds = self.dispatch(t, mname)
                if ds:
                    return [('dispatch' if len(ds) > 1 else 'exact', d) for d in ds]
                return [('external', None)]
            if self.known_external(recv, func, depth):
                return [('external', None)]
            cands = self.classes_defining(mname, prop=False)
            if cands:
                return [('by-name', c) for c in cands]
            return [('external', None)]
        return [('unresolved', None)]

    def property_reads(self, node, func):
        """[(Attribute node, kind, getter FunctionDef)] for attribute loads that run a package @property."""
        out = []
        for n in walk_no_nested(node):
            if isinstance(n, ast.Attribute) and isinstance(n.ctx, ast.Load):
                par = getattr(n, '_parent', None)
                if isinstance(par, ast.Call) and par.func is n:
                    continue
                t = self.type_of(n.value, func) if func is not None else None
                if t is not None:
                    m = self.method(t, n.attr)
                    if m is not None and self.is_property(m):
                        out.append((n, 'exact', m))
                    continue
                if isinstance(n.value, ast.Name) and n.value.id in self.imports.get(n._module.name, {}) and self.imports[n._module.name][n.value.id][0] in ('ext', 'module'):
                    continue
                if self.known_external(n.value, func):
                    continue
                for g in self.classes_defining(n.attr, prop=True):
                    out.append((n, 'by-name', g))
        return out


class CallGraph:
    """Edges between package functions, with per-edge call sites.  `extra(call, func, symbols)` lets a
    property add repo-specific idiom resolutions (dict-of-classes, getattr levels, submit targets)."""

    def __init__(self, repo, symbols=None):
        self.repo = repo
        self.sym = symbols or Symbols(repo)
        self.edges = {}      # FunctionDef -> [(callee FunctionDef, site node, kind)]
        self.unresolved = []
        for f in self.sym.funcs.values():
            self.edges[f] = self._edges_of(f)

    def _edges_of(self, f):
        out = []
        for st in f.body:
            for n in walk_no_nested(st):
                if isinstance(n, ast.Call):
                    res = self.sym.resolve_call(n, f)
                    idi = self._idioms(n, f)
                    if idi:
                        res = [r for r in res if r[0] not in ('unresolved',)] + idi
                    for kind, tgt in res:
                        if tgt is not None:
                            out.append((tgt, n, kind))
                        elif kind == 'unresolved':
                            self.unresolved.append((f, n))
            for (an, kind, g) in self.sym.property_reads(st, f):
                out.append((g, an, 'prop-' + kind))
        return out

    def _idioms(self, call, f):
        """Repo-specific callable idioms."""
        out = []
        sym = self.sym
        fn = call.func
        # executor.submit(target, ...), Process(target=...)
        if isinstance(fn, ast.Attribute) and fn.attr == 'submit' and call.args:
            out += self._callable_expr(call.args[0], f)
        for k in call.keywords:
            if k.arg == 'target':
                out += self._callable_expr(k.value, f)
        # f = getattr(out, level); f(...)   /  fn = level_to_output[level]; fn(...)   /  kex_group_class(out)
        if isinstance(fn, ast.Name):
            for n in walk_no_nested(f):
                if isinstance(n, ast.Assign) and any(isinstance(t, ast.Name) and t.id == fn.id for t in n.targets):
                    out += self._callable_value(n.value, f)
                if isinstance(n, ast.For):
                    # for gex_alg, kex_group_class in GEX_ALGS.items():
                    tnames = [e.id for e in ast.walk(n.target) if isinstance(e, ast.Name)]
                    if fn.id in tnames:
                        out += self._dict_values_callables(n.iter, f)
        # KEX_TO_DHGROUP[kex_str](out)
        if isinstance(fn, ast.Subscript):
            out += self._dict_values_callables(fn.value, f)
        return out

    def _callable_expr(self, e, f):
        sym = self.sym
        if isinstance(e, ast.Name):
            mod = f._module.name
            if e.id in sym.mod_funcs.get(mod, {}):
                return [('exact', sym.mod_funcs[mod][e.id])]
        if isinstance(e, ast.Attribute):
            t = sym.type_of(e.value, f)
            if t:
                return [('dispatch', d) for d in sym.dispatch(t, e.attr)]
        return []

    def _callable_value(self, v, f):
        sym = self.sym
        out = []
        if isinstance(v, ast.Call) and isinstance(v.func, ast.Name) and v.func.id == 'getattr' and len(v.args) >= 2:
            t = sym.type_of(v.args[0], f)
            if t == 'OutputBuffer':
                for lv in ('fail', 'warn', 'info', 'good'):
                    m = sym.method(t, lv)
                    if m is not None:
                        out.append(('dispatch', m))
        elif isinstance(v, ast.Attribute):
            out += self._callable_expr(v, f)
        elif isinstance(v, ast.Subscript):
            out += self._dict_values_callables(v.value, f)
        return out

    def _dict_values_callables(self, e, f):
        """Callables stored as values of a dict literal bound to the name in `e` (or e.items())."""
        sym = self.sym
        if isinstance(e, ast.Call) and isinstance(e.func, ast.Attribute) and e.func.attr in ('items', 'values'):
            e = e.func.value
        if not isinstance(e, ast.Name):
            return []
        out = []
        for n in walk_no_nested(f):
            if isinstance(n, ast.Assign) and any(isinstance(t, ast.Name) and t.id == e.id for t in n.targets) and isinstance(n.value, ast.Dict):
                for v in n.value.values:
                    if isinstance(v, ast.Name) and v.id in sym.classes:
                        init = sym.method(v.id, '__init__')
                        if init is not None:
                            out.append(('dispatch', init))
                    elif isinstance(v, ast.Attribute):
                        out += self._callable_expr(v, f)
        return out

    def callees(self, f):
        return self.edges.get(f, [])

    def reachable(self, roots, skip_edge=None):
        """{FunctionDef: (parent FunctionDef, site)} for everything reachable from roots."""
        seen = {}
        stack = [(r, None, None) for r in roots]
        while stack:
            f, par, site = stack.pop()
            if f in seen:
                continue
            seen[f] = (par, site)
            for (g, s, kind) in self.edges.get(f, []):
                if skip_edge is not None and skip_edge(f, g, s, kind):
                    continue
                if g not in seen:
                    stack.append((g, f, s))
        return seen

    def chain(self, reach, f):
        out = []
        while f is not None:
            par, site = reach[f]
            out.append('%s%s' % (func_id(f), (' (called at line %s)' % site.lineno) if site is not None else ''))
            f = par
        return list(reversed(out))

    def callers(self, g):
        out = []
        for f, es in self.edges.items():
            for (h, s, kind) in es:
                if h is g:
                    out.append((f, s, kind))
        return out
