"""Statement-level control-flow graph for one function, with exceptional edges.

Nodes are (kind, stmt) records; compound statements contribute a 'test' node for their header.
`finally` bodies are duplicated per continuation (normal / exception / return / break / continue).
Exits: EXIT (normal return / fall off the end) and RAISE (exception or SystemExit leaves the function).
"""
import ast

from .core import AnalysisError, unparse, walk_no_nested


class N:
    __slots__ = ('id', 'kind', 'stmt', 'succ', 'pred', 'label')

    def __init__(self, i, kind, stmt, label=''):
        self.id = i
        self.kind = kind
        self.stmt = stmt
        self.succ = set()
        self.pred = set()
        self.label = label

    def __repr__(self):
        return '<%d %s %s>' % (self.id, self.kind, self.label or (unparse(self.stmt)[:50] if self.stmt is not None else ''))


def is_exit_call(stmt):
    return isinstance(stmt, ast.Expr) and isinstance(stmt.value, ast.Call) and unparse(stmt.value.func) in ('sys.exit', 'exit', 'os._exit')


def default_may_raise(node):
    """A statement (or header expression) may raise when it contains a call, a subscript or a raise."""
    if node is None:
        return False
    for n in walk_no_nested(node):
        if isinstance(n, (ast.Call, ast.Raise, ast.Assert)):
            return True
    return False


class CFG:
    def __init__(self, func, may_raise=default_may_raise, exc_edges=True):
        self.func = func
        self.nodes = []
        self.may_raise = may_raise
        self.exc_edges = exc_edges
        self.entry = self._new('entry', None, 'ENTRY')
        self.exit = self._new('exit', None, 'EXIT')
        self.raise_exit = self._new('raise', None, 'RAISE')
        self._by_stmt = {}
        ctx = {'loops': [], 'exc': [self.raise_exit], 'finally': []}
        out = self._block(func.body, [self.entry], ctx)
        for p in out:
            self._edge(p, self.exit)

    # -- construction ------------------------------------------------------------------------
    def _new(self, kind, stmt, label=''):
        n = N(len(self.nodes), kind, stmt, label)
        self.nodes.append(n)
        if stmt is not None:
            self._by_stmt.setdefault(id(stmt), []).append(n)
        return n

    def _edge(self, a, b):
        a.succ.add(b)
        b.pred.add(a)

    def _link(self, preds, n):
        for p in preds:
            self._edge(p, n)

    def _raise_from(self, n, ctx):
        if self.exc_edges:
            for t in ctx['exc']:
                self._edge(n, t)

    def _block(self, stmts, preds, ctx):
        for st in stmts:
            preds = self._stmt(st, preds, ctx)
        return preds

    def _stmt(self, st, preds, ctx):
        if isinstance(st, (ast.FunctionDef, ast.AsyncFunctionDef, ast.ClassDef)):
            n = self._new('def', st)
            self._link(preds, n)
            return [n]
        if isinstance(st, ast.If):
            t = self._new('test', st)
            self._link(preds, t)
            if self.may_raise(st.test):
                self._raise_from(t, ctx)
            bt = self._new('branch', st, 'T')
            bf = self._new('branch', st, 'F')
            self._edge(t, bt)
            self._edge(t, bf)
            a = self._block(st.body, [bt], ctx)
            b = self._block(st.orelse, [bf], ctx) if st.orelse else [bf]
            return a + b
        if isinstance(st, (ast.While, ast.For, ast.AsyncFor)):
            t = self._new('test', st)
            self._link(preds, t)
            hdr = st.test if isinstance(st, ast.While) else st.iter
            if self.may_raise(hdr) or not isinstance(st, ast.While):
                self._raise_from(t, ctx)
            loop = {'head': t, 'breaks': []}
            ctx2 = dict(ctx, loops=ctx['loops'] + [loop])
            bt = self._new('branch', st, 'T')
            self._edge(t, bt)
            body_out = self._block(st.body, [bt], ctx2)
            self._link(body_out, t)
            infinite = isinstance(st, ast.While) and isinstance(st.test, ast.Constant) and bool(st.test.value)
            if infinite:
                after = []
            else:
                bf = self._new('branch', st, 'F')
                self._edge(t, bf)
                after = [bf]
            if st.orelse:
                after = self._block(st.orelse, after, ctx)
            return after + loop['breaks']
        if isinstance(st, (ast.With, ast.AsyncWith)):
            t = self._new('test', st)
            self._link(preds, t)
            self._raise_from(t, ctx)
            return self._block(st.body, [t], ctx)
        if isinstance(st, ast.Try):
            return self._try(st, preds, ctx)
        if isinstance(st, ast.Return):
            n = self._new('return', st)
            self._link(preds, n)
            if self.may_raise(st.value):
                self._raise_from(n, ctx)
            self._leave(n, ctx, 'return')
            return []
        if isinstance(st, ast.Raise):
            n = self._new('raise_stmt', st)
            self._link(preds, n)
            for t in ctx['exc']:
                self._edge(n, t)
            return []
        if isinstance(st, ast.Break):
            n = self._new('break', st)
            self._link(preds, n)
            self._leave(n, ctx, 'break')
            return []
        if isinstance(st, ast.Continue):
            n = self._new('continue', st)
            self._link(preds, n)
            self._leave(n, ctx, 'continue')
            return []
        n = self._new('stmt', st)
        self._link(preds, n)
        if is_exit_call(st):
            for t in ctx['exc']:
                self._edge(n, t)
            return []
        if self.may_raise(st):
            self._raise_from(n, ctx)
        return [n]

    def _leave(self, n, ctx, how):
        """return / break / continue, running enclosing finally blocks first."""
        cur = [n]
        fins = ctx['finally']
        # finally blocks are recorded with the loop depth at which they were entered
        depth = len(ctx['loops'])
        for fin in reversed(fins):
            if how in ('break', 'continue') and fin['loop_depth'] < depth:
                break
            cur = self._block(fin['body'], cur, fin['ctx'])
        if how == 'return':
            self._link(cur, self.exit)
        elif how == 'break':
            if not ctx['loops']:
                raise AnalysisError('break outside loop')
            ctx['loops'][-1]['breaks'].extend(cur)
        else:
            if not ctx['loops']:
                raise AnalysisError('continue outside loop')
            self._link(cur, ctx['loops'][-1]['head'])

    def _try(self, st, preds, ctx):
        outer_exc = ctx['exc']
        # exceptional continuation after the finally body (or directly outward)
        if st.finalbody:
            fin_exc_entry = self._new('finally_exc', st, 'finally(exc)')
            fin_out = self._block(st.finalbody, [fin_exc_entry], ctx)
            for p in fin_out:
                for t in outer_exc:
                    self._edge(p, t)
            outward = [fin_exc_entry]
        else:
            outward = outer_exc
        handler_entries = []
        catch_all = False
        for h in st.handlers:
            hn = self._new('handler', h)
            handler_entries.append(hn)
            if h.type is None or unparse(h.type) == 'BaseException':
                catch_all = True
        body_exc = handler_entries + ([] if catch_all else outward)
        fin_rec = {'body': st.finalbody, 'ctx': ctx, 'loop_depth': len(ctx['loops'])} if st.finalbody else None
        fins = ctx['finally'] + ([fin_rec] if fin_rec else [])
        body_ctx = dict(ctx, exc=body_exc, **{'finally': fins})
        mark = self._new('try', st, 'try')
        self._link(preds, mark)
        out = self._block(st.body, [mark], body_ctx)
        if st.orelse:
            else_ctx = dict(ctx, exc=outward, **{'finally': fins})
            out = self._block(st.orelse, out, else_ctx)
        h_ctx = dict(ctx, exc=outward, **{'finally': fins})
        for h, hn in zip(st.handlers, handler_entries):
            out = out + self._block(h.body, [hn], h_ctx)
        if st.finalbody:
            out = self._block(st.finalbody, out, ctx)
        return out

    # -- queries -----------------------------------------------------------------------------
    def nodes_of(self, stmt, kinds=None):
        ns = self._by_stmt.get(id(stmt), [])
        if kinds is None:
            return [n for n in ns if n.kind != 'branch']
        return [n for n in ns if n.kind in kinds]

    def branch(self, stmt, polarity):
        return [n for n in self._by_stmt.get(id(stmt), []) if n.kind == 'branch' and n.label == ('T' if polarity else 'F')]

    def reachable(self, starts, avoid=(), forward=True):
        avoid = set(avoid)
        seen = set()
        stack = [s for s in starts if s not in avoid]
        while stack:
            n = stack.pop()
            if n in seen:
                continue
            seen.add(n)
            for m in (n.succ if forward else n.pred):
                if m not in seen and m not in avoid:
                    stack.append(m)
        return seen

    def path_exists(self, starts, targets, avoid=()):
        r = self.reachable(starts, avoid)
        return any(t in r for t in targets)

    def always_before(self, target_nodes, gate_nodes):
        """Every path from ENTRY to any target passes through a gate node."""
        r = self.reachable([self.entry], avoid=gate_nodes)
        return not any(t in r for t in target_nodes)

    def always_after(self, source_nodes, gate_nodes, exits=None):
        """Every path from any source node to an exit passes through a gate node."""
        exits = exits if exits is not None else [self.exit, self.raise_exit]
        starts = set()
        for s in source_nodes:
            starts |= s.succ
        r = self.reachable(starts, avoid=gate_nodes)
        return not any(e in r for e in exits)

    def find_path(self, starts, targets, avoid=()):
        """A shortest path (list of nodes) from starts to any target avoiding `avoid`, or None."""
        from collections import deque
        avoid = set(avoid)
        targets = set(targets)
        q = deque()
        prev = {}
        for s in starts:
            if s not in avoid:
                q.append(s)
                prev[s] = None
        while q:
            n = q.popleft()
            if n in targets:
                path = []
                while n is not None:
                    path.append(n)
                    n = prev[n]
                return list(reversed(path))
            for m in n.succ:
                if m not in prev and m not in avoid:
                    prev[m] = n
                    q.append(m)
        return None

    def stmts_matching(self, pred):
        return [n for n in self.nodes if n.stmt is not None and n.kind not in ('finally_exc', 'try', 'branch') and pred(n.stmt)]


def describe_path(path, limit=12):
    out = []
    for n in path:
        if n.stmt is None:
            out.append(n.label)
        else:
            ln = getattr(n.stmt, 'lineno', '?')
            if n.kind == 'test':
                from .core import stmt_text
                out.append('L%s %s' % (ln, stmt_text(n.stmt)[:70]))
            elif n.kind in ('handler',):
                out.append('L%s except %s' % (ln, unparse(n.stmt.type) if n.stmt.type is not None else ''))
            elif n.kind in ('try', 'finally_exc'):
                out.append('L%s %s' % (ln, n.label))
            elif n.kind == 'branch':
                out.append('[%s]' % ('then' if n.label == 'T' else 'else'))
            else:
                out.append('L%s %s' % (ln, unparse(n.stmt)[:70]))
    if len(out) > limit:
        out = out[:limit // 2] + ['...'] + out[-limit // 2:]
    return out
