"""Alpha-normalisation of local variable names against a reference snapshot.

Many rules name local variables of the analysed functions (they were written against a particular tree).  Renaming
a local variable is behaviour-preserving, so before any rule runs the loader aligns every function with the reference
shape recorded in reference_shapes.json (statement shapes with local names abstracted away), infers the renaming of
locals from the statements that still match, and renames the locals of the *current* AST back to the reference
names.  Only bijective, conflict-free renamings of genuine locals (not parameters, not names captured by nested
scopes) are applied; everything else is left untouched.  Line numbers are unaffected.
"""
import ast
import difflib
import json
import os

REF_PATH = os.path.join(os.path.dirname(os.path.abspath(__file__)), 'reference_shapes.json')


def _own_nodes(node):
    """DFS in field order over a function's own scope (nested defs / lambdas / classes are skipped)."""
    for ch in ast.iter_child_nodes(node):
        if isinstance(ch, (ast.FunctionDef, ast.AsyncFunctionDef, ast.Lambda, ast.ClassDef)):
            continue
        yield ch
        yield from _own_nodes(ch)


def local_names(func):
    params = {a.arg for a in func.args.posonlyargs + func.args.args + func.args.kwonlyargs}
    if func.args.vararg:
        params.add(func.args.vararg.arg)
    if func.args.kwarg:
        params.add(func.args.kwarg.arg)
    declared, nested = set(), set()
    for n in ast.walk(func):
        if isinstance(n, (ast.Global, ast.Nonlocal)):
            declared |= set(n.names)
        if n is not func and isinstance(n, (ast.FunctionDef, ast.AsyncFunctionDef, ast.Lambda)):
            for x in ast.walk(n):
                if isinstance(x, ast.Name):
                    nested.add(x.id)
    loc = set()
    for n in _own_nodes(func):
        if isinstance(n, ast.Name) and isinstance(n.ctx, ast.Store):
            loc.add(n.id)
    return {x for x in loc - params - declared - nested if not x.startswith('__')}


def _header(st):
    """The part of a statement that belongs to it alone (compound statements: their header expressions)."""
    if isinstance(st, ast.If):
        return [st.test]
    if isinstance(st, ast.While):
        return [st.test]
    if isinstance(st, (ast.For, ast.AsyncFor)):
        return [st.target, st.iter]
    if isinstance(st, (ast.With, ast.AsyncWith)):
        return list(st.items)
    if isinstance(st, ast.Try):
        return []
    if isinstance(st, ast.ExceptHandler):
        return [st.type] if st.type is not None else []
    return [st]


def _names_in(parts, locs):
    out = []

    def rec(n):
        if isinstance(n, (ast.FunctionDef, ast.AsyncFunctionDef, ast.Lambda, ast.ClassDef)):
            return
        if isinstance(n, ast.Name) and n.id in locs:
            out.append(n)
        for ch in ast.iter_child_nodes(n):
            rec(ch)
    for p in parts:
        rec(p)
    return out


def _dump(n, locs):
    """Structural dump of an AST fragment with local names abstracted to '_' (own scope only)."""
    if isinstance(n, ast.Name):
        return 'Name(%s)' % ('_' if n.id in locs else n.id)
    if isinstance(n, (ast.FunctionDef, ast.AsyncFunctionDef, ast.ClassDef)):
        return '%s(%s)' % (type(n).__name__, n.name)
    if isinstance(n, ast.AST):
        parts = []
        for f, v in ast.iter_fields(n):
            if f in ('ctx', 'type_comment', 'kind'):
                continue
            parts.append(_dump(v, locs))
        return '%s(%s)' % (type(n).__name__, ','.join(parts))
    if isinstance(n, list):
        return '[%s]' % ','.join(_dump(x, locs) for x in n)
    return repr(n)


def _shape(parts, locs, kind):
    return kind + '|' + '|'.join(_dump(p, locs) for p in parts)


def statements(func):
    out = []
    for n in _own_nodes(func):
        if isinstance(n, (ast.stmt, ast.ExceptHandler)):
            out.append(n)
    return out


def signature(func):
    locs = local_names(func)
    sig = []
    for st in statements(func):
        parts = _header(st)
        sig.append((_shape(parts, locs, type(st).__name__), [n.id for n in _names_in(parts, locs)]))
    return sig


def build_reference(repo):
    ref = {}
    for (m, q), f in repo.all_funcs().items():
        ref['%s:%s' % (m, q)] = signature(f)
    return ref


def normalise(repo):
    """Rename locals of the current tree to the reference names where the renaming can be inferred.  Returns
    {function id: {current: reference}} for the evidence."""
    if os.environ.get('VERIF_NO_NORMALISE') == '1' or not os.path.exists(REF_PATH):
        return {}
    with open(REF_PATH) as f:
        ref = json.load(f)
    applied = {}
    for (m, q), func in repo.all_funcs().items():
        key = '%s:%s' % (m, q)
        if key not in ref:
            continue
        locs = local_names(func)
        if not locs:
            continue
        cur_sts = statements(func)
        cur_sig = []
        for st in cur_sts:
            parts = _header(st)
            cur_sig.append((_shape(parts, locs, type(st).__name__), _names_in(parts, locs)))
        rsig = ref[key]
        sm = difflib.SequenceMatcher(a=[s for s, _ in rsig], b=[s for s, _ in cur_sig], autojunk=False)
        votes = {}
        for blk in sm.get_matching_blocks():
            for k in range(blk.size):
                rnames = rsig[blk.a + k][1]
                cnodes = cur_sig[blk.b + k][1]
                if len(rnames) != len(cnodes):
                    continue
                for rn, cn in zip(rnames, cnodes):
                    votes.setdefault(cn.id, {}).setdefault(rn, 0)
                    votes[cn.id][rn] += 1
        mapping = {}
        for cn, d in votes.items():
            best = sorted(d.items(), key=lambda kv: -kv[1])
            if len(best) > 1 and best[0][1] == best[1][1]:
                continue            # ambiguous
            if best[0][0] != cn:
                mapping[cn] = best[0][0]
        if not mapping:
            continue
        # injective, and no clash with a current local that keeps its name
        targets = list(mapping.values())
        mapping = {c: r for c, r in mapping.items() if targets.count(r) == 1}
        stay = locs - set(mapping)
        mapping = {c: r for c, r in mapping.items() if r not in stay}
        ref_locals = {n for _, ns in rsig for n in ns}
        mapping = {c: r for c, r in mapping.items() if r in ref_locals and c not in ref_locals or (r in ref_locals and votes.get(c, {}).get(c, 0) == 0)}
        if not mapping:
            continue
        for n in _own_nodes(func):
            if isinstance(n, ast.Name) and n.id in mapping:
                n.id = mapping[n.id]
        applied[key] = mapping
    return applied
