"""Forking abstract interpreter for straight-line / branching / list-iterating function bodies.

Domain: ordinary Python scalars, and lists / sets / tuples of *symbolic tokens* (strings standing for "every element
of that class the peer offered").  The analysed code is never executed: statements are interpreted from the AST,
calls are resolved by the caller-supplied `call_hook` (which models the repository's helper functions by the
summaries other rules establish) and anything the interpreter does not understand becomes Opaque.  An Opaque
condition forks both ways; an Opaque iterable whose loop body could have an observable effect raises Unknown
(-> ANALYSIS-ERROR, never a pass).  Effects (calls the hook marks as effects) are recorded per path.

run(body, env) -> list of final environments; env['<effects>'] is the list of recorded effects,
env['<return>'] the returned value (if the path returned).
"""
import ast
import copy

from .core import unparse, loc, stmt_text
from .abseval import ev, Unknown, Opaque, _BIN


class Crash(Unknown):
    """The interpreted statement indexes a concrete container with a key / position it does not have: on this path the real code raises."""


class Lam:
    """a lambda expression met during interpretation, with the environment it closes over"""
    def __init__(self, node, env):
        self.node = node
        self.env = env

    def __deepcopy__(self, memo):
        return self


def _own_nodes(func):
    """nodes of a function body, not descending into nested functions / lambdas / classes"""
    stack = list(func.body)
    while stack:
        x = stack.pop()
        yield x
        for ch in ast.iter_child_nodes(x):
            if not isinstance(ch, (ast.FunctionDef, ast.AsyncFunctionDef, ast.Lambda, ast.ClassDef)):
                stack.append(ch)


class Record:
    """an instance of an immutable record class of the repository (typing.NamedTuple subclass): fields by name, iterable in field order"""
    def __init__(self, cls, fields):
        self.cls = cls
        self.fields = fields

    def __repr__(self):
        return '<%s %s>' % (self.cls.name, self.fields)

    def __deepcopy__(self, memo):
        return self

    def __iter__(self):
        return iter(self.fields.values())

    def __len__(self):
        return len(self.fields)

    def __getitem__(self, i):
        return list(self.fields.values())[i]


_GLOBALS = {}
_RECORD_CLASSES = {}


class Builtin:
    """a pure function of the standard library as a first-class value (operator.lt ...), applied by the interpreter to computable arguments only"""
    def __init__(self, name, fn):
        self.name = name
        self.fn = fn

    def __repr__(self):
        return '<%s>' % self.name

    def __deepcopy__(self, memo):
        return self


import operator as _op      # noqa: E402
_OPERATOR = {k: getattr(_op, k) for k in ('lt', 'le', 'eq', 'ne', 'ge', 'gt', 'add', 'sub', 'mul', 'floordiv', 'mod', 'and_', 'or_', 'xor', 'not_', 'neg', 'contains', 'is_', 'is_not', 'truth', 'getitem')}


class FuncRef:
    """a reference to a repository function obtained by attribute access (cls.helper passed as a callback)"""
    def __init__(self, func, bound):
        self.func = func
        self.bound = bound

    def __deepcopy__(self, memo):
        return self


class Interp:
    fallback_resolver = None      # set by core.Repo: calls of functions a change introduced are interpreted in place

    def __init__(self, call_hook=None, effect_names=(), budget=20000, resolver=None, depth=0, store_effects=(), attr_hook=None, try_normal_path=False, with_targets=False):
        """call_hook(call_node, args, env) -> (True, value) | None.  effect_names: callee names whose calls are
        observable effects (recorded with evaluated args)."""
        self.call_hook = call_hook
        self.effect_names = set(effect_names)
        self.budget = budget
        self.steps = 0
        self.nodes = []         # effect statements, referenced by index from environments (kept out of deepcopy)
        self.resolver = resolver    # resolver(call node) -> FunctionDef of a repository helper to interpret in place (same receiver), or None
        self.store_effects = set(store_effects)   # attribute texts whose assignments are observable effects, recorded in order as ('store', (text, value), node)
        self.depth = depth
        self._seen_calls = set()
        self.with_targets = with_targets        # bind `with E as name` targets to the value of E (context managers that return themselves)
        self.try_normal_path = try_normal_path      # interpret `try` statements along their no-exception path (body, else, finally); handlers are not entered
        self.attr_hook = attr_hook      # attr_hook(base value, attribute name, interp) -> (True, value) | None, for attribute loads whose text is not an environment fact

    # ---------------------------------------------------------------- expressions
    def value(self, node, env):
        def hook(n):
            if isinstance(n, ast.Name) and n.id in env:
                return (True, env[n.id])
            if isinstance(n, ast.Call):
                r = self._call(n, env)
                if r is not None:
                    return r
            if isinstance(n, ast.Attribute) and isinstance(n.value, ast.Name) and n.value.id == 'operator' and 'operator' not in env and n.attr in _OPERATOR:
                return (True, Builtin('operator.' + n.attr, _OPERATOR[n.attr]))
            if isinstance(n, ast.Name) and isinstance(n.ctx, ast.Load) and n.id not in env:
                g = self._global_const(n)
                if g is not None:
                    return g
            if isinstance(n, ast.Attribute) and isinstance(n.ctx, ast.Load) and unparse(n) not in env and isinstance(n.value, ast.Name):
                bv = env.get(n.value.id)
                if bv is None and n.value.id not in env:
                    g = self._global_const(n.value)
                    bv = g[1] if g is not None else None
                if isinstance(bv, Record) and n.attr in bv.fields:
                    return (True, bv.fields[n.attr])
            if self.attr_hook is not None and isinstance(n, ast.Attribute) and isinstance(n.ctx, ast.Load) and unparse(n) not in env:
                try:
                    base = ev(n.value, env, hook)
                except Unknown:
                    base = None
                if base is not None:
                    r = self.attr_hook(base, n.attr, self)
                    if r is not None:
                        return r
            if isinstance(n, (ast.ListComp, ast.SetComp, ast.DictComp, ast.GeneratorExp)) and not any(g.is_async for g in n.generators):
                out = {} if isinstance(n, ast.DictComp) else []

                def gen(k, e1):
                    if k == len(n.generators):
                        if isinstance(n, ast.DictComp):
                            out[self.value(n.key, e1)] = self.value(n.value, e1)
                        else:
                            out.append(self.value(n.elt, e1))
                        return
                    g = n.generators[k]
                    seq = self.value(g.iter, e1)
                    if isinstance(seq, Opaque) or (isinstance(seq, str) and len(seq) > 256):
                        raise Unknown('comprehension over an uncomputable sequence')
                    if isinstance(seq, set):
                        seq = sorted(seq, key=repr)
                    for x in list(seq):
                        e2 = dict(e1)
                        self._assign(g.target, x, e2)
                        if all(self.value(c, e2) for c in g.ifs):
                            gen(k + 1, e2)
                gen(0, env)
                return (True, set(out) if isinstance(n, ast.SetComp) else out)
            if isinstance(n, ast.Lambda):
                return (True, Lam(n, env))
            if self.resolver is not None and isinstance(n, ast.Name) and isinstance(n.ctx, ast.Load) and n.id not in env and not (isinstance(getattr(n, '_parent', None), ast.Call) and n._parent.func is n):
                callee = self.resolver(ast.Call(func=n, args=[], keywords=[]))
                if callee is not None:
                    return (True, FuncRef(callee, False))
            if self.resolver is not None and isinstance(n, ast.Attribute) and isinstance(n.ctx, ast.Load) and unparse(n) not in env and isinstance(n.value, ast.Name) and not (isinstance(getattr(n, '_parent', None), ast.Call) and n._parent.func is n):
                callee = self.resolver(ast.Call(func=n, args=[], keywords=[]))
                if callee is not None:
                    static = any(isinstance(d, ast.Name) and d.id == 'staticmethod' for d in callee.decorator_list)
                    return (True, FuncRef(callee, not static))
            if isinstance(n, ast.Dict):
                d = {}
                for k, v in zip(n.keys, n.values):
                    if k is None:
                        inner = ev(v, env, hook)
                        if not isinstance(inner, dict):
                            raise Unknown('** of a value that is not a computable dict')
                        d.update(inner)
                    else:
                        d[ev(k, env, hook)] = ev(v, env, hook)
                return (True, d)
            if isinstance(n, ast.JoinedStr):
                s = ''
                for p in n.values:
                    if isinstance(p, ast.Constant):
                        s += str(p.value)
                    else:
                        s += str(ev(p.value, env, hook))
                return (True, s)
            if isinstance(n, ast.Set):
                return (True, set(ev(e, env, hook) for e in n.elts))
            return None
        try:
            v = ev(node, env, hook)
        except Unknown:
            raise
        except (KeyError, IndexError) as ex:
            raise Crash('%s raises %s (%s)' % (unparse(node)[:70], type(ex).__name__, loc(node)))
        except (TypeError, AttributeError, ValueError) as ex:
            raise Unknown('abstract evaluation of %s failed on an uncomputable operand (%s)' % (unparse(node)[:60], type(ex).__name__))
        return v

    def _touch(self, node, env):
        """Give the hook a chance to see calls nested inside an expression the interpreter could not evaluate as a whole (arguments of an unknown callee):
        inner calls first, each at most once per statement, not inside comprehensions / lambdas (their variables are not bound here)."""
        def rec(n):
            if isinstance(n, (ast.ListComp, ast.SetComp, ast.DictComp, ast.GeneratorExp, ast.Lambda)):
                return
            for ch in ast.iter_child_nodes(n):
                rec(ch)
            if isinstance(n, ast.Call) and id(n) not in self._seen_calls:
                try:
                    self.value(n, env)
                except Crash:
                    raise
                except Unknown:
                    pass
        rec(node)

    def _call(self, n, env):
        fn = n.func
        hook_args = None
        self._seen_calls.add(id(n))
        if self.call_hook is not None:
            r = self.call_hook(n, env, self)
            if r is not None:
                return r
        rc = self._record_class(n) if isinstance(fn, ast.Name) and fn.id not in env else None
        if rc is not None:
            names, defaults = [], {}
            for st_ in rc.body:
                if isinstance(st_, ast.AnnAssign) and isinstance(st_.target, ast.Name):
                    names.append(st_.target.id)
                    if st_.value is not None:
                        defaults[st_.target.id] = st_.value
            if len(n.args) <= len(names) and all(k.arg in names for k in n.keywords):
                fields = {}
                for nm_, a_ in zip(names, n.args):
                    fields[nm_] = self.value(a_, env)
                for k in n.keywords:
                    fields[k.arg] = self.value(k.value, env)
                for nm_ in names:
                    if nm_ not in fields:
                        if nm_ not in defaults:
                            raise Unknown('record %s constructed without %s' % (rc.name, nm_))
                        fields[nm_] = self.value(defaults[nm_], {})
                return (True, Record(rc, {nm_: fields[nm_] for nm_ in names}))
        if isinstance(fn, ast.Attribute) and isinstance(fn.value, ast.Name) and not n.keywords:
            bv = env.get(fn.value.id)
            if bv is None and fn.value.id not in env:
                g_ = self._global_const(fn.value)
                bv = g_[1] if g_ is not None else None
            if isinstance(bv, Record):
                if fn.attr in bv.fields and isinstance(bv.fields[fn.attr], Lam):
                    lam = bv.fields[fn.attr]
                    ps = [a.arg for a in lam.node.args.args]
                    if len(ps) == len(n.args):
                        e2 = dict(lam.env)
                        for p_, a_ in zip(ps, n.args):
                            e2[p_] = self.value(a_, env)
                        return (True, self.value(lam.node.body, e2))
                meth = next((st_ for st_ in bv.cls.body if isinstance(st_, ast.FunctionDef) and st_.name == fn.attr), None)
                if meth is not None and self.depth < 4:
                    return (True, self._inline(n, meth, env, receiver=bv))
        if not n.keywords and ((isinstance(fn, ast.Name) and isinstance(env.get(fn.id), Builtin)) or (isinstance(fn, ast.Attribute) and isinstance(fn.value, ast.Name) and fn.value.id == 'operator' and 'operator' not in env and fn.attr in _OPERATOR)):
            b_ = env[fn.id] if isinstance(fn, ast.Name) else Builtin('operator.' + fn.attr, _OPERATOR[fn.attr])
            args_ = [self.value(a_, env) for a_ in n.args]
            if any(isinstance(a_, Opaque) for a_ in args_):
                raise Unknown('%s of a value that is not computable (%s)' % (b_.name, loc(n)))
            try:
                return (True, b_.fn(*args_))
            except Exception as ex:      # noqa: BLE001
                raise Unknown('%s%r raises %s' % (b_.name, tuple(args_)[:2], type(ex).__name__))
        if isinstance(fn, ast.Name) and isinstance(env.get(fn.id), Lam) and not n.keywords:
            lam = env[fn.id]
            ps = [a.arg for a in lam.node.args.args]
            if len(ps) == len(n.args):
                e2 = dict(lam.env)
                for p_, a_ in zip(ps, n.args):
                    e2[p_] = self.value(a_, env)
                return (True, self.value(lam.node.body, e2))
        if isinstance(fn, ast.Name) and isinstance(env.get(fn.id), FuncRef) and self.depth < 3:
            ref = env[fn.id]
            fake = ast.Call(func=ast.Attribute(value=ast.Name(id='cls', ctx=ast.Load()), attr=ref.func.name, ctx=ast.Load()) if ref.bound else ast.Name(id=ref.func.name, ctx=ast.Load()), args=n.args, keywords=n.keywords)
            return (True, self._inline(fake, ref.func, env))
        if isinstance(fn, ast.Name) and fn.id in ('max', 'min') and len(n.args) == 1 and len(n.keywords) == 1 and n.keywords[0].arg == 'key' and isinstance(n.keywords[0].value, ast.Name) and n.keywords[0].value.id == 'len':
            seq = self.value(n.args[0], env)
            if isinstance(seq, (list, tuple)) and seq and all(isinstance(x, (str, list, tuple)) for x in seq):
                return (True, (max if fn.id == 'max' else min)(seq, key=len))
            raise Unknown('%s(key=len) over an uncomputable or empty sequence (%s)' % (fn.id, loc(n)))
        if isinstance(fn, ast.Name) and fn.id == 'sorted' and len(n.args) == 1 and n.keywords and all(k.arg in ('key', 'reverse') for k in n.keywords):
            seq = self.value(n.args[0], env)
            if isinstance(seq, (list, tuple)):
                keyf, rev = None, False
                for k in n.keywords:
                    if k.arg == 'reverse':
                        rev = self.value(k.value, env)
                        if not isinstance(rev, bool):
                            raise Unknown('sorted(reverse=<uncomputable>) (%s)' % loc(n))
                    elif isinstance(k.value, ast.Call) and unparse(k.value.func) in ('operator.itemgetter', 'itemgetter') and len(k.value.args) == 1:
                        idx = self.value(k.value.args[0], env)
                        keyf = lambda x, idx=idx: x[idx]        # noqa: E731
                    else:
                        kv = self.value(k.value, env)
                        if isinstance(kv, Lam) and len(kv.node.args.args) == 1:
                            keyf = lambda x, kv=kv: self.value(kv.node.body, dict(kv.env, **{kv.node.args.args[0].arg: x}))      # noqa: E731
                        else:
                            raise Unknown('sorted(key=<uncomputable>) (%s)' % loc(n))
                return (True, sorted(seq, key=keyf, reverse=rev))
        tname = ''
        if isinstance(fn, ast.Name) and fn.id in ('zip_longest', 'chain', 'attrgetter', 'itemgetter'):
            tname = fn.id
        elif isinstance(fn, ast.Attribute) and fn.attr in ('zip_longest', 'chain', 'from_iterable', 'attrgetter', 'itemgetter'):
            tname = unparse(fn)
        if tname in ('itertools.zip_longest', 'zip_longest') and n.args and all(k.arg == 'fillvalue' for k in n.keywords):
            seqs = [self.value(a, env) for a in n.args]
            fill = self.value(n.keywords[0].value, env) if n.keywords else None
            if all(isinstance(q, (list, tuple)) for q in seqs):
                import itertools as _it
                return (True, [tuple(t_) for t_ in _it.zip_longest(*seqs, fillvalue=fill)])
            raise Unknown('zip_longest over an uncomputable sequence (%s)' % loc(n))
        if tname in ('itertools.chain', 'chain') and not n.keywords:
            seqs = [self.value(a, env) for a in n.args]
            if all(isinstance(q, (list, tuple)) for q in seqs):
                return (True, [x_ for q in seqs for x_ in q])
            raise Unknown('chain over an uncomputable sequence (%s)' % loc(n))
        if tname in ('itertools.chain.from_iterable', 'chain.from_iterable') and len(n.args) == 1 and not n.keywords:
            seq = self.value(n.args[0], env)
            if isinstance(seq, (list, tuple)) and all(isinstance(q, (list, tuple)) for q in seq):
                return (True, [x_ for q in seq for x_ in q])
            raise Unknown('chain.from_iterable over an uncomputable sequence (%s)' % loc(n))
        if tname in ('operator.attrgetter', 'attrgetter', 'operator.itemgetter', 'itemgetter') and len(n.args) == 1 and not n.keywords and not (isinstance(getattr(n, '_parent', None), ast.keyword)):
            a0 = self.value(n.args[0], env)
            if tname.endswith('attrgetter') and isinstance(a0, str) and all(p_.isidentifier() for p_ in a0.split('.')):
                return (True, Lam(ast.parse('lambda _o: _o.%s' % a0, mode='eval').body, {}))
            if tname.endswith('itemgetter') and isinstance(a0, (int, str)):
                return (True, Lam(ast.parse('lambda _o: _o[%r]' % (a0,), mode='eval').body, {}))
        if isinstance(fn, ast.Name) and fn.id == 'map' and len(n.args) == 2 and not n.keywords:
            fobj = self.value(n.args[0], env)
            seq = self.value(n.args[1], env)
            if isinstance(seq, str) and len(seq) <= 256:
                seq = list(seq)
            if isinstance(seq, (list, tuple)) and isinstance(fobj, (FuncRef, Lam)) and all(isinstance(x, (str, int, bytes, bool, type(None))) for x in seq):
                out = []
                for x in seq:
                    arg = ast.copy_location(ast.Constant(value=x), n)
                    if isinstance(fobj, Lam):
                        ps = [a.arg for a in fobj.node.args.args]
                        if len(ps) != 1:
                            raise Unknown('map() with a lambda of %d parameters' % len(ps))
                        e2 = dict(fobj.env)
                        e2[ps[0]] = x
                        out.append(self.value(fobj.node.body, e2))
                    else:
                        fake = ast.Call(func=ast.Attribute(value=ast.Name(id='cls', ctx=ast.Load()), attr=fobj.func.name, ctx=ast.Load()) if fobj.bound else ast.Name(id=fobj.func.name, ctx=ast.Load()), args=[arg], keywords=[])
                        out.append(self._inline(fake, fobj.func, env))
                return (True, out)
            raise Unknown('map() over an uncomputable function or sequence (%s)' % loc(n))
        if isinstance(fn, ast.Name) and fn.id == 'getattr' and 2 <= len(n.args) <= 3 and not n.keywords:
            try:
                nm = self.value(n.args[1], env)
            except Unknown:
                nm = None
            if isinstance(nm, str) and nm.isidentifier():
                fake = ast.Attribute(value=n.args[0], attr=nm, ctx=ast.Load())
                ast.copy_location(fake, n)
                try:
                    return (True, self.value(fake, env))
                except Crash:
                    raise
                except Unknown:
                    if len(n.args) == 3:
                        return (True, self.value(n.args[2], env))
        if isinstance(fn, ast.Name) and fn.id in ('ord', 'chr') and len(n.args) == 1:
            v = self.value(n.args[0], env)
            if fn.id == 'ord' and isinstance(v, (str, bytes)) and len(v) == 1:
                return (True, ord(v))
            if fn.id == 'chr' and isinstance(v, int):
                return (True, chr(v))
        if isinstance(fn, ast.Name) and fn.id == 'bytearray' and not n.args:
            return (True, [])          # a growing byte string is modelled as the list of its byte values
        if isinstance(fn, ast.Attribute) and fn.attr == 'decode' and n.args:
            try:
                base = self.value(fn.value, env)
            except Unknown:
                base = None
            if isinstance(base, list) and all(isinstance(x, int) and 0 <= x < 256 for x in base):
                return (True, bytes(base).decode(*[self.value(a, env) for a in n.args]))
            if isinstance(base, (bytes, bytearray)):        # (not evaluated twice: the receiver may be a stream read of a model)
                return (True, bytes(base).decode(*[self.value(a, env) for a in n.args]))
        if self.resolver is not None and self.depth < 3:
            callee = self.resolver(n)
            if callee is not None:
                return (True, self._inline(n, callee, env))
        if self.fallback_resolver is not None and self.depth < 4:
            callee = self.fallback_resolver(n)
            if callee is not None:
                return (True, self._inline(n, callee, env))
        if isinstance(fn, ast.Attribute) and fn.attr == 'join' and len(n.args) == 1:
            sep = self.value(fn.value, env)
            seq = self.value(n.args[0], env)
            if isinstance(sep, str) and isinstance(seq, (list, tuple)) and all(isinstance(x, str) for x in seq):
                return (True, sep.join(seq))
            if isinstance(sep, bytes) and isinstance(seq, (list, tuple)) and all(isinstance(x, (bytes, bytearray)) for x in seq):
                return (True, sep.join(seq))
            if isinstance(sep, str) and isinstance(seq, set) and all(isinstance(x, str) for x in seq):
                return (True, sep.join(sorted(seq)))
            raise Unknown('join over a value that is not a list of names (%s)' % loc(n))
        if isinstance(fn, ast.Attribute) and fn.attr == 'format':
            base = self.value(fn.value, env)
            if isinstance(base, str):
                args = [self.value(a, env) for a in n.args]
                kws = {k.arg: self.value(k.value, env) for k in n.keywords}
                if any(isinstance(a, Opaque) for a in args) or any(isinstance(a, Opaque) for a in kws.values()):
                    raise Unknown('format() of a value that is not computable (%s)' % loc(n))
                return (True, base.format(*args, **kws))
        if isinstance(fn, ast.Name) and fn.id == 'dict' and len(n.args) <= 1 and all(k.arg is not None for k in n.keywords):
            base = {}
            if n.args:
                src = self.value(n.args[0], env)
                if isinstance(src, dict):
                    base = dict(src)
                elif isinstance(src, (list, tuple)) and all(isinstance(p_, (list, tuple)) and len(p_) == 2 for p_ in src):
                    base = dict(src)
                else:
                    raise Unknown('dict() of a value that is not a computable mapping (%s)' % loc(n))
            for k in n.keywords:
                base[k.arg] = self.value(k.value, env)
            return (True, base)
        if isinstance(fn, ast.Attribute) and fn.attr == 'fromkeys' and isinstance(fn.value, ast.Name) and fn.value.id == 'dict' and 1 <= len(n.args) <= 2 and not n.keywords:
            seq = self.value(n.args[0], env)
            fill = self.value(n.args[1], env) if len(n.args) == 2 else None
            if isinstance(seq, (list, tuple)) and all(isinstance(x, (str, int, bytes, tuple)) for x in seq):
                return (True, dict.fromkeys(seq, fill))
            raise Unknown('dict.fromkeys() of an uncomputable sequence (%s)' % loc(n))
        if isinstance(fn, ast.Name) and fn.id == 'frozenset' and len(n.args) <= 1 and not n.keywords:
            if not n.args:
                return (True, set())
            seq = self.value(n.args[0], env)
            if isinstance(seq, (list, tuple, set, range)):
                return (True, set(seq))
            raise Unknown('frozenset() of an uncomputable value (%s)' % loc(n))
        if isinstance(fn, ast.Name) and fn.id in ('list', 'sorted', 'set', 'tuple', 'reversed') and len(n.args) <= 1 and not n.keywords:
            if not n.args:
                return (True, {'list': [], 'sorted': [], 'set': set(), 'tuple': (), 'reversed': []}[fn.id])
            seq = self.value(n.args[0], env)
            if type(seq).__name__ in ('dict_keys', 'dict_values', 'dict_items') or isinstance(seq, dict):
                seq = list(seq)
            if isinstance(seq, (list, tuple, set)):
                if fn.id == 'list':
                    return (True, list(seq))
                if fn.id == 'sorted':
                    return (True, sorted(seq))
                if fn.id == 'set':
                    return (True, set(seq))
                if fn.id == 'tuple':
                    return (True, tuple(seq))
                return (True, list(reversed(list(seq))))
        if isinstance(fn, ast.Name) and fn.id in ('any', 'all') and len(n.args) == 1:
            seq = self.value(n.args[0], env)
            if isinstance(seq, (list, tuple, set)) and not any(isinstance(x, Opaque) for x in seq):
                return (True, any(seq) if fn.id == 'any' else all(seq))
            raise Unknown('%s() over an uncomputable sequence (%s)' % (fn.id, loc(n)))
        if isinstance(fn, ast.Name) and fn.id == 'enumerate' and 1 <= len(n.args) <= 2:
            seq = self.value(n.args[0], env)
            start = self.value(n.args[1], env) if len(n.args) == 2 else 0
            for k in n.keywords:
                if k.arg == 'start':
                    start = self.value(k.value, env)
            if type(seq).__name__ in ('dict_keys', 'dict_values', 'dict_items') or isinstance(seq, dict):
                seq = list(seq)
            if isinstance(seq, (list, tuple)) and isinstance(start, int):
                return (True, [(i, x) for i, x in enumerate(seq, start)])
            raise Unknown('enumerate over an uncomputable sequence (%s)' % loc(n))
        if isinstance(fn, ast.Name) and fn.id == 'range' and 1 <= len(n.args) <= 3 and not n.keywords:
            args = [self.value(a, env) for a in n.args]
            if all(isinstance(a, int) and not isinstance(a, bool) for a in args) and len(range(*args)) <= 4096:
                return (True, list(range(*args)))
            raise Unknown('range with uncomputable bounds (%s)' % loc(n))
        if isinstance(fn, ast.Name) and fn.id == 'zip' and n.args and not n.keywords:
            seqs = [self.value(a, env) for a in n.args]
            if all(isinstance(q, (list, tuple)) for q in seqs):
                return (True, [tuple(t) for t in zip(*seqs)])
            raise Unknown('zip over uncomputable sequences (%s)' % loc(n))
        if isinstance(fn, ast.Name) and fn.id == 'next' and 1 <= len(n.args) <= 2 and not n.keywords and isinstance(n.args[0], (ast.GeneratorExp, ast.Call)):
            seq = self.value(n.args[0], env)
            if isinstance(seq, (list, tuple)):
                if seq:
                    return (True, seq[0])
                if len(n.args) == 2:
                    return (True, self.value(n.args[1], env))
            raise Unknown('next() over an uncomputable or exhausted sequence (%s)' % loc(n))
        if isinstance(fn, ast.Name) and fn.id == 'iter' and len(n.args) == 1:
            return (True, self.value(n.args[0], env))
        if isinstance(fn, ast.Name) and fn.id == 'isinstance' and len(n.args) == 2:
            v = self.value(n.args[0], env)
            kinds = {'str': str, 'int': int, 'bytes': bytes, 'list': list, 'dict': dict, 'bool': bool, 'tuple': tuple, 'set': set}
            ts = n.args[1].elts if isinstance(n.args[1], ast.Tuple) else [n.args[1]]
            if not isinstance(v, Opaque) and all(isinstance(t, ast.Name) and t.id in kinds for t in ts):
                return (True, isinstance(v, tuple(kinds[t.id] for t in ts)))
        if isinstance(fn, ast.Attribute) and fn.attr == 'copy' and not n.args:
            base = self.value(fn.value, env)
            if isinstance(base, (list, set)):
                return (True, base.copy())
        if isinstance(fn, ast.Attribute) and fn.attr in ('index', 'count') and len(n.args) == 1 and not n.keywords:
            try:
                base = self.value(fn.value, env)
            except Unknown:
                base = None
            if isinstance(base, (list, tuple)):
                a = self.value(n.args[0], env)
                if isinstance(a, Opaque):
                    raise Unknown('%s of an uncomputable element (%s)' % (fn.attr, loc(n)))
                if fn.attr == 'count':
                    return (True, base.count(a))
                if a not in base:
                    raise Crash('%s raises ValueError: %r is not in the list (%s)' % (unparse(n)[:60], a, loc(n)))
                return (True, base.index(a))
        if isinstance(fn, ast.Attribute) and fn.attr in ('setdefault', 'pop') and 1 <= len(n.args) <= 2 and not n.keywords:
            try:
                base = self.value(fn.value, env)
            except Unknown:
                base = None
            if isinstance(base, dict):
                args = [self.value(a, env) for a in n.args]
                if fn.attr == 'setdefault':
                    return (True, base.setdefault(args[0], args[1] if len(args) == 2 else None))
                if len(args) == 2 or args[0] in base:
                    return (True, base.pop(*args))
                raise Unknown('pop of a missing key from a tracked dict (%s)' % loc(n))
        return None

    def _global_const(self, name_node):
        """(True, value) for a module-level name of the analysed module whose defining expression the interpreter can evaluate (tables, records,
        lambdas); None otherwise.  Only names assigned exactly once at module level and never stored to elsewhere in the module."""
        mod = getattr(name_node, '_module', None)
        if mod is None or not hasattr(mod, 'tree'):
            return None
        key = (id(mod.tree), name_node.id)
        if key in _GLOBALS:
            return _GLOBALS[key]
        _GLOBALS[key] = None
        defs = [st for st in mod.tree.body if isinstance(st, (ast.Assign, ast.AnnAssign)) and any(isinstance(t, ast.Name) and t.id == name_node.id for t in (st.targets if isinstance(st, ast.Assign) else [st.target]))]
        if not defs:
            fdefs = [st for st in mod.tree.body if isinstance(st, ast.FunctionDef) and st.name == name_node.id and not st.decorator_list]
            if len(fdefs) == 1 and not (isinstance(getattr(name_node, '_parent', None), ast.Call) and name_node._parent.func is name_node):
                _GLOBALS[key] = (True, FuncRef(fdefs[0], False))       # a module-level function used as a value (stored in a table, passed as a callback)
                return _GLOBALS[key]
        if len(defs) != 1 or defs[0].value is None:
            return None
        for x in ast.walk(mod.tree):
            if isinstance(x, ast.Global) and name_node.id in x.names:
                return None
        try:
            v = Interp(depth=self.depth + 1, budget=5000).value(defs[0].value, {})
        except Unknown:
            return None
        if isinstance(v, Opaque):
            return None
        _GLOBALS[key] = (True, v)
        return _GLOBALS[key]

    @staticmethod
    def _record_class(call):
        """the NamedTuple class of the analysed module a call constructs, or None"""
        f = call.func
        mod = getattr(call, '_module', None)
        if not isinstance(f, ast.Name) or mod is None or not hasattr(mod, 'tree'):
            return None
        key = id(mod.tree)
        if key not in _RECORD_CLASSES:
            _RECORD_CLASSES[key] = {st.name: st for st in ast.walk(mod.tree) if isinstance(st, ast.ClassDef) and any(unparse(b).split('.')[-1] == 'NamedTuple' for b in st.bases)}
        return _RECORD_CLASSES[key].get(f.id)

    def _inline(self, call, callee, env, receiver=None):
        """Interpret a resolved helper in place: parameters bound to the evaluated arguments, `self.*` facts inherited.
        The helper must finish on a single path with a computable return value."""
        params = [a.arg for a in callee.args.args]
        params_all = list(params)
        skip_self = bool(params) and params[0] in ('self', 'cls') and isinstance(call.func, ast.Attribute)
        if skip_self and params[0] == 'self' and isinstance(call.func.value, ast.Name) and call.func.value.id not in ('self', 'cls') and call.func.value.id[:1].isupper() \
                and len(call.args) + len(call.keywords) >= len(params) - len(callee.args.defaults) and call.args and isinstance(call.args[0], ast.Name) and call.args[0].id == 'self':
            skip_self = False         # Class.method(self, ...): the receiver is passed explicitly
        if skip_self:
            params = params[1:]
        if isinstance(getattr(callee, '_parent', None), (ast.FunctionDef, ast.AsyncFunctionDef)) or isinstance(getattr(callee, '_func', None), (ast.FunctionDef, ast.AsyncFunctionDef)):
            # a nested function reads its enclosing function's variables (closure): it sees the caller's environment
            e2 = {k: v for k, v in env.items() if not (isinstance(k, str) and k.startswith('<'))}
        else:
            # facts about the receiver and about class-level names (Class.CONSTANT) stay valid inside the callee; the caller's locals do not
            e2 = {k: v for k, v in env.items() if isinstance(k, str) and (k in ('self', 'cls') or k.startswith('self.') or k.startswith('cls.') or (k[:1].isupper() and '.' in k))}
        defaults = callee.args.defaults
        supplied = set(params[:len(call.args)]) | {k.arg for k in call.keywords if k.arg}
        for p, d in zip(params[len(params) - len(defaults):], defaults):
            try:
                e2[p] = self.value(d, {})         # (a lambda default becomes a Lam closing over the empty environment)
            except Crash:
                raise
            except Unknown:
                if p in supplied:
                    continue                  # the default is not used by this call
                # a default naming a class-level constant of the callee's class (evaluated in the class body's scope)
                cls_ = getattr(callee, '_cls', None)
                scope = {}
                if cls_ is not None:
                    for st_ in cls_.body:
                        tg_ = st_.targets[0] if isinstance(st_, ast.Assign) and len(st_.targets) == 1 else (st_.target if isinstance(st_, ast.AnnAssign) and st_.value is not None else None)
                        if isinstance(tg_, ast.Name):
                            try:
                                scope[tg_.id] = Interp(depth=self.depth + 1, budget=5000).value(st_.value, dict(scope))
                            except Unknown:
                                pass
                e2[p] = self.value(d, scope)
        if len(call.args) > len(params):
            raise Unknown('call of %s with more arguments than parameters' % callee.name)
        for p, a in zip(params, call.args):
            e2[p] = self.value(a, env)
        for k in call.keywords:
            if k.arg is None or k.arg not in params:
                raise Unknown('call of %s with unsupported keyword' % callee.name)
            e2[k.arg] = self.value(k.value, env)
        missing = [p for p in params if p not in e2]
        if missing:
            raise Unknown('call of %s without a value for %s' % (callee.name, missing))
        if receiver is not None and params_all:
            e2[params_all[0]] = receiver
        sub = Interp(self.call_hook, self.effect_names, self.budget, self.resolver, self.depth + 1, self.store_effects, self.attr_hook, self.try_normal_path, self.with_targets)
        finals = sub.run(callee.body, e2)
        if len(finals) == 1 and finals[0].get('<crash>'):
            raise Crash(finals[0]['<crash>'])
        if len(finals) != 1 or finals[0].get('<forks>'):
            raise Unknown('helper %s does not evaluate on a single path here (forks: %s)' % (callee.name, [f.get('<forks>') for f in finals][:2]))
        fe = finals[0]
        if fe.get('<crash>'):
            raise Crash(fe['<crash>'])
        if fe.get('<outcome>') == 'raise':
            raise Unknown('helper %s raises on this path' % callee.name)
        # the callee ran on the caller's own receiver (self.helper(...)): attribute facts it (re)bound are the caller's facts afterwards
        if skip_self and isinstance(call.func, ast.Attribute) and isinstance(call.func.value, ast.Name) and call.func.value.id in ('self', 'cls'):
            rn = params_all[0] if params_all else 'self'
            for k2, v2 in fe.items():
                if isinstance(k2, str) and k2.startswith(rn + '.'):
                    env[call.func.value.id + k2[len(rn):]] = v2
        if not skip_self and params_all and params_all[0] == 'self' and call.args and isinstance(call.args[0], ast.Name) and call.args[0].id == 'self' and isinstance(call.func, ast.Attribute):
            # Class.method(self, ...): attribute facts the callee (re)bound on the explicitly passed receiver are the caller's facts afterwards
            for k2, v2 in fe.items():
                if isinstance(k2, str) and k2.startswith('self.'):
                    env[k2] = v2
        for nm, args, k in fe.get('<effects>', []):
            self.nodes.append(sub.nodes[k])
            env.setdefault('<effects>', []).append((nm, args, len(self.nodes) - 1))
        if any(isinstance(x, (ast.Yield, ast.YieldFrom)) for x in _own_nodes(callee)):
            return list(fe.get('<yields>', []))       # a generator function, interpreted eagerly: the sequence it yields
        v = fe.get('<return>') if fe.get('<outcome>') == 'return' else None
        if isinstance(v, Opaque):
            raise Unknown('helper %s returns an uncomputable value' % callee.name)
        return v

    @staticmethod
    def _handler_for(trystmt, crash):
        kind = 'KeyError' if 'KeyError' in crash else ('IndexError' if 'IndexError' in crash else ('ValueError' if 'ValueError' in crash else None))
        if kind is None:
            return None
        for h in trystmt.handlers:
            if h.type is None:
                return h
            names = [unparse(x) for x in (h.type.elts if isinstance(h.type, ast.Tuple) else [h.type])]
            if kind in names or 'Exception' in names or 'BaseException' in names or ('LookupError' in names and kind in ('KeyError', 'IndexError')):
                return h
        return None

    def bind_values(self, call, func, env, skip_self=False):
        """{parameter: evaluated argument} of a call to `func` -- positional, *sequence, keyword and **mapping arguments, declared defaults for the rest
        (Opaque for what cannot be evaluated)."""
        params = [x.arg for x in func.args.posonlyargs + func.args.args]
        if skip_self and params and params[0] in ('self', 'cls'):
            params = params[1:]

        def val(n):
            try:
                return self.value(n, env)
            except Unknown:
                return Opaque()
        pos = []
        for a in call.args:
            if isinstance(a, ast.Starred):
                seq = val(a.value)
                if not isinstance(seq, (list, tuple)):
                    raise Unknown('*arguments of %s are not computable' % unparse(call)[:60])
                pos.extend(seq)
            else:
                pos.append(val(a))
        if len(pos) > len(params):
            raise Unknown('more arguments than parameters in %s' % unparse(call)[:60])
        out = dict(zip(params, pos))
        for k in call.keywords:
            if k.arg is None:
                d = val(k.value)
                if not isinstance(d, dict):
                    raise Unknown('**arguments of %s are not computable' % unparse(call)[:60])
                out.update(d)
            else:
                out[k.arg] = val(k.value)
        nd = len(func.args.defaults)
        allp = [x.arg for x in func.args.posonlyargs + func.args.args]
        for p, d in zip(allp[len(allp) - nd:], func.args.defaults):
            if p not in out and p in params:
                out[p] = val(d)
        return out

    def truth(self, node, env):
        """True / False / None (unknown)."""
        try:
            v = self.value(node, env)
        except Crash:
            raise
        except Unknown:
            return None
        if isinstance(v, Opaque):
            return None
        return bool(v)

    # ---------------------------------------------------------------- statements
    def _effectful(self, node, env):
        """Could this statement (which cannot be interpreted precisely) have an effect on a non-opaque value or call
        an effect function?"""
        for n in ast.walk(node):
            if isinstance(n, ast.Call):
                nm = n.func.id if isinstance(n.func, ast.Name) else (n.func.attr if isinstance(n.func, ast.Attribute) else None)
                if nm in self.effect_names:
                    return True
                if isinstance(n.func, ast.Attribute) and n.func.attr in ('append', 'extend', 'add', 'insert', 'remove', 'pop', 'clear', 'update', 'sort', 'discard') and isinstance(n.func.value, ast.Name) and \
                        isinstance(env.get(n.func.value.id), (list, set, dict)):
                    return True
                # a tracked container handed to an unknown callee
                for a in list(n.args) + [k.value for k in n.keywords]:
                    if isinstance(a, ast.Name) and isinstance(env.get(a.id), (list, set)) and nm not in ('len', 'join', 'list', 'sorted', 'set', 'tuple', 'any', 'all', 'str', 'repr', 'format'):
                        return True
            if isinstance(n, (ast.Return, ast.Raise)):
                return True
            if isinstance(n, ast.Name) and isinstance(n.ctx, (ast.Store, ast.Del)) and n.id in env and not isinstance(env[n.id], Opaque):
                return True
            if isinstance(n, (ast.Subscript, ast.Attribute)) and isinstance(n.ctx, (ast.Store, ast.Del)):
                b = n.value
                while isinstance(b, ast.Subscript):
                    b = b.value
                if isinstance(env.get(unparse(b)), (list, set, dict)) or (isinstance(n, ast.Attribute) and unparse(n) in env):
                    return True
        return False

    def _assign(self, target, val, env):
        if isinstance(target, ast.Name):
            env[target.id] = val
            return
        if isinstance(target, (ast.Tuple, ast.List)):
            if isinstance(val, Record):
                val = tuple(val.fields.values())
            if isinstance(val, (tuple, list)) and len(val) == len(target.elts):
                for t, v in zip(target.elts, val):
                    self._assign(t, v, env)
            elif isinstance(val, list) and not any(isinstance(t, ast.Starred) for t in target.elts) and all(isinstance(x, (str, bytes, int)) for x in val):
                # a concrete list of scalars (the result of str.split) of another length: Python raises ValueError at the unpacking
                raise Crash('%s = <%d values> raises ValueError (%s)' % (unparse(target), len(val), loc(target)))
            else:
                for t in target.elts:
                    self._assign(t, Opaque(), env)
            return
        if isinstance(target, ast.Attribute):
            env[unparse(target)] = val      # attribute facts are kept by their text (self._field)
            if unparse(target) in self.store_effects:
                self.nodes.append(target)
                env.setdefault('<effects>', []).append(('store', (unparse(target), val), len(self.nodes) - 1))
            return
        if isinstance(target, ast.Subscript):
            try:
                base = self.value(target.value, env)
            except Unknown:
                return                      # store into an object the interpreter does not model
            if isinstance(base, (list, dict)):
                try:
                    base[self.value(target.slice, env)] = val
                    return
                except (Unknown, Exception):
                    raise Unknown('store into a tracked container with an uncomputable index: %s' % unparse(target))
            return
        raise Unknown('assignment target %s' % unparse(target))

    def run(self, body, env):
        env = dict(env)
        env.setdefault('<effects>', [])
        done, out = self._block(body, [env])
        return done + out

    def _fork(self, env):
        return copy.deepcopy(env)

    def _block(self, body, envs):
        """returns (finished envs [returned/raised], falling envs)."""
        finished = []
        for st in body:
            nxt = []
            for e in envs:
                if e.get('<jump>'):
                    nxt.append(e)
                    continue
                try:
                    f, n = self._stmt(st, e)
                except Crash as c:
                    e['<outcome>'] = 'raise'
                    e['<crash>'] = str(c)
                    f, n = [e], []
                finished.extend(f)
                nxt.extend(n)
            envs = nxt
            if not envs:
                break
        return finished, envs

    def _stmt(self, st, e):
        self.steps += 1
        if self.steps > self.budget:
            raise Unknown('path explosion in the list interpreter')
        if not isinstance(st, (ast.If, ast.For, ast.While, ast.With, ast.Try)):
            self._seen_calls = set()
        if isinstance(st, ast.FunctionDef) and not st.decorator_list:
            e[st.name] = FuncRef(st, False)       # a nested function is a value (it may be stored in a table and called through it); it reads the caller's variables
            return [], [e]
        if isinstance(st, (ast.FunctionDef, ast.AsyncFunctionDef, ast.ClassDef, ast.Pass, ast.Import, ast.ImportFrom, ast.Global, ast.Nonlocal)):
            return [], [e]
        if isinstance(st, ast.Expr) and isinstance(st.value, (ast.Yield, ast.YieldFrom)):
            # inside a generator function interpreted eagerly (see _inline): the yielded values are collected in order
            if st.value.value is None:
                item = None
            else:
                item = self.value(st.value.value, e)
            if isinstance(st.value, ast.YieldFrom):
                if not isinstance(item, (list, tuple)):
                    raise Unknown('yield from a value that is not a computable sequence (%s)' % loc(st))
                e.setdefault('<yields>', []).extend(item)
            else:
                e.setdefault('<yields>', []).append(item)
            return [], [e]
        if isinstance(st, ast.Expr):
            v = st.value
            if isinstance(v, ast.Constant):
                return [], [e]
            if isinstance(v, ast.Call):
                fn = v.func
                nm = fn.id if isinstance(fn, ast.Name) else (fn.attr if isinstance(fn, ast.Attribute) else None)
                if self.call_hook is not None and nm not in self.effect_names:
                    try:
                        handled = self.call_hook(v, e, self)
                    except Crash:
                        raise
                    except Unknown:
                        raise
                    if handled is not None:
                        return [], [e]
                if isinstance(fn, ast.Attribute) and isinstance(fn.value, ast.Name) and self.depth < 4:
                    bv_ = e.get(fn.value.id)
                    if bv_ is None and fn.value.id not in e:
                        g_ = self._global_const(fn.value)
                        bv_ = g_[1] if g_ is not None else None
                    if isinstance(bv_, Record) and (any(isinstance(m_, ast.FunctionDef) and m_.name == fn.attr for m_ in bv_.cls.body) or isinstance(bv_.fields.get(fn.attr), (Lam, FuncRef))):
                        self._seen_calls.add(id(v))
                        self.value(v, e)      # a method of a record object called for its effects on its (list) arguments: interpreted in place
                        return [], [e]
                if isinstance(fn, ast.Name) and isinstance(e.get(fn.id), (FuncRef, Lam, Builtin)) and self.depth < 4:
                    self._seen_calls.add(id(v))
                    self.value(v, e)          # a function value called for its effects (a nested function stored in a table, a callback): interpreted in place
                    return [], [e]
                if nm == 'setattr' and isinstance(fn, ast.Name) and len(v.args) == 3 and not v.keywords:
                    try:
                        an = self.value(v.args[1], e)
                    except Unknown:
                        an = None
                    if isinstance(an, str) and an.isidentifier():
                        tgt = ast.copy_location(ast.Attribute(value=v.args[0], attr=an, ctx=ast.Store()), v)
                        fake = ast.copy_location(ast.Assign(targets=[tgt], value=v.args[2]), st)
                        ast.fix_missing_locations(fake)
                        return self._stmt(fake, e)
                if nm not in self.effect_names and self.resolver is not None and self.depth < 3:
                    callee = self.resolver(v)
                    if callee is not None:
                        self._seen_calls.add(id(v))
                        self._inline(v, callee, e)      # a repository helper called for its effects: interpreted in place
                        return [], [e]
                if nm not in self.effect_names and self.fallback_resolver is not None and self.depth < 4:
                    callee = self.fallback_resolver(v)
                    if callee is not None:
                        self._seen_calls.add(id(v))
                        self._inline(v, callee, e)
                        return [], [e]
                if nm in self.effect_names:
                    args = []
                    for a in v.args:
                        try:
                            args.append(self.value(a, e))
                        except Crash:
                            raise
                        except Unknown:
                            args.append(Opaque())
                    self.nodes.append(st)
                    e['<effects>'].append((nm, tuple(args), len(self.nodes) - 1))
                    return [], [e]
                recv = None
                if isinstance(fn, ast.Attribute):
                    try:
                        recv = self.value(fn.value, e)
                    except Crash:
                        raise
                    except Unknown:
                        recv = None
                if isinstance(recv, dict):
                    try:
                        args = [self.value(a, e) for a in v.args]
                    except Crash:
                        raise
                    except Unknown:
                        raise Unknown('method call on a tracked dict with uncomputable arguments: %s (%s)' % (unparse(v)[:80], loc(v)))
                    if fn.attr == 'setdefault' and len(args) == 2:
                        recv.setdefault(args[0], args[1])
                    elif fn.attr == 'update' and len(args) == 1 and isinstance(args[0], dict) and not v.keywords:
                        recv.update(args[0])
                    elif fn.attr == 'pop' and 1 <= len(args) <= 2:
                        recv.pop(*args) if len(args) == 2 or args[0] in recv else None
                    elif fn.attr == 'clear' and not args:
                        recv.clear()
                    elif fn.attr in ('get', 'keys', 'values', 'items', 'copy'):
                        pass
                    else:
                        raise Unknown('unsupported operation on a tracked dict: %s (%s)' % (unparse(v)[:80], loc(v)))
                    return [], [e]
                if isinstance(recv, (list, set)):
                    tgt = recv
                    try:
                        args = [self.value(a, e) for a in v.args]
                    except Crash:
                        raise
                    except Unknown:
                        args = [Opaque() for a in v.args]
                    if fn.attr == 'append' and isinstance(tgt, list) and len(args) == 1:
                        tgt.append(args[0])
                    elif fn.attr == 'add' and isinstance(tgt, set) and len(args) == 1:
                        tgt.add(args[0])
                    elif fn.attr == 'extend' and isinstance(tgt, list) and len(args) == 1 and isinstance(args[0], (list, tuple, set)):
                        tgt.extend(args[0])
                    elif fn.attr == 'update' and isinstance(tgt, set) and len(args) == 1 and isinstance(args[0], (list, tuple, set)):
                        tgt.update(args[0])
                    elif fn.attr == 'insert' and isinstance(tgt, list) and len(args) == 2 and isinstance(args[0], int):
                        tgt.insert(args[0], args[1])
                    elif fn.attr == 'remove' and len(args) == 1 and args[0] in tgt:
                        tgt.remove(args[0])
                    elif fn.attr == 'sort' and isinstance(tgt, list) and not v.args and not v.keywords:
                        tgt.sort()
                    elif fn.attr == 'reverse' and isinstance(tgt, list) and not v.args and not v.keywords:
                        tgt.reverse()
                    elif fn.attr == 'pop' and isinstance(tgt, list) and len(args) <= 1 and all(isinstance(a, int) for a in args) and tgt:
                        tgt.pop(*args)
                    elif fn.attr == 'clear':
                        tgt.clear()
                    else:
                        raise Unknown('unsupported operation on a tracked list: %s (%s)' % (unparse(v)[:80], loc(v)))
                    return [], [e]
                if self._effectful(st, e):
                    raise Unknown('call with a tracked list as argument cannot be interpreted: %s (%s)' % (unparse(v)[:80], loc(v)))
                self._touch(v, e)
                return [], [e]
            return [], [e]
        if isinstance(st, (ast.Assign, ast.AnnAssign)):
            if st.value is None:
                return [], [e]
            try:
                val = self.value(st.value, e)
            except Crash:
                raise
            except Unknown:
                if self._effectful(ast.Expr(value=st.value), e):
                    raise
                self._touch(st.value, e)
                val = Opaque()
            for t in (st.targets if isinstance(st, ast.Assign) else [st.target]):
                self._assign(t, val, e)
            return [], [e]
        if isinstance(st, ast.AugAssign):
            if isinstance(st.target, ast.Name):
                cur = e.get(st.target.id, Opaque())
                try:
                    val = self.value(st.value, e)
                except Crash:
                    raise
                except Unknown:
                    val = Opaque()
                if isinstance(cur, Opaque) or isinstance(val, Opaque):
                    if isinstance(cur, (list, set)):
                        raise Unknown('tracked list %s extended with an uncomputable value (%s)' % (st.target.id, loc(st)))
                    e[st.target.id] = Opaque()
                elif isinstance(cur, list) and isinstance(st.op, ast.Add):
                    cur.extend(val)         # in-place, aliases see it (as in Python)
                else:
                    try:
                        e[st.target.id] = _BIN[type(st.op)](cur, val)
                    except Exception:
                        e[st.target.id] = Opaque()
                return [], [e]
            if isinstance(st.target, ast.Attribute) and unparse(st.target) in e and type(st.op) in _BIN:
                # attribute facts are kept by their text (self._len += n)
                key_ = unparse(st.target)
                cur = e[key_]
                try:
                    val = self.value(st.value, e)
                except Crash:
                    raise
                except Unknown:
                    val = Opaque()
                if isinstance(cur, (int, str, bytes)) and isinstance(val, type(cur)) and not isinstance(cur, bool):
                    try:
                        e[key_] = _BIN[type(st.op)](cur, val)
                    except Exception:      # noqa: BLE001
                        e[key_] = Opaque()
                    return [], [e]
                if not isinstance(cur, (list, dict, set)):
                    e[key_] = Opaque()
                    return [], [e]
            if self._effectful(st, e):
                raise Unknown('augmented store into a tracked container: %s' % stmt_text(st))
            return [], [e]
        if isinstance(st, ast.If):
            c = self.truth(st.test, e)
            if c is None:
                e.setdefault('<forks>', []).append(unparse(st.test)[:100])
                e2 = self._fork(e)
                f1, n1 = self._block(st.body, [e])
                f2, n2 = self._block(st.orelse, [e2])
                return f1 + f2, n1 + n2
            return self._block(st.body if c else st.orelse, [e])
        if isinstance(st, ast.For):
            try:
                seq = self.value(st.iter, e)
            except Crash:
                raise
            except Unknown:
                seq = Opaque()
            if isinstance(seq, dict) or type(seq).__name__ in ('dict_items', 'dict_keys', 'dict_values'):
                seq = list(seq)
            if isinstance(seq, str) and len(seq) <= 256:
                seq = list(seq)
            if not isinstance(seq, (list, tuple, set)):
                if self._effectful(ast.Module(body=st.body + st.orelse, type_ignores=[]), e):
                    raise Unknown('loop over an uncomputable sequence has an observable effect: %s (%s)' % (stmt_text(st)[:80], loc(st)))
                return [], [e]
            cur = [e]
            finished, broke = [], []
            for x in (sorted(seq) if isinstance(seq, set) else list(seq)):
                step = []
                for e2 in cur:
                    self._assign(st.target, x, e2)
                    f, n = self._block(st.body, [e2])
                    finished.extend(f)
                    for e3 in n:
                        j = e3.pop('<jump>', None)
                        if j == 'break':
                            broke.append(e3)
                        else:
                            step.append(e3)
                cur = step
            if st.orelse and cur:
                f, cur = self._block(st.orelse, cur)
                finished.extend(f)
            return finished, cur + broke
        if isinstance(st, ast.While):
            # executed concretely while its test is computable (bounded); un-modelled loops must have no observable effect
            cur, finished, out = [e], [], []
            for _ in range(64):
                step = []
                for e2 in cur:
                    c = self.truth(st.test, e2)
                    if c is None:
                        if self._effectful(st, e2):
                            raise Unknown('while loop with an observable effect and an uncomputable test: %s (%s)' % (stmt_text(st)[:80], loc(st)))
                        out.append(e2)
                        continue
                    if c is False:
                        out.append(e2)
                        continue
                    f, n = self._block(st.body, [e2])
                    finished.extend(f)
                    for e3 in n:
                        j = e3.pop('<jump>', None)
                        if j == 'break':
                            out.append(e3)
                        else:
                            step.append(e3)
                cur = step
                if not cur:
                    break
            if cur:
                raise Unknown('while loop does not terminate within the interpreter\'s bound: %s (%s)' % (stmt_text(st)[:80], loc(st)))
            return finished, out
        if isinstance(st, ast.Return):
            try:
                e['<return>'] = self.value(st.value, e) if st.value is not None else None
            except Crash:
                raise
            except Unknown:
                e['<return>'] = Opaque()
            e['<outcome>'] = 'return'
            return [e], []
        if isinstance(st, ast.Raise):
            e['<outcome>'] = 'raise'
            return [e], []
        if isinstance(st, (ast.Continue, ast.Break)):
            e['<jump>'] = 'continue' if isinstance(st, ast.Continue) else 'break'
            return [], [e]
        if isinstance(st, ast.With):
            if self.with_targets:
                for item in st.items:
                    if item.optional_vars is not None:
                        try:
                            v = self.value(item.context_expr, e)
                        except Crash:
                            raise
                        except Unknown:
                            v = Opaque()
                        self._assign(item.optional_vars, v, e)
            return self._block(st.body, [e])
        if isinstance(st, ast.Try) and self.try_normal_path:
            f1, n1 = self._block(st.body, [e])
            # a definite exception of the body (a subscript / index of a concrete container that does not exist) enters the handler that catches it
            caught, still = [], []
            for fe in f1:
                c = fe.get('<crash>')
                h = self._handler_for(st, c) if c else None
                if h is None:
                    still.append(fe)
                    continue
                fe.pop('<crash>', None)
                fe.pop('<outcome>', None)
                if h.name:
                    fe[h.name] = Opaque()
                fh, nh = self._block(h.body, [fe])
                still.extend(fh)
                caught.extend(nh)
            f2, n2 = self._block(st.orelse, n1) if st.orelse else ([], n1)
            f3, n3 = self._block(st.finalbody, n2 + caught) if st.finalbody else ([], n2 + caught)
            return still + f2 + f3, n3
        if isinstance(st, ast.Try):
            if self._effectful(st, e):
                raise Unknown('try statement with an observable effect: %s (%s)' % (stmt_text(st)[:60], loc(st)))
            return [], [e]
        if isinstance(st, ast.Delete) and all(isinstance(t, ast.Subscript) for t in st.targets):
            for t in st.targets:
                try:
                    base = self.value(t.value, e)
                except Crash:
                    raise
                except Unknown:
                    continue
                if isinstance(base, (list, dict)):
                    try:
                        del base[self.value(t.slice, e)]
                    except Crash:
                        raise
                    except Unknown:
                        raise Unknown('deletion from a tracked container with an uncomputable index: %s' % unparse(t))
                    except (KeyError, IndexError):
                        raise Unknown('deletion of a missing element from a tracked container: %s' % unparse(t))
            return [], [e]
        if isinstance(st, (ast.Assert, ast.Delete)):
            if self._effectful(st, e):
                raise Unknown('unsupported statement %s' % stmt_text(st)[:60])
            return [], [e]
        raise Unknown('unsupported statement %s (%s)' % (stmt_text(st)[:60], loc(st)))
