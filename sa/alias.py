"""Flow-insensitive provenance tracker: which local expressions may denote (parts of) a tracked object,
and where such objects are mutated."""
import ast

from .core import unparse, walk_no_nested, attr_chain, func_id
from .slicer import MUTATORS

FRESH_CALLS = {'list', 'dict', 'set', 'tuple', 'sorted', 'str', 'len', 'int', 'bool', 'copy.copy', 'copy.deepcopy', 'json.dumps', 'enumerate_copy'}


class Derived:
    """Derived-name analysis for one function.  `is_source(expr)` marks seed expressions."""

    _cfg = None

    def __init__(self, func, is_source, extra_seeds=(), elements=True):
        self.elements = elements      # False: elements of a tracked container are immutable values (e.g. strings), only the container itself is tracked
        self.func = func
        self.is_source = is_source
        self.names = set(extra_seeds)        # local names that may alias (a part of) the tracked object
        self.holder_sites = {}
        self.holders = {}                    # local containers that may hold a tracked part: chain -> {constant key text | None (any key)}
        changed = True
        while changed:
            changed = False
            for n in walk_no_nested(func):
                if isinstance(n, ast.Assign):
                    for t in n.targets:
                        changed |= self._bind(t, n.value)
                elif isinstance(n, ast.AnnAssign) and n.value is not None:
                    changed |= self._bind(n.target, n.value)
                elif isinstance(n, (ast.For, ast.comprehension)):
                    it = n.iter
                    if self.elements and self.derived(it):
                        for t in ast.walk(n.target):
                            if isinstance(t, ast.Name) and t.id not in self.names:
                                self.names.add(t.id)
                                changed = True
                elif isinstance(n, ast.Call) and isinstance(n.func, ast.Attribute) and n.func.attr in ('append', 'extend', 'insert', 'add', 'update', 'setdefault'):
                    # container.append(derived) makes the container a holder
                    if self.elements and any(self.derived(a) for a in n.args):
                        c = attr_chain(n.func.value)
                        if c and not self.derived(n.func.value):
                            changed |= self._add_holder(c, None)

    def _bind(self, t, value):
        ch = False
        if isinstance(t, ast.Name):
            if self.derived(value) and t.id not in self.names:
                self.names.add(t.id)
                ch = True
            if isinstance(value, ast.Dict):
                for k, v in zip(value.keys, value.values):
                    if self.derived(v):
                        ch |= self._add_holder(t.id, unparse(k) if isinstance(k, ast.Constant) else None)
            elif isinstance(value, (ast.List, ast.Tuple)) and any(self.derived(v) for v in value.elts):
                ch |= self._add_holder(t.id, None)
        elif isinstance(t, (ast.Tuple, ast.List)):
            if isinstance(value, (ast.Tuple, ast.List)) and len(value.elts) == len(t.elts):
                for a, b in zip(t.elts, value.elts):
                    ch |= self._bind(a, b)
            elif self.derived(value):
                for a in t.elts:
                    if isinstance(a, ast.Name) and a.id not in self.names:
                        self.names.add(a.id)
                        ch = True
        elif isinstance(t, ast.Subscript):
            # holder[k] = derived
            b = t
            key = unparse(t.slice) if isinstance(t.slice, ast.Constant) and not isinstance(t.value, ast.Subscript) else None
            while isinstance(b, ast.Subscript):
                b = b.value
            c = attr_chain(b)
            if c and self.derived(value) and not self.derived(b):
                ch |= self._add_holder(c, key, t)
        elif isinstance(t, ast.Attribute):
            c = attr_chain(t)
            if c and self.derived(value) and c not in self.names:
                self.names.add(c)
                ch = True
        return ch

    def _add_holder(self, chain, key, node=None):
        ks = self.holders.setdefault(chain, set())
        if node is not None:
            self.holder_sites.setdefault((chain, key), [])
            if node not in self.holder_sites[(chain, key)]:
                self.holder_sites[(chain, key)].append(node)
        if key in ks or None in ks:
            return False
        ks.add(key)
        return True

    def derived(self, e):
        """May expression e denote (a part of) the tracked object?"""
        if e is None:
            return False
        if self.is_source(e):
            return True
        if isinstance(e, ast.Name):
            return e.id in self.names
        if isinstance(e, ast.Attribute):
            c = attr_chain(e)
            if c is not None and c in self.names:
                return True
            return self.derived(e.value)
        if isinstance(e, ast.Subscript):
            if not self.elements:
                return False
            if isinstance(e.slice, ast.Slice):
                return self.derived(e.value)
            return self.derived(e.value) or self._holder(e.value, unparse(e.slice) if isinstance(e.slice, ast.Constant) else None)
        if isinstance(e, ast.Call):
            fn = unparse(e.func)
            if fn in FRESH_CALLS:
                return False
            if fn == 'cast' and len(e.args) == 2:
                return self.derived(e.args[1])
            if isinstance(e.func, ast.Attribute) and e.func.attr in ('items', 'values', 'get', 'setdefault', 'pop'):
                return self.derived(e.func.value) or self._holder(e.func.value)
            if isinstance(e.func, ast.Name) and e.func.id == 'enumerate' and e.args:
                return self.derived(e.args[0])
            return False
        if isinstance(e, ast.IfExp):
            return self.derived(e.body) or self.derived(e.orelse)
        if isinstance(e, ast.BoolOp):
            return any(self.derived(v) for v in e.values)
        return False

    def _holder(self, e, key='*'):
        c = attr_chain(e)
        if c is None or c not in self.holders:
            return False
        ks = self.holders[c]
        if key == '*' or key is None or None in ks:
            return True
        return key in ks

    def mutations(self):
        """[(node, description)] sites in this function that mutate a derived object."""
        out = []
        for n in walk_no_nested(self.func):
            if isinstance(n, (ast.Assign, ast.AugAssign, ast.AnnAssign)):
                ts = n.targets if isinstance(n, ast.Assign) else [n.target]
                for t in ts:
                    for s in ([t] if not isinstance(t, (ast.Tuple, ast.List)) else t.elts):
                        if isinstance(s, ast.Subscript) and (self.derived(s.value)):
                            out.append((n, 'store %s' % unparse(s)))
                        elif isinstance(s, ast.Attribute) and self.derived(s.value) and not (isinstance(s.value, ast.Name) and s.value.id in ('self', 'cls')):
                            out.append((n, 'attribute store %s' % unparse(s)))
                        elif isinstance(n, ast.AugAssign) and self.derived(s):
                            out.append((n, 'in-place %s' % unparse(n)))
            elif isinstance(n, ast.Delete):
                for t in n.targets:
                    if isinstance(t, ast.Subscript) and self.derived(t.value):
                        out.append((n, 'del %s' % unparse(t)))
            elif isinstance(n, ast.Call) and isinstance(n.func, ast.Attribute) and n.func.attr in MUTATORS:
                if self.derived(n.func.value) and not self._only_exclusive_holder(n.func.value, n) and not self._held_only_later(n.func.value, n):
                    out.append((n, '%s on %s' % (n.func.attr, unparse(n.func.value))))
        return out

    def _held_only_later(self, recv, node):
        """The receiver is `holder[key]` and is tracked only because the tracked value is stored into `holder` somewhere in this function (flow-insensitive
        fact).  If no store site can reach `node` in the control-flow graph, the holder does not contain the tracked value yet when `node` runs."""
        if not isinstance(recv, ast.Subscript) or self.derived(recv.value) or self.is_source(recv):
            return False
        c = attr_chain(recv.value)
        if c is None or c not in self.holders:
            return False
        sites = [s for (ch, k), ss in self.holder_sites.items() if ch == c for s in ss]
        if not sites or len(sites) < len([1 for (ch, k) in self.holder_sites if ch == c]):
            return False
        try:
            from .cfg import CFG
            if self._cfg is None:
                self._cfg = CFG(self.func, exc_edges=False)
            cfg = self._cfg

            def stmt_of(x):
                while x is not None and not isinstance(x, ast.stmt):
                    x = getattr(x, '_parent', None)
                return x
            tn = cfg.nodes_of(stmt_of(node))
            if not tn:
                return False
            for s in sites:
                sn = cfg.nodes_of(stmt_of(s))
                if not sn:
                    return False
                starts = set()
                for x in sn:
                    starts |= set(x.succ)
                if any(t in cfg.reachable(list(starts)) for t in tn):
                    return False
            return True
        except Exception:      # noqa: BLE001 -- any doubt: keep the (conservative) flow-insensitive answer
            return False

    def _only_exclusive_holder(self, recv, node):
        """The receiver is `holder[const]` whose only tracked stores sit in branches mutually exclusive with
        `node` (if/else of the same test): the tracked value cannot be what is mutated here."""
        if not (isinstance(recv, ast.Subscript) and isinstance(recv.slice, ast.Constant)):
            return False
        if self.derived(recv.value):
            return False
        c = attr_chain(recv.value)
        if c is None:
            return False
        sites = self.holder_sites.get((c, unparse(recv.slice)), [])
        if not sites or None in self.holders.get(c, set()):
            return False
        return all(_exclusive(s, node) for s in sites)


def _ancestors(n):
    out = []
    while n is not None:
        out.append(n)
        n = getattr(n, '_parent', None)
    return out


def _exclusive(a, b):
    aa, bb = _ancestors(a), _ancestors(b)
    for x in aa:
        if isinstance(x, ast.If) and x in bb:
            def side(n, anc):
                for y in anc:
                    if y in x.body:
                        return 'body'
                    if y in x.orelse:
                        return 'orelse'
                return None
            sa_, sb_ = side(a, aa), side(b, bb)
            if sa_ and sb_ and sa_ != sb_:
                return True
    return False
