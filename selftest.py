#!/usr/bin/env python3
"""Runs every registered mutant / benign twin for the given properties (all by default)."""
import os
import sys

sys.path.insert(0, os.path.dirname(os.path.abspath(__file__)))
sys.dont_write_bytecode = True
from sa import battery_impl  # noqa: E402


def main():
    props = [a.upper() for a in sys.argv[1:] if not a.startswith('-')]
    if not props:
        props = sorted(f[:-3].upper() for f in os.listdir(os.path.join(os.path.dirname(os.path.abspath(__file__)), 'mutants')) if f.startswith('c') and f.endswith('.py'))
    bad = 0
    for p in props:
        res = battery_impl.run(p)
        for name, status, detail in sorted(res):
            print('%s %-45s %-11s %s' % (p, name, status, detail[:200]))
            if status != 'ok':
                bad += 1
    print('selftest: %d problem(s)' % bad)
    sys.exit(1 if bad else 0)


if __name__ == '__main__':
    main()
