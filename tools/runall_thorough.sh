#!/bin/sh
# run the thorough command of every property (4 at a time; each battery already uses 16 workers) and print the exit codes
cd /verif
seq -w 1 19 | xargs -P 4 -I{} sh -c 'python3 check.py C{} --tier thorough > /tmp/thorough_C{}.out 2>&1; echo "C{} exit=$? $(grep -c "^KNOWN-FINDING" /tmp/thorough_C{}.out) known; $(tail -1 /tmp/thorough_C{}.out | cut -c1-150)"' | sort
rm -f /tmp/thorough_C*.out
