#!/bin/sh
# usage: try_seed.sh <seed-name> <PROP> [<PROP> ...]  -- run quick checks against a scratch copy of /repo with the seeded patch applied
seed=$1; shift
tmp=$(mktemp -d /tmp/tryseed.XXXXXX)
mkdir -p $tmp/repo/src && cp -r /repo/src/ssh_audit $tmp/repo/src/ && cp /repo/ssh-audit.py $tmp/repo/
( cd $tmp/repo && patch -s -p1 < /verif/seeded/$seed/patch.diff ) || { echo "patch failed"; rm -rf $tmp; exit 3; }
for p in "$@"; do
  VERIF_REPO=$tmp/repo VERIF_EVIDENCE_DIR=$tmp/ev VERIF_OUT_DIR=$tmp/out VERIF_NO_BATTERY=1 python3 /verif/check.py $p --tier quick 2>&1 | grep -v "^VIOLATION\|^KNOWN-FINDING\|^    via" | cut -c1-420 | tail -4
  echo "[$seed / $p] exit=$?"
done
rm -rf $tmp
