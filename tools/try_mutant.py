#!/usr/bin/env python3
"""Development-time helper: apply one battery mutant / twin to a scratch copy of /repo and run all (or the given) quick checks on it.
usage: try_mutant.py <PROP> <mutant-name> [CHECK ...]"""
import concurrent.futures
import importlib
import os
import shutil
import subprocess
import sys
import tempfile
sys.path.insert(0, os.path.dirname(os.path.dirname(os.path.abspath(__file__))))


def main():
    prop, name = sys.argv[1].lower(), sys.argv[2]
    checks = sys.argv[3:] or ['C%02d' % i for i in range(1, 20)]
    mut = [m for m in importlib.import_module('mutants.' + prop).MUTANTS if m['name'] == name][0]
    tmp = tempfile.mkdtemp(prefix='verif-mut-')
    try:
        dst = os.path.join(tmp, 'repo')
        shutil.copytree('/repo/src', os.path.join(dst, 'src'), ignore=shutil.ignore_patterns('__pycache__'))
        shutil.copytree('/repo/test', os.path.join(dst, 'test'), ignore=shutil.ignore_patterns('__pycache__', 'docker'))
        shutil.copy('/repo/ssh-audit.py', os.path.join(dst, 'ssh-audit.py'))
        for e in mut.get('edits') or [mut]:
            p = os.path.join(dst, e['file'])
            s = open(p).read()
            assert s.count(e['old']) == e.get('count', 1), 'stale anchor in %s' % e['file']
            open(p, 'w').write(s.replace(e['old'], e['new']))
        env = dict(os.environ, PYTHONPATH=os.path.join(dst, 'src'), PYTHONDONTWRITEBYTECODE='1')
        r = subprocess.run('/venv/bin/python -m pytest -q -p no:cacheprovider test', shell=True, cwd=dst, env=env, capture_output=True, text=True)
        print('suite on the variant:', (r.stdout.strip().splitlines() or ['?'])[-1])

        def run(pid):
            e2 = dict(os.environ, VERIF_REPO=dst, VERIF_EVIDENCE_DIR=os.path.join(tmp, 'ev'), VERIF_OUT_DIR=os.path.join(tmp, 'out'), VERIF_NO_BATTERY='1', PYTHONDONTWRITEBYTECODE='1')
            c = subprocess.run([sys.executable, '/verif/check.py', pid, '--tier', 'quick'], env=e2, capture_output=True, text=True)
            return pid, c.returncode, [l for l in c.stdout.splitlines() if l.startswith(pid + ' [') or l.startswith('ANALYSIS-ERROR')]
        with concurrent.futures.ThreadPoolExecutor(max_workers=10) as ex:
            for pid, rc, lines in ex.map(run, checks):
                print('%s exit=%d %s' % (pid, rc, (lines[0][:240] if lines else '')))
    finally:
        shutil.rmtree(tmp, ignore_errors=True)


if __name__ == '__main__':
    main()
