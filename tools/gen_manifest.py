#!/usr/bin/env python3
"""Regenerates /verif/MANIFEST.json from the table below (one row per property)."""
import json
import os

VERIF = os.path.dirname(os.path.dirname(os.path.abspath(__file__)))

BASE = 'cd /repo && /venv/bin/python -m pytest -ra -q -p no:cacheprovider --timeout=900 --continue-on-collection-errors'

# id -> (technique, level text, level note, design ref)
P = {
 'C01': ('abstract interpretation of the AST (finite scenario families over symbolic name tokens; nothing executed): SSH2_Kex.parse / constructors / accessors and the SSH-1 mask decoders (which read reaches which accessor), output() and build_struct (which list feeds which section / JSON list), the per-name renderer (every name gets its line); provenance / alias scan for in-place edits of parsed lists over the call graph; interpretation of the printable-ASCII sanitiser (the only transformation between the banner line and the report)',
         'Decides the provenance clause: in both renderings each category shows exactly the parsed list for that category, unfiltered, in order (slot agreement in parse/constructor/getters; render table; identity-only transformations). Static, so it holds for every payload and role; byte-level splitting and the rendered text are not decided.',
         'Trusts ast; rule tables (category<->accessor) confirmed against RFC 4253 7.1; does not decide ReadBuf.read_list byte splitting.', '4/C01'),
 'C02': ('abstract interpretation of the per-name renderer (severity fold over every row shape x incoming status x presentation state), of output_algorithms and output() (status threading), of Policy.evaluate (verdict component); backward slices for option independence; CFG reachability of parse-free returns of audit(); symbolic byte budget for truncated messages',
         'Decides: the fold is max over GOOD<WARNING<FAILURE (9-row table extracted from the guards), the status is threaded through every category and returned unchanged, it has no dependence on output options, every exit of audit() not dominated by a successful parse returns CONNECTION_ERROR and renders no algorithm report, and the policy verdict maps to GOOD/FAILURE.',
         'Trusts ast and the hand-built CFG; tag text vs level correspondence is by shared loop variable only.', '4/C02'),
 'C03': ('abstract interpretation of the text and JSON note lookups on a synthetic rating table (levels, unknown names, agreement of the views); backward slice for locality; alias / mutation inventory of the rating-table writers over all functions; per-thread registry and privacy of the table copy by interpretation (object identity on a synthetic table); loop-carried dependence on the CFG of the host-key probe; object-identity check of every container of the evaluated MASTER_DB (no row or note list shared between entries)',
         'Decides locality (notes depend only on category, name, table row), single table source and key normalisation agreement across text/JSON/lookup, unknown-never-good, and the complete inventory of writers of the rating table.',
         'Trusts the resolver (by-name over-approximation for untyped receivers) and the frozen writer table.', '4/C03'),
 'C04': ('abstract interpretation of post_process_findings and its nested helpers on an object model of the parsed message: decision table over role x strict-kex marker x ChaCha x CBC x ETM (warnings read from the resulting table), totality by crash detection on unknown names; who-may-call over the call graph; registry model',
         'Decides the complete Terrapin decision table, predicate agreement between enabled/not-enabled helpers and database names, suppression-list flow into both recommendation paths, and totality of the table subscript on peer-supplied names.',
         'Published rule = the tool\'s shape predicates (stated in DESIGN); advisory note wording not decided.', '4/C04'),
 'C05': ('abstract interpretation of the policy file round trip (Policy.create on a peer -> text -> constructor -> policy state -> Policy.evaluate) for peers with certificates, group exchange and names containing = + / @, with the drift table (one attribute perturbed at a time) evaluated on the loaded state; interpretation of the size-map normaliser and of KexDH.recv_reply per blob layout (CA capture); must-pass-through on the CFG of audit() (both probes before a policy is written or evaluated); constant evaluation of built-in policies',
         'Decides format-key agreement, separator safety for every name the database can produce, exact-mode comparisons per covered attribute, and satisfiability conditions of all built-in policies.',
         'Round trip of names outside RFC 4251 alphabet not decided.', '4/C05'),
 'C06': ('abstract interpretation of the policy constructor on hand-written policy files (the state the verdict is computed from is what the file specifies) and of Policy.evaluate (helper methods and the error recorder in place) over 6 policy states x ~90 peers x 4 flag combinations, compared with an executable statement of the documented matching rules (verdict, reported fields, record contents, pairing, monotonicity); call-graph freshness of the error accumulator',
         'Decides verdict<=>error pairing at every site, the per-field decision tables for exact/subset/larger-keys modes (direction of subset test, strict-kex exception, size orderings), error contents (expected/actual not crossed) and the syntactic form that implies monotonicity.',
         'Text of the rendered Errors block not decided.', '4/C06'),
 'C07': ('inventory of long-lived mutable state + alias-tracked writer set reachable from the pool task (call graph); per-thread registry by abstract interpretation of get_db / thread_exit; typestate (acquire / release) on the worker CFG; copy-hook depth analysis; class-level containers written through self / cls / Class receivers on the scan path',
         'Decides state confinement: every write reachable from a scan goes to objects created in the task or to the per-thread table keyed by thread id, the table is released on every exit of the pool task, and configuration/output objects are task-owned. Holds for all schedules because it is about which objects can be shared.',
         'Assumes CPython atomic dict item ops; byte equality of outputs not decided.', '4/C07'),
 'C08': ("exception-escape analysis of the worker entry over the resolved call graph (incl. SystemExit); constant evaluation of the rank list; abstract interpretation of main()'s multi-target loop (status fold over all status triples, block structure of the printed sequence); reachable-flush rule over the call graph; exceptions of the target-entry parser (explicit raises, int() of text that is not a digits-only regex group) must be handled where main() parses the entries",
         'Decides: nothing but a normal return can leave a worker task, every returnable status is ranked and the fold is max by rank, one print per future with well-formed array delimiters, JSON provenance of worker text.',
         'Trusts the partial-operation table and resolver; real stdout interleaving not decided.', '4/C08'),
 'C09': ('exception-escape fixed point over the call graph with a repo-specific partial-operation table; path-condition facts incl. conditional expressions and short-circuit operands (implied atoms) and a CFG must-analysis for non-emptiness; loop-bound classification; timeout finiteness; symbolic byte budget of read_packet; crashes proved by the host-key probe model on hostile measurements enter the escape analysis as sites',
         'Decides the crash clause structurally (which exception classes can escape audit() from peer-driven partial operations, with witness chains), probe isolation, timeout presence on every wait and bounds on peer-driven loops.',
         'Wall-clock and memory bounds not decided; partial-operation table is hand-confirmed.', '4/C09'),
 'C10': ('abstract interpretation round trip of the KEXINIT and SSH-1 key messages on an object model (parse on read tokens -> object -> write: token by token, codec by codec); abstract interpretation of every primitive writer / reader (bytes, booleans, uint32, strings, name-lists, SSH-1 and SSH-2 mpints of both signs around +-2^k up to 8192 bits) and of both packet builders against the RFC 4251 / 4253 encodings on boundary families; linear-form reader model of read_packet per protocol version; abstract interpretation of SSH_Socket.recv on receive buffers with unread bytes (append-only)',
         'Decides field order/codec agreement of KEXINIT and SSH-1 key message writers vs parsers, primitive format pairs, word composition signedness of the mpint reader, and framing arithmetic for all payload lengths (periodic in 8).',
         'Value-level round trips are not claimed.', '4/C10'),
 'C11': ("abstract interpretation of the whole host-key probe (HostKeyTest.perform_test, no-exception path) over boundary sizes x key kinds x CA kinds: what lands in the rating table and the host-key record; CFG must-assignment of the key-exchange object's measurement fields; interpretation of KexDH.recv_reply per blob layout with the arguments the probe passes",
         'Decides the rating thresholds (fail <2048, warn <3072, none otherwise; antitone), where the rating lands (rows, RSA family), record key agreement and fingerprint source agreement between text and JSON.',
         'Measured sizes/fingerprint values not decided.', '4/C11'),
 'C12': ('abstract interpretation of GEXTest.run against 4096+ server moduli policies and fixed-modulus boundary servers (recorded size, rating rows, fallback note), of _send_init (request, reply, then measure), of post_process_findings (OpenSSH 2048 note / suppression table); abstract interpretation of send_init_gex on scripted group messages inside and outside the requested range and on refusals',
         'Decides thresholds, size-only-when-measured guard structure, fixed probe sequence and OpenSSH second-pass wiring, and the 2048 note/suppression truth table.',
         'Smallest-modulus-for-every-server-policy not decided.', '4/C12'),
 'C13': ('abstract interpretation of Algorithms.get_recommendations and get_algorithm_recommendations on a synthetic rating table x peers x identified / unidentified software, compared with an executable statement of the documented rule (add / del / chg, points, levels, suppression); suppression-list contents by interpretation of post_process_findings',
         'Decides the add/del/chg branch table, faults = rows the report rates with weights 10/1 and the critical mapping, name matching agreement for wildcard categories, unknown-software handling and suppression.',
         'Rendering of (rec) lines not decided.', '4/C13'),
 'C14': ('provenance-typed lint: every ordering comparison on version strings passes through a numeric key; abstract evaluation of the comparison stages; regex split automata for the version patterns; availability gate by the recommendation model with a numerically ordered software object',
         'Decides that every older/same/newer judgement on version strings is computed on numeric component tuples (hence a total order consistent with numeric comparison), and that patch ordering is only reached after numeric equality.',
         'Malformed version strings not decided.', '4/C14'),
 'C15': ('abstract interpretation of the per-name renderer (status / unknown list identical under every presentation state; every note printed), of OutputBuffer._print / reset / get_level (level filter table); backward slices of the status chain; CFG check of the single JSON emission; determinism lint',
         'Decides: findings and status do not depend on presentation options, the level filter only drops, one json.dumps(sort_keys) document per scan with nothing emitted after it, no unguarded immediate writes in JSON mode, no hash-order iteration on the audit path.',
         'Byte identity of real runs not decided.', '4/C15'),
 'C16': ('regular-language inclusion on automata built from the regex AST (re._parser); abstract interpretation of Banner.parse on a family of identification lines (constant patterns applied with the re module) and of the printable-ASCII helpers; abstract interpretation of SSH_Socket.get_banner on scripted peers (TCP segments, split lines, close / timeout: which lines are tried, banner vs. header, nothing consumed behind the banner); product-pattern automata',
         'Decides acceptance: L(banner grammar) is included in L(RX_BANNER) over printable ASCII (with counter-example otherwise), both ASCII filters agree, header/banner separation, product table shape.',
         'Captured parts vs grammar parts not decided.', '4/C16'),
 'C17': ('exhaustive enumeration of literal tables with a constant evaluator over the AST (cross-references, shapes, broken primitives), built-in policy sizes pushed through the host-key probe model; abstract interpretation of the Terrapin post-processing for the situation each built-in policy describes (no failure added)',
         'Decides the whole property: its quantifier is the tables as they stand in the tree, all of which are literals read from source: shape, cross-references, no policy admits a failure, broken primitives failed under every spelling.',
         'Trusts the frozen broken-primitive token table (confirmed row by row).', '4/C17'),
 'C18': ('abstract interpretation of main() (each targets-file entry -> the (host, port) its task receives), of output() / evaluate_policy / build_struct (target labels), of the argparse stores (option order); def-use provenance from the stored target to getaddrinfo / connect; ordering evaluation of port guards; sibling agreement of the two resolvers',
         'Decides the dial and label provenance chains, port-range guards at all three sites, targets-file normalisation check/use agreement, address-family selection table and agreement of the rate-test resolver.',
         'String-level parsing of every spelling not decided.', '4/C18'),
 'C19': ('who-may-call + dominating-guard analysis for DoS features and KEX senders over the call graph; socket protocol of the host-key probe by abstract interpretation (connect, one request, close); CFG close pairing incl. exception edges on call-graph located probe loops; literal loop bounds for the static connection ceiling',
         'Decides which code may open connections / send KEX requests and under which guards, a static ceiling on connection-opening calls per scan, rate-test creation bounded by a counter, close pairing in probes.',
         'Run-time counts not decided.', '4/C19'),
}


def main():
    built = sorted(f[:-3].upper() for f in os.listdir(os.path.join(VERIF, 'props')) if f.startswith('c') and f.endswith('.py'))
    na_path = os.path.join(VERIF, 'tools', 'not_applicable.json')
    na_extra = json.load(open(na_path)) if os.path.exists(na_path) else {}
    checks = []
    for pid in sorted(P):
        if pid not in built or pid in na_extra:
            continue
        tech, text, note, ref = P[pid]
        checks.append({
            'property_id': pid,
            'quick_cmd': 'python3 /verif/check.py %s --tier quick' % pid,
            'thorough_cmd': 'python3 /verif/check.py %s --tier thorough' % pid,
            'evidence_file': '/verif/evidence/%s.json' % pid,
            'replay_cmd_template': 'python3 /verif/check.py %s --tier quick --replay {path}' % pid,
            'engine': 'sa',
            'level_claimed': {'category': 'other', 'text': 'static analysis (source-level, no execution): ' + text, 'design_ref': 'DESIGN.md section ' + ref},
            'level_note': note + ' Structural clauses only; see DESIGN.md section 5 for the clauses not decided.',
            'technique': 'static analysis: ' + tech,
        })
    na = []
    for pid in sorted(P):
        if pid in na_extra:
            na.append({'property_id': pid, 'reason': na_extra[pid]})
        elif pid not in built:
            na.append({'property_id': pid, 'reason': 'check not built yet in this revision of /verif (work in progress; design in DESIGN.md section 4)'})
    man = {
        'version': 1,
        'setup_cmd': 'true',
        'hooks': {
            'guard': 'SSH_AUDIT_VERIF',
            'enable': 'none: the checks are static (ast over /repo sources); no hook or instrumentation is compiled into the repository',
            'baseline_off_cmd': BASE,
            'source_commits': [],
            'add_only': True,
        },
        'engines': [{'name': 'sa', 'path': '/verif/sa', 'serves_properties': [c['property_id'] for c in checks],
                     'kind_free_text': 'repo-specific static analysis engine on the stdlib ast module: loader, constant evaluator, call-graph resolver with light type inference, statement CFG with exceptional edges, propositional/ordering evaluator, exception-escape analysis, regex automata'}],
        'checks': checks,
        'not_applicable': na,
        'notes': 'All checks read /repo sources on every run and never import or execute repository code. Exit 2 + ANALYSIS-ERROR means the checker could not decide (anchor vanished / unrecognised idiom). Known genuine defects are listed in /verif/known_findings.json; fixes are "fix:" commits in /repo. Thorough tier adds whole-package widening and the mutant battery (/verif/mutants).',
    }
    with open(os.path.join(VERIF, 'MANIFEST.json'), 'w') as f:
        json.dump(man, f, indent=1)
    print('MANIFEST.json: %d checks, %d not_applicable' % (len(checks), len(na)))


if __name__ == '__main__':
    main()
