#!/usr/bin/env python3
"""Development-time robustness probe (never decides a property): build behaviour-preserving twins of /repo by applying one
syntactic transformation everywhere it applies, confirm the repository's test-suite still passes on the twin, then run every
quick check against it.  exit 1 on a twin = a rule bound to one spelling (false alarm on a benign edit); exit 2 = "cannot
decide" (acceptable, listed).  Scratch copies live under mkdtemp and are removed.

usage: twin_transform.py [transform ...] [--modules m1,m2] [--keep-going]
transforms: tmparg noelse addelse docstring extracttest swapconst ifswap cmpflip notnone rettemp contguard andnest lenge
"""
import ast
import concurrent.futures
import os
import shutil
import subprocess
import sys
import tempfile


def simple(e):
    if isinstance(e, (ast.Name, ast.Constant)):
        return True
    if isinstance(e, ast.Attribute):
        return simple(e.value)
    if isinstance(e, ast.Subscript):
        return simple(e.value) and simple(e.slice)
    if isinstance(e, ast.Call) and isinstance(e.func, ast.Name) and e.func.id == 'len' and len(e.args) == 1:
        return simple(e.args[0])
    if isinstance(e, ast.UnaryOp) and isinstance(e.op, ast.USub):
        return simple(e.operand)
    return False


class IfSwap(ast.NodeTransformer):
    n = 0

    def visit_If(self, node):
        self.generic_visit(node)
        if node.orelse and not (len(node.orelse) == 1 and isinstance(node.orelse[0], ast.If)):
            IfSwap.n += 1
            return ast.If(test=ast.UnaryOp(op=ast.Not(), operand=node.test), body=node.orelse, orelse=node.body)
        return node


class CmpFlip(ast.NodeTransformer):
    n = 0
    FLIP = {ast.Lt: ast.Gt, ast.Gt: ast.Lt, ast.LtE: ast.GtE, ast.GtE: ast.LtE, ast.Eq: ast.Eq, ast.NotEq: ast.NotEq}

    def visit_Compare(self, node):
        self.generic_visit(node)
        if len(node.ops) == 1 and type(node.ops[0]) in self.FLIP and simple(node.left) and simple(node.comparators[0]):
            CmpFlip.n += 1
            return ast.Compare(left=node.comparators[0], ops=[self.FLIP[type(node.ops[0])]()], comparators=[node.left])
        return node


class NotNone(ast.NodeTransformer):
    n = 0

    def visit_Compare(self, node):
        self.generic_visit(node)
        if len(node.ops) == 1 and isinstance(node.ops[0], ast.IsNot) and isinstance(node.comparators[0], ast.Constant) and node.comparators[0].value is None:
            NotNone.n += 1
            return ast.UnaryOp(op=ast.Not(), operand=ast.Compare(left=node.left, ops=[ast.Is()], comparators=node.comparators))
        return node


class RetTemp(ast.NodeTransformer):
    n = 0

    def _block(self, stmts):
        out = []
        for st in stmts:
            if isinstance(st, ast.Return) and st.value is not None and not isinstance(st.value, (ast.Name, ast.Constant)):
                RetTemp.n += 1
                out.append(ast.Assign(targets=[ast.Name(id='_retval', ctx=ast.Store())], value=st.value, lineno=st.lineno))
                out.append(ast.Return(value=ast.Name(id='_retval', ctx=ast.Load())))
            else:
                out.append(st)
        return out

    def generic_visit(self, node):
        super().generic_visit(node)
        for fld in ('body', 'orelse', 'finalbody'):
            b = getattr(node, fld, None)
            if isinstance(b, list) and b and isinstance(b[0], ast.stmt):
                setattr(node, fld, self._block(b))
        return node


class ContGuard(ast.NodeTransformer):
    n = 0

    def _rewrite(self, body):
        for i, st in enumerate(body[:-1]):
            if isinstance(st, ast.If) and not st.orelse and len(st.body) == 1 and isinstance(st.body[0], ast.Continue):
                ContGuard.n += 1
                rest = self._rewrite(body[i + 1:])
                return body[:i] + [ast.If(test=ast.UnaryOp(op=ast.Not(), operand=st.test), body=rest, orelse=[])]
        return body

    def visit_For(self, node):
        self.generic_visit(node)
        node.body = self._rewrite(node.body)
        return node

    def visit_While(self, node):
        self.generic_visit(node)
        node.body = self._rewrite(node.body)
        return node


class AndNest(ast.NodeTransformer):
    n = 0

    def visit_If(self, node):
        self.generic_visit(node)
        if not node.orelse and isinstance(node.test, ast.BoolOp) and isinstance(node.test.op, ast.And) and len(node.test.values) == 2:
            AndNest.n += 1
            return ast.If(test=node.test.values[0], body=[ast.If(test=node.test.values[1], body=node.body, orelse=[])], orelse=[])
        return node


class LenGe(ast.NodeTransformer):
    n = 0

    def visit_Compare(self, node):
        self.generic_visit(node)
        if len(node.ops) == 1 and isinstance(node.ops[0], ast.Gt) and isinstance(node.left, ast.Call) and isinstance(node.left.func, ast.Name) and node.left.func.id == 'len' \
                and isinstance(node.comparators[0], ast.Constant) and node.comparators[0].value == 0:
            LenGe.n += 1
            return ast.Compare(left=node.left, ops=[ast.GtE()], comparators=[ast.Constant(value=1)])
        return node


class Docstring(ast.NodeTransformer):
    n = 0

    def visit_FunctionDef(self, node):
        self.generic_visit(node)
        if not (node.body and isinstance(node.body[0], ast.Expr) and isinstance(node.body[0].value, ast.Constant) and isinstance(node.body[0].value.value, str)):
            Docstring.n += 1
            node.body.insert(0, ast.Expr(value=ast.Constant(value='Documented by the twin generator.')))
        return node


class ExtractTest(ast.NodeTransformer):
    """if <compound test>: ...  ->  _cond = <test>; if _cond: ...   (not for elif arms, not inside loops' else)"""
    n = 0

    def _block(self, stmts):
        out = []
        for st in stmts:
            if isinstance(st, ast.If) and isinstance(st.test, (ast.BoolOp, ast.Compare)) and not getattr(st, '_elif', False):
                ExtractTest.n += 1
                name = '_cond%d' % ExtractTest.n
                out.append(ast.Assign(targets=[ast.Name(id=name, ctx=ast.Store())], value=st.test, lineno=st.lineno))
                st.test = ast.Name(id=name, ctx=ast.Load())
            out.append(st)
        return out

    def generic_visit(self, node):
        # mark elif arms first
        if isinstance(node, ast.If) and len(node.orelse) == 1 and isinstance(node.orelse[0], ast.If):
            node.orelse[0]._elif = True
        super().generic_visit(node)
        for fld in ('body', 'orelse', 'finalbody'):
            b = getattr(node, fld, None)
            if isinstance(b, list) and b and isinstance(b[0], ast.stmt):
                setattr(node, fld, self._block(b))
        return node


class SwapConstAssigns(ast.NodeTransformer):
    """a = <const>; b = <const>  ->  b = <const>; a = <const>   (adjacent, distinct plain names)"""
    n = 0

    def _block(self, stmts):
        out = list(stmts)
        i = 0
        while i + 1 < len(out):
            a, b = out[i], out[i + 1]
            if all(isinstance(x, ast.Assign) and len(x.targets) == 1 and isinstance(x.targets[0], ast.Name) and isinstance(x.value, ast.Constant) for x in (a, b)) and a.targets[0].id != b.targets[0].id:
                SwapConstAssigns.n += 1
                out[i], out[i + 1] = b, a
                i += 2
            else:
                i += 1
        return out

    def generic_visit(self, node):
        super().generic_visit(node)
        for fld in ('body', 'orelse', 'finalbody'):
            b = getattr(node, fld, None)
            if isinstance(b, list) and b and isinstance(b[0], ast.stmt):
                setattr(node, fld, self._block(b))
        return node


def _jumps(st):
    return isinstance(st, (ast.Return, ast.Raise, ast.Continue, ast.Break))


class NoElse(ast.NodeTransformer):
    """if c: ...; return X  else: REST   ->   if c: ...; return X   REST      (pylint no-else-return style)"""
    n = 0

    def _block(self, stmts):
        out = []
        for st in stmts:
            if isinstance(st, ast.If) and st.orelse and st.body and _jumps(st.body[-1]):
                NoElse.n += 1
                rest = st.orelse
                st.orelse = []
                out.append(st)
                out.extend(self._block(rest))
            else:
                out.append(st)
        return out

    def generic_visit(self, node):
        super().generic_visit(node)
        for fld in ('body', 'orelse', 'finalbody'):
            b = getattr(node, fld, None)
            if isinstance(b, list) and b and isinstance(b[0], ast.stmt):
                setattr(node, fld, self._block(b))
        return node


class AddElse(ast.NodeTransformer):
    """if c: ...; return X   REST   ->   if c: ...; return X  else: REST     (the reverse)"""
    n = 0

    def _block(self, stmts):
        for i, st in enumerate(stmts[:-1]):
            if isinstance(st, ast.If) and not st.orelse and st.body and _jumps(st.body[-1]):
                AddElse.n += 1
                st.orelse = self._block(stmts[i + 1:])
                return stmts[:i + 1]
        return stmts

    def generic_visit(self, node):
        super().generic_visit(node)
        for fld in ('body', 'orelse', 'finalbody'):
            b = getattr(node, fld, None)
            if isinstance(b, list) and b and isinstance(b[0], ast.stmt):
                setattr(node, fld, self._block(b))
        return node


class TmpArg(ast.NodeTransformer):
    """f(g(x), ...) as a statement or assigned value  ->  _arg = g(x); f(_arg, ...)   (first argument only: evaluation order is preserved
    because the callee expression is a plain name / attribute chain of names)"""
    n = 0

    def _plain(self, e):
        return isinstance(e, ast.Name) or (isinstance(e, ast.Attribute) and self._plain(e.value))

    def _block(self, stmts):
        out = []
        for st in stmts:
            call = None
            if isinstance(st, ast.Expr) and isinstance(st.value, ast.Call):
                call = st.value
            elif isinstance(st, ast.Assign) and isinstance(st.value, ast.Call) and len(st.targets) == 1 and isinstance(st.targets[0], ast.Name):
                call = st.value
            if call is not None and self._plain(call.func) and call.args and isinstance(call.args[0], ast.Call) and not any(isinstance(a, ast.Starred) for a in call.args):
                TmpArg.n += 1
                name = '_arg%d' % TmpArg.n
                out.append(ast.Assign(targets=[ast.Name(id=name, ctx=ast.Store())], value=call.args[0], lineno=st.lineno))
                call.args[0] = ast.Name(id=name, ctx=ast.Load())
            out.append(st)
        return out

    def generic_visit(self, node):
        super().generic_visit(node)
        for fld in ('body', 'orelse', 'finalbody'):
            b = getattr(node, fld, None)
            if isinstance(b, list) and b and isinstance(b[0], ast.stmt):
                setattr(node, fld, self._block(b))
        return node


TRANSFORMS = {'tmparg': TmpArg, 'noelse': NoElse, 'addelse': AddElse, 'docstring': Docstring, 'extracttest': ExtractTest, 'swapconst': SwapConstAssigns, 'ifswap': IfSwap, 'cmpflip': CmpFlip, 'notnone': NotNone, 'rettemp': RetTemp, 'contguard': ContGuard, 'andnest': AndNest, 'lenge': LenGe}


def run_check(args):
    pid, dst, tmp = args
    e2 = dict(os.environ, VERIF_REPO=dst, VERIF_EVIDENCE_DIR=os.path.join(tmp, 'ev'), VERIF_OUT_DIR=os.path.join(tmp, 'out'), VERIF_NO_BATTERY='1', PYTHONDONTWRITEBYTECODE='1')
    r = subprocess.run([sys.executable, '/verif/check.py', pid, '--tier', 'quick'], env=e2, capture_output=True, text=True)
    lines = [l for l in r.stdout.splitlines() if l.startswith(pid + ' [') or l.startswith('ANALYSIS-ERROR')]
    return pid, r.returncode, lines


def one(name, modules=None):
    cls = TRANSFORMS[name]
    cls.n = 0
    tmp = tempfile.mkdtemp(prefix='verif-twin-')
    try:
        dst = os.path.join(tmp, 'repo')
        shutil.copytree('/repo/src', os.path.join(dst, 'src'), ignore=shutil.ignore_patterns('__pycache__'))
        shutil.copytree('/repo/test', os.path.join(dst, 'test'), ignore=shutil.ignore_patterns('__pycache__', 'docker'))
        shutil.copy('/repo/ssh-audit.py', os.path.join(dst, 'ssh-audit.py'))
        for fn in sorted(os.listdir(os.path.join(dst, 'src', 'ssh_audit'))):
            if not fn.endswith('.py') or (modules and fn[:-3] not in modules):
                continue
            p = os.path.join(dst, 'src', 'ssh_audit', fn)
            tree = ast.parse(open(p).read())
            tree = cls().visit(tree)
            ast.fix_missing_locations(tree)
            open(p, 'w').write(ast.unparse(tree) + '\n')
        print('== %s: %d sites rewritten%s' % (name, cls.n, ' in %s' % sorted(modules) if modules else ''))
        env = dict(os.environ, PYTHONPATH=os.path.join(dst, 'src'), PYTHONDONTWRITEBYTECODE='1')
        p = subprocess.run('/venv/bin/python -m pytest -q -p no:cacheprovider test', shell=True, cwd=dst, env=env, capture_output=True, text=True)
        print('   twin test-suite:', (p.stdout.strip().splitlines() or ['?'])[-1])
        if p.returncode != 0:
            print(p.stdout[-1500:])
            return None
        bad = und = 0
        with concurrent.futures.ThreadPoolExecutor(max_workers=10) as ex:
            for pid, rc, lines in ex.map(run_check, [('C%02d' % i, dst, tmp) for i in range(1, 20)]):
                if rc == 1:
                    bad += 1
                    print('   %s FALSE ALARM' % pid)
                    for l in lines[:6]:
                        print('        ' + l[:260])
                elif rc == 2:
                    und += 1
                    print('   %s undecided: %s' % (pid, (lines[0] if lines else '')[:220]))
        print('   false alarms: %d, undecided: %d' % (bad, und))
        return bad
    finally:
        shutil.rmtree(tmp, ignore_errors=True)


def main():
    args = [a for a in sys.argv[1:] if not a.startswith('--')]
    modules = None
    for a in sys.argv[1:]:
        if a.startswith('--modules='):
            modules = set(a.split('=', 1)[1].split(','))
    total = 0
    for name in (args or list(TRANSFORMS)):
        r = one(name, modules)
        total += r or 0
    return 1 if total else 0


if __name__ == '__main__':
    sys.exit(main())
