#!/usr/bin/env python3
"""Development-time robustness probe: build a behaviour-preserving twin of /repo in which every local variable
(not parameters, not closure-captured names) of every function is alpha-renamed, confirm the twin still passes the
repository's test-suite, then run every quick check against it.  A check that reports a VIOLATION on the twin has a
text-bound rule (false alarm on a benign edit); ANALYSIS-ERROR (exit 2) means "cannot decide" and is listed too.

usage: twin_rename.py [suffix]      (scratch copy under mkdtemp, removed afterwards)
"""
import ast
import os
import shutil
import subprocess
import sys
import tempfile

SUFFIX = sys.argv[1] if len(sys.argv) > 1 else '_rn'


class Renamer(ast.NodeTransformer):
    def visit_FunctionDef(self, node):
        # process nested functions first (they are separate scopes)
        nested_free = set()
        for ch in ast.walk(node):
            if ch is not node and isinstance(ch, (ast.FunctionDef, ast.AsyncFunctionDef, ast.Lambda)):
                for n in ast.walk(ch):
                    if isinstance(n, ast.Name):
                        nested_free.add(n.id)
        params = {a.arg for a in node.args.posonlyargs + node.args.args + node.args.kwonlyargs}
        if node.args.vararg:
            params.add(node.args.vararg.arg)
        if node.args.kwarg:
            params.add(node.args.kwarg.arg)
        declared = set()
        for n in ast.walk(node):
            if isinstance(n, (ast.Global, ast.Nonlocal)):
                declared |= set(n.names)
        locals_ = set()

        def own_nodes(n):
            for ch in ast.iter_child_nodes(n):
                if isinstance(ch, (ast.FunctionDef, ast.AsyncFunctionDef, ast.Lambda, ast.ClassDef)):
                    continue
                yield ch
                yield from own_nodes(ch)
        for n in own_nodes(node):
            if isinstance(n, ast.Name) and isinstance(n.ctx, ast.Store):
                locals_.add(n.id)
            if isinstance(n, ast.ExceptHandler) and n.name:
                pass        # keep handler names (simple)
        locals_ -= params | declared | nested_free
        locals_ = {x for x in locals_ if not x.startswith('__')}
        for n in own_nodes(node):
            if isinstance(n, ast.Name) and n.id in locals_:
                n.id = n.id + SUFFIX
        # recurse into nested function definitions
        for ch in ast.walk(node):
            if ch is not node and isinstance(ch, (ast.FunctionDef, ast.AsyncFunctionDef)) and not getattr(ch, '_done', False):
                ch._done = True
                self.visit_FunctionDef(ch)
        return node

    visit_AsyncFunctionDef = visit_FunctionDef


def main():
    tmp = tempfile.mkdtemp(prefix='verif-twin-')
    try:
        dst = os.path.join(tmp, 'repo')
        shutil.copytree('/repo/src', os.path.join(dst, 'src'), ignore=shutil.ignore_patterns('__pycache__'))
        shutil.copytree('/repo/test', os.path.join(dst, 'test'), ignore=shutil.ignore_patterns('__pycache__', 'docker'))
        shutil.copy('/repo/ssh-audit.py', os.path.join(dst, 'ssh-audit.py'))
        nren = 0
        for fn in sorted(os.listdir(os.path.join(dst, 'src', 'ssh_audit'))):
            if not fn.endswith('.py'):
                continue
            p = os.path.join(dst, 'src', 'ssh_audit', fn)
            src = open(p).read()
            tree = ast.parse(src)
            for n in tree.body:
                if isinstance(n, (ast.FunctionDef, ast.AsyncFunctionDef)):
                    n._done = True
                    Renamer().visit_FunctionDef(n)
                elif isinstance(n, ast.ClassDef):
                    for m in ast.walk(n):
                        if isinstance(m, (ast.FunctionDef, ast.AsyncFunctionDef)) and not getattr(m, '_done', False):
                            m._done = True
                            Renamer().visit_FunctionDef(m)
            out = ast.unparse(tree)
            nren += out.count(SUFFIX)
            open(p, 'w').write(out + '\n')
        print('renamed occurrences:', nren)
        env = dict(os.environ, PYTHONPATH=os.path.join(dst, 'src'), PYTHONDONTWRITEBYTECODE='1')
        p = subprocess.run('/venv/bin/python -m pytest -q -p no:cacheprovider test', shell=True, cwd=dst, env=env, capture_output=True, text=True)
        print('twin test-suite:', (p.stdout.strip().splitlines() or ['?'])[-1])
        if p.returncode != 0:
            print(p.stdout[-2000:])
            return 2
        bad = 0
        for i in range(1, 20):
            pid = 'C%02d' % i
            e2 = dict(os.environ, VERIF_REPO=dst, VERIF_EVIDENCE_DIR=os.path.join(tmp, 'ev'), VERIF_OUT_DIR=os.path.join(tmp, 'out'), VERIF_NO_BATTERY='1')
            r = subprocess.run([sys.executable, '/verif/check.py', pid, '--tier', 'quick'], env=e2, capture_output=True, text=True)
            lines = [l for l in r.stdout.splitlines() if l.startswith(pid + ' [') or l.startswith('ANALYSIS-ERROR')]
            print('%s exit=%d %s' % (pid, r.returncode, (lines[0][:220] if lines else '')))
            if r.returncode == 1:
                bad += 1
                for l in lines[1:6]:
                    print('      ' + l[:220])
        print('false alarms on the renamed twin: %d' % bad)
        return 1 if bad else 0
    finally:
        shutil.rmtree(tmp, ignore_errors=True)


if __name__ == '__main__':
    sys.exit(main())
