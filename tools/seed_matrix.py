#!/usr/bin/env python3
"""Development-time helper: re-run every registered quick check against every kept seeded change
(/verif/seeded/<name>/patch.diff applied to a scratch copy of /repo's current tree under mkdtemp, removed afterwards),
refresh caught_by_checks / undecided_checks / own_check_result in each meta.json and print the matrix.

usage: seed_matrix.py [name ...]
"""
import concurrent.futures
import json
import os
import shutil
import subprocess
import sys
import tempfile

VERIF = os.path.dirname(os.path.dirname(os.path.abspath(__file__)))
PROPS = ['C%02d' % i for i in range(1, 20)]


def one(name):
    d = os.path.join(VERIF, 'seeded', name)
    tmp = tempfile.mkdtemp(prefix='verif-seed-')
    try:
        dst = os.path.join(tmp, 'repo')
        os.makedirs(os.path.join(dst, 'src'))
        shutil.copytree('/repo/src/ssh_audit', os.path.join(dst, 'src', 'ssh_audit'), ignore=shutil.ignore_patterns('__pycache__'))
        shutil.copy('/repo/ssh-audit.py', os.path.join(dst, 'ssh-audit.py'))
        p = subprocess.run(['patch', '-s', '-p1', '-i', os.path.join(d, 'patch.diff')], cwd=dst, capture_output=True, text=True)
        if p.returncode != 0:
            return name, None, 'patch does not apply: %s' % (p.stdout + p.stderr).strip()[:200]
        res = {}
        for pid in PROPS:
            env = dict(os.environ, VERIF_REPO=dst, VERIF_EVIDENCE_DIR=os.path.join(tmp, 'ev'), VERIF_OUT_DIR=os.path.join(tmp, 'out'), VERIF_NO_BATTERY='1', PYTHONDONTWRITEBYTECODE='1')
            r = subprocess.run([sys.executable, os.path.join(VERIF, 'check.py'), pid, '--tier', 'quick'], env=env, capture_output=True, text=True)
            viol = [l[:400] for l in r.stdout.splitlines() if l.startswith(pid + ' [')]
            res[pid] = (r.returncode, viol)
        return name, res, None
    finally:
        shutil.rmtree(tmp, ignore_errors=True)


def main():
    names = sys.argv[1:] or sorted(os.listdir(os.path.join(VERIF, 'seeded')))
    with concurrent.futures.ThreadPoolExecutor(max_workers=8) as ex:
        results = list(ex.map(one, names))
    own_missed = []
    for name, res, err in results:
        if err:
            print('%-7s %s' % (name, err))
            continue
        mp = os.path.join(VERIF, 'seeded', name, 'meta.json')
        meta = json.load(open(mp))
        own = meta['property']
        caught = [p for p in PROPS if res[p][0] == 1]
        und = [p for p in PROPS if res[p][0] == 2]
        meta['caught_by_checks'] = caught
        meta['undecided_checks'] = und
        meta['own_check_result'] = {'exit': res[own][0], 'violations': res[own][1][:3]}
        json.dump(meta, open(mp, 'w'), indent=1)
        print('%-7s own=%s caught_by=%s undecided=%s' % (name, 'CAUGHT' if own in caught else 'missed', caught, und))
        if own not in caught:
            own_missed.append(name)
    print('own check misses:', own_missed)


if __name__ == '__main__':
    main()
