#!/bin/bash
# usage: scratch.sh <patch.diff> <dir>   -- scratch copy of /repo's analysed sources with a patch applied (development helper; remove <dir> afterwards)
set -e
rm -rf "$2"; mkdir -p "$2/src"
cp -r /repo/src/ssh_audit "$2/src/"; cp /repo/ssh-audit.py "$2/"
find "$2" -name __pycache__ -prune -exec rm -rf {} +
(cd "$2" && patch -s -p1 -i "$1")
