#!/usr/bin/env python3
"""Development-time helper: confirm a seeded change from a scratch worktree and record it under /verif/seeded/<name>/.

usage: eval_seed.py <property id> <worktree> [<name>]
 1. patch = `git diff` of the worktree (source change only)
 2. the existing test-suite passes with the patch
 3. the demonstration fails with the patch and passes without it
 4. the patch is applied to /repo (git apply), every registered quick check is run, and /repo is restored (git checkout -- .)
 5. patch.diff, the demonstration and meta.json are written to /verif/seeded/<name>/
"""
import json
import os
import shutil
import subprocess
import sys

VERIF = os.path.dirname(os.path.dirname(os.path.abspath(__file__)))


def sh(cmd, cwd=None, env=None, timeout=900):
    p = subprocess.run(cmd, shell=True, cwd=cwd, env=env, capture_output=True, text=True, timeout=timeout)
    return p.returncode, (p.stdout + p.stderr)


def demo_cmd(wt):
    if os.path.exists(os.path.join(wt, 'DEMO', 'demo.py')):
        return '/venv/bin/python DEMO/demo.py'
    tests = [f for f in os.listdir(os.path.join(wt, 'DEMO')) if f.startswith('test_') and f.endswith('.py')]
    if tests:
        return '/venv/bin/python -m pytest -q -p no:cacheprovider ' + ' '.join('DEMO/' + t for t in sorted(tests))
    raise SystemExit('no demonstration found in %s/DEMO' % wt)


def main():
    prop, wt = sys.argv[1].upper(), sys.argv[2].rstrip('/')
    name = sys.argv[3] if len(sys.argv) > 3 else prop + '-a'
    env = dict(os.environ, PYTHONPATH=os.path.join(wt, 'src'), PYTHONDONTWRITEBYTECODE='1')
    rc, patch = sh('git diff', cwd=wt)
    if not patch.strip():
        raise SystemExit('worktree has no uncommitted source change')
    report = {'property': prop, 'name': name}
    rc, out = sh('/venv/bin/python -m pytest -q -p no:cacheprovider test', cwd=wt, env=env)
    report['suite_with_patch'] = out.strip().splitlines()[-1] if out.strip() else ''
    suite_ok = rc == 0
    dc = demo_cmd(wt)
    rc1, out1 = sh(dc, cwd=wt, env=env)
    # NOT `git stash`: refs/stash is shared by every worktree of the repository, concurrent users would swap changes
    pf0 = os.path.join('/tmp', 'seed-%s.rev.diff' % name)
    with open(pf0, 'w') as f:
        f.write(patch)
    rcr, outr = sh('git apply -R %s' % pf0, cwd=wt)
    if rcr != 0:
        raise SystemExit('cannot reverse the patch in the worktree: %s' % outr)
    try:
        rc0, out0 = sh(dc, cwd=wt, env=env)
    finally:
        sh('git apply %s' % pf0, cwd=wt)
        os.unlink(pf0)
    report['demo_cmd'] = 'cd <worktree> && PYTHONPATH=<worktree>/src ' + dc
    report['demo_with_patch_exit'] = rc1
    report['demo_without_patch_exit'] = rc0
    demo_ok = rc1 != 0 and rc0 == 0
    # static checks against /repo with the patch applied
    pf = os.path.join('/tmp', 'seed-%s.diff' % name)
    with open(pf, 'w') as f:
        f.write(patch)
    rc, out = sh('git -C /repo status --porcelain')
    if out.strip():
        raise SystemExit('/repo working tree is not clean: %s' % out)
    rc, out = sh('git -C /repo apply %s' % pf)
    if rc != 0:
        raise SystemExit('patch does not apply to /repo: %s' % out)
    results = {}
    try:
        man = json.load(open(os.path.join(VERIF, 'MANIFEST.json')))
        tmp_ev = '/tmp/seed-ev-%s' % name
        os.makedirs(tmp_ev, exist_ok=True)
        e2 = dict(os.environ, VERIF_EVIDENCE_DIR=tmp_ev, VERIF_OUT_DIR=tmp_ev, VERIF_NO_BATTERY='1')
        import concurrent.futures

        def one(c):
            rc_, out_ = sh(c['quick_cmd'], cwd=VERIF, env=e2)
            lines = [l for l in out_.splitlines() if l.startswith(c['property_id'] + ' [')]
            return c['property_id'], {'exit': rc_, 'violations': [l[:400] for l in lines][:4]}
        with concurrent.futures.ThreadPoolExecutor(max_workers=10) as ex:       # the checks only read the (patched) tree
            for pid, r_ in ex.map(one, man['checks']):
                results[pid] = r_
        shutil.rmtree(tmp_ev, ignore_errors=True)
    finally:
        sh('git -C /repo checkout -- .')
        os.unlink(pf)
    rc, out = sh('git -C /repo status --porcelain')
    assert not out.strip(), '/repo not restored!'
    caught_by = sorted(k for k, v in results.items() if v['exit'] == 1)
    undecided = sorted(k for k, v in results.items() if v['exit'] == 2)
    report.update({'suite_ok': suite_ok, 'demo_ok': demo_ok, 'caught_by': caught_by, 'undecided': undecided, 'own_check': results.get(prop)})
    print(json.dumps(report, indent=1))
    if not (suite_ok and demo_ok):
        print('NOT KEPT: suite_ok=%s demo_ok=%s' % (suite_ok, demo_ok))
        print(out1[-1500:])
        return 1
    dst = os.path.join(VERIF, 'seeded', name)
    os.makedirs(dst, exist_ok=True)
    with open(os.path.join(dst, 'patch.diff'), 'w') as f:
        f.write(patch)
    if os.path.isdir(os.path.join(dst, 'DEMO')):
        shutil.rmtree(os.path.join(dst, 'DEMO'))
    shutil.copytree(os.path.join(wt, 'DEMO'), os.path.join(dst, 'DEMO'), ignore=shutil.ignore_patterns('__pycache__', '.pytest_cache'))
    notes = ''
    np_ = os.path.join(wt, 'DEMO', 'NOTES.md')
    if os.path.exists(np_):
        notes = open(np_).read()
    meta = {
        'property': prop, 'name': name, 'origin': 'independent sub-agent given only the property text and a scratch worktree',
        'needs_to_manifest': notes,
        'what_i_ran': ['existing suite with the patch: %s' % report['suite_with_patch'], 'demonstration with the patch: exit %d; without: exit %d (%s)' % (rc1, rc0, report['demo_cmd']),
                       'git -C /repo apply patch.diff; every registered quick check; git -C /repo checkout -- .'],
        'caught_by_checks': caught_by, 'undecided_checks': undecided, 'own_check_result': results.get(prop),
    }
    with open(os.path.join(dst, 'meta.json'), 'w') as f:
        json.dump(meta, f, indent=1)
    print('KEPT -> %s ; caught by %s' % (dst, caught_by or 'NOTHING'))
    return 0


if __name__ == '__main__':
    sys.exit(main())
