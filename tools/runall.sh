#!/bin/sh
# run every registered quick check; print one line per property; exit non-zero if any check does
rc=0
for p in C01 C02 C03 C04 C05 C06 C07 C08 C09 C10 C11 C12 C13 C14 C15 C16 C17 C18 C19; do
  python3 /verif/check.py $p --tier ${1:-quick} > /tmp/runall_$p.out 2>&1
  e=$?
  [ $e -ne 0 ] && rc=1
  echo "$p exit=$e $(grep -c '^KNOWN-FINDING' /tmp/runall_$p.out) known; $(tail -1 /tmp/runall_$p.out | cut -c1-110)"
done
exit $rc
