#!/usr/bin/env python3
"""Development-time helper (never run by a check): add a triaged finding to known_findings.json from a replay file."""
import json
import os
import sys

VERIF = os.path.dirname(os.path.dirname(os.path.abspath(__file__)))
rp, what = sys.argv[1], sys.argv[2]
demo = sys.argv[3] if len(sys.argv) > 3 else ''
f = json.load(open(rp))
kp = os.path.join(VERIF, 'known_findings.json')
k = json.load(open(kp))
ent = {'property': f['property'], 'rule': f['rule'], 'function': f['function'], 'statement': f['statement'], 'what': what}
if demo:
    ent['demonstration'] = demo
if not any((e['property'], e['rule'], e['function'], e['statement']) == (ent['property'], ent['rule'], ent['function'], ent['statement']) for e in k['known']):
    k['known'].append(ent)
json.dump(k, open(kp, 'w'), indent=1)
print('added', ent['property'], ent['rule'], ent['function'])
