#!/usr/bin/env python3
"""Regenerate sa/reference_shapes.json (statement shapes + local names of every function) from the current /repo tree.
Run only when the rules have been (re)confirmed against that tree."""
import json
import os
import sys
sys.path.insert(0, os.path.dirname(os.path.dirname(os.path.abspath(__file__))))
os.environ['VERIF_NO_NORMALISE'] = '1'
from sa.core import Repo          # noqa: E402
from sa import alphanorm, canon   # noqa: E402
repo = Repo()
ref = alphanorm.build_reference(repo)
with open(alphanorm.REF_PATH, 'w') as f:
    json.dump(ref, f)
print('reference shapes for %d functions written to %s (%d bytes)' % (len(ref), alphanorm.REF_PATH, os.path.getsize(alphanorm.REF_PATH)))
cref = canon.build_reference(repo)
with open(canon.REF_PATH, 'w') as f:
    json.dump(cref, f)
print('reference spellings for %d functions written to %s (%d bytes)' % (len(cref), canon.REF_PATH, os.path.getsize(canon.REF_PATH)))
