#!/usr/bin/env python3
"""Development-time helper: confirm an independently written behaviour-preserving refactoring from a scratch worktree and record it under
/verif/refactors/<name>/ together with what every registered quick check says about it.

usage: eval_refactor.py <name> <worktree>
 1. patch = `git diff` of the worktree (source change only)
 2. the existing test-suite passes with the patch
 3. the author's differential demonstration (old vs new behaviour) exits 0
 4. the patch is applied to a scratch copy of /repo's current tree; every quick check runs on it
    exit 0 = silent (expected), exit 1 = FALSE ALARM (the rule is bound to a spelling), exit 2 = cannot decide
 5. patch.diff, DEMO/ and meta.json are written to /verif/refactors/<name>/
"""
import concurrent.futures
import json
import os
import shutil
import subprocess
import sys
import tempfile

VERIF = os.path.dirname(os.path.dirname(os.path.abspath(__file__)))
PROPS = ['C%02d' % i for i in range(1, 20)]


def sh(cmd, cwd=None, env=None, timeout=900):
    p = subprocess.run(cmd, shell=True, cwd=cwd, env=env, capture_output=True, text=True, timeout=timeout)
    return p.returncode, (p.stdout + p.stderr)


def run_checks(patch_path):
    tmp = tempfile.mkdtemp(prefix='verif-refac-')
    try:
        dst = os.path.join(tmp, 'repo')
        os.makedirs(os.path.join(dst, 'src'))
        shutil.copytree('/repo/src/ssh_audit', os.path.join(dst, 'src', 'ssh_audit'), ignore=shutil.ignore_patterns('__pycache__'))
        shutil.copy('/repo/ssh-audit.py', os.path.join(dst, 'ssh-audit.py'))
        p = subprocess.run(['patch', '-s', '-p1', '-i', patch_path], cwd=dst, capture_output=True, text=True)
        if p.returncode != 0:
            return None, 'patch does not apply: %s' % (p.stdout + p.stderr).strip()[:200]

        def one(pid):
            env = dict(os.environ, VERIF_REPO=dst, VERIF_EVIDENCE_DIR=os.path.join(tmp, 'ev'), VERIF_OUT_DIR=os.path.join(tmp, 'out'), VERIF_NO_BATTERY='1', PYTHONDONTWRITEBYTECODE='1')
            try:
                r = subprocess.run([sys.executable, os.path.join(VERIF, 'check.py'), pid, '--tier', 'quick'], env=env, capture_output=True, text=True, timeout=300)
            except subprocess.TimeoutExpired:
                return pid, 3, ['timeout']
            if r.returncode not in (0, 1, 2):
                return pid, 3, (r.stdout + r.stderr).strip().splitlines()[-3:]
            lines = [l[:400] for l in r.stdout.splitlines() if l.startswith(pid + ' [') or l.startswith('ANALYSIS-ERROR')]
            return pid, r.returncode, lines
        with concurrent.futures.ThreadPoolExecutor(max_workers=10) as ex:
            return {pid: (rc, lines) for pid, rc, lines in ex.map(one, PROPS)}, None
    finally:
        shutil.rmtree(tmp, ignore_errors=True)


def main():
    name, wt = sys.argv[1], sys.argv[2].rstrip('/') if len(sys.argv) > 2 else None
    out = os.path.join(VERIF, 'refactors', name)
    if wt is not None:
        env = dict(os.environ, PYTHONPATH=os.path.join(wt, 'src'), PYTHONDONTWRITEBYTECODE='1')
        rc, patch = sh('git diff', cwd=wt)
        if not patch.strip():
            raise SystemExit('worktree has no uncommitted source change')
        rc, o = sh('/venv/bin/python -m pytest -q -p no:cacheprovider --timeout=900 test', cwd=wt, env=env)
        suite = (o.strip().splitlines() or ['?'])[-1]
        if rc != 0:
            raise SystemExit('REJECTED: suite fails with the refactoring: %s' % suite)
        for _attempt in range(4):     # the demonstrations open many short-lived local connections; a shared machine runs out of ephemeral ports now and then
            rc, o = sh('/venv/bin/python DEMO/demo.py', cwd=wt, env=env, timeout=300)
            if rc == 0:
                break
        demo = 'exit %d: %s' % (rc, (o.strip().splitlines() or ['?'])[-1][:200])
        if rc != 0:
            raise SystemExit('REJECTED: differential demonstration does not pass: %s' % demo)
        os.makedirs(out, exist_ok=True)
        open(os.path.join(out, 'patch.diff'), 'w').write(patch)
        if os.path.isdir(os.path.join(out, 'DEMO')):
            shutil.rmtree(os.path.join(out, 'DEMO'))
        shutil.copytree(os.path.join(wt, 'DEMO'), os.path.join(out, 'DEMO'), ignore=shutil.ignore_patterns('__pycache__'))
        meta = {'name': name, 'origin': 'independent sub-agent asked for a behaviour-preserving refactoring of the code one property is anchored in', 'suite_with_patch': suite, 'differential_demo': demo}
    else:
        meta = json.load(open(os.path.join(out, 'meta.json')))
    res, err = run_checks(os.path.join(out, 'patch.diff'))
    if err:
        meta['checks'] = err
        print('%s: %s' % (name, err))
    else:
        meta['false_alarms'] = {p: res[p][1][:3] for p in PROPS if res[p][0] == 1}
        meta['undecided'] = {p: res[p][1][:1] for p in PROPS if res[p][0] == 2}
        meta['silent'] = [p for p in PROPS if res[p][0] == 0]
        crashed = {p: res[p][1] for p in PROPS if res[p][0] == 3}
        print('%s: silent %d, FALSE ALARMS %s, undecided %s%s' % (name, len(meta['silent']), sorted(meta['false_alarms']), sorted(meta['undecided']), ', CRASHED %s' % sorted(crashed) if crashed else ''))
        for p, ls in list(meta['false_alarms'].items()) + list(meta['undecided'].items()) + list(crashed.items()):
            for l in ls[:2]:
                print('    %s' % l[:300])
    json.dump(meta, open(os.path.join(out, 'meta.json'), 'w'), indent=1)


if __name__ == '__main__':
    main()
