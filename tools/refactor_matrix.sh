#!/bin/bash
# re-run every registered quick check on every recorded behaviour-preserving refactoring (development helper)
cd "$(dirname "$0")/.."
for d in refactors/*/; do n=$(basename $d); python3 tools/eval_refactor.py $n; done 2>&1
