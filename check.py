#!/usr/bin/env python3
"""Entry point:  python3 /verif/check.py <ID> [--tier quick|thorough] [--replay FILE]

Exit 0: every rule instance held (known findings are printed as KNOWN-FINDING lines).
Exit 1: at least one unlisted violation (VIOLATION lines).
Exit 2: ANALYSIS-ERROR -- the checker could not decide (anchor vanished, unrecognised idiom).
"""
import argparse
import importlib
import json
import os
import sys
import traceback

sys.path.insert(0, os.path.dirname(os.path.abspath(__file__)))
sys.dont_write_bytecode = True

from sa.core import Repo, Reporter, AnalysisError  # noqa: E402


def main():
    ap = argparse.ArgumentParser()
    ap.add_argument('prop')
    ap.add_argument('--tier', default=os.environ.get('VERIF_TIER', 'quick'), choices=['quick', 'thorough'])
    ap.add_argument('--replay', default=None)
    ap.add_argument('--no-battery', action='store_true', help='thorough tier without the mutant battery (used by the battery itself)')
    a = ap.parse_args()
    prop = a.prop.upper()
    try:
        seed = int(os.environ.get('VERIF_SEED', '0'))
    except ValueError:
        seed = 0
    rep = Reporter(prop, a.tier, seed)
    repo = None
    try:
        mod = importlib.import_module('props.%s' % prop.lower())
        repo = Repo()
        mod.run(repo, rep, a.tier)
        if a.tier == 'thorough' and not a.no_battery and os.environ.get('VERIF_NO_BATTERY') != '1':
            from sa import battery
            battery.run_for_property(prop, rep, seed)
        if a.replay:
            with open(a.replay) as fh:
                want = json.load(fh)
            key = (want['property'], want['rule'], want['function'], want['statement'])
            hit = [f for f in rep.findings if f.key() == key]
            print('REPLAY: %s' % ('violation reproduced: %s' % hit[0] if hit else 'not reproduced on the current tree'))
        rc = rep.finish(repo)
        sys.exit(rc)
    except AnalysisError as e:
        # a rule instance already found violated is definite even if a later rule could not be decided
        rc = 0
        if rep.findings and repo is not None:
            rep.note('analysis incomplete: %s' % e)
            rc = rep.finish(repo)
        print('ANALYSIS-ERROR property=%s: %s' % (prop, e))
        sys.exit(1 if rc == 1 else 2)
    except SystemExit:
        raise
    except Exception:
        print('ANALYSIS-ERROR property=%s: internal checker error\n%s' % (prop, traceback.format_exc()))
        sys.exit(2)


if __name__ == '__main__':
    main()
