#!/usr/bin/env python3
"""C11: an Ed448 host key (fixed 456-bit key, ~224-bit security) must not be rated with the RSA thresholds.
Before the fix HostKeyTest.perform_test only recognised ssh-ed25519* / ecdsa-sha2-nistp* as elliptic-curve types, so `ssh-ed448` was compared with
2048/3072 and reported as "[fail] using small 456-bit modulus".
run: cd /repo && /venv/bin/python /verif/demos/demo_c11.py     (exit 1 when the defect is present)"""
import os
import subprocess
import sys
sys.path.insert(0, os.path.dirname(os.path.abspath(__file__)))
import fakessh  # noqa: E402

blob = fakessh.sshstr('ssh-ed448') + fakessh.sshstr(b'\x42' * 57)
srv = fakessh.FakeServer(fakessh.standard_handler('SSH-2.0-OpenSSH_9.6', ['curve25519-sha256'], ['ssh-ed448'], ['aes128-ctr'], ['hmac-sha2-256'], lambda wanted: fakessh.packet(fakessh.kex_reply(blob))))
p = subprocess.run(['/venv/bin/python', '/repo/ssh-audit.py', '-n', '--skip-rate-test', '127.0.0.1:%d' % srv.port], capture_output=True, text=True, timeout=60)
srv.stop()
lines = [l for l in p.stdout.splitlines() if 'ssh-ed448' in l or 'small' in l]
print('\n'.join(lines))
bad = any('small' in l and 'modulus' in l for l in p.stdout.splitlines())
print('DEFECT: Ed448 host key failed for its size' if bad else 'Ed448 host key carries no size failure')
sys.exit(1 if bad else 0)
