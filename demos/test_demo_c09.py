# Peers that misbehave must lead to a documented status (0-3), never to an uncaught exception.
import struct
import pytest
from ssh_audit.auditconf import AuditConf
from ssh_audit.outputbuffer import OutputBuffer
from ssh_audit.protocol import Protocol
from ssh_audit.ssh1 import SSH1
from ssh_audit.ssh_audit import audit
from ssh_audit.writebuf import WriteBuf


def conf(ssh1=False):
    c = AuditConf('localhost', 22)
    c.colors = False; c.batch = True
    c.ssh1, c.ssh2 = (True, False) if ssh1 else (False, True)
    c.skip_rate_test = True
    return c


def ssh1_packet(payload):
    padding = -(len(payload) + 4) % 8
    pad = b'\x00' * padding
    return struct.pack('>I', len(payload) + 4) + pad + payload + struct.pack('>I', SSH1.crc32(pad + payload))


def ssh2_packet(payload):
    padding = -(len(payload) + 5) % 8
    if padding < 4:
        padding += 8
    return struct.pack('>Ib', len(payload) + padding + 1, padding) + payload + b'\x00' * padding


def kexinit(kex, key, enc, mac):
    w = WriteBuf()
    w.write_byte(Protocol.MSG_KEXINIT); w.write(b'\x00' * 16)
    for l in (kex, key, enc, enc, mac, mac, ['none'], ['none'], [''], ['']):
        w.write_list(l)
    w.write_byte(0); w.write_int(0)
    return w.write_flush()


def test_ssh1_truncated_public_key_message(virtual_socket):
    virtual_socket.rdata.append(b'SSH-1.5-OpenSSH_7.2\r\n')
    virtual_socket.rdata.append(ssh1_packet(bytes([Protocol.SMSG_PUBLIC_KEY]) + b'\x01\x02\x03\x04\x05'))
    assert audit(OutputBuffer(), conf(ssh1=True)) in (0, 1, 2, 3)


def test_ssh1_empty_masks(virtual_socket):
    w = WriteBuf(); w.write_byte(Protocol.SMSG_PUBLIC_KEY); w.write(b'\x00' * 8)
    w.write_int(768).write_mpint1(0x10001).write_mpint1(0xb1).write_int(1024).write_mpint1(0x10001).write_mpint1(0xc3).write_int(2).write_int(0).write_int(0)
    virtual_socket.rdata.append(b'SSH-1.5-OpenSSH_7.2\r\n')
    virtual_socket.rdata.append(ssh1_packet(w.write_flush()))
    assert audit(OutputBuffer(), conf(ssh1=True)) in (0, 1, 2, 3)


def test_ssh2_empty_payload_packet(virtual_socket):
    virtual_socket.rdata.append(b'SSH-2.0-OpenSSH_8.9\r\n')
    virtual_socket.rdata.append(struct.pack('>Ib', 12, 11) + b'\x00' * 11)      # payload length 0
    assert audit(OutputBuffer(), conf()) in (0, 1, 2, 3)


def test_probe_reply_garbage(virtual_socket):
    vs = virtual_socket
    ki = kexinit(['diffie-hellman-group14-sha256'], ['ssh-ed25519'], ['aes128-ctr'], ['hmac-sha2-256'])
    vs.rdata.append(b'SSH-2.0-OpenSSH_8.9\r\n'); vs.rdata.append(ssh2_packet(ki))
    # host-key probe connection: banner, KEXINIT, then a KEXDH_REPLY whose host key blob is truncated
    vs.rdata.append(b'SSH-2.0-OpenSSH_8.9\r\n'); vs.rdata.append(ssh2_packet(ki))
    vs.rdata.append(ssh2_packet(bytes([Protocol.MSG_KEXDH_REPLY]) + b'\x00\x00'))
    assert audit(OutputBuffer(), conf()) in (0, 1, 2, 3)


def test_ssh1_packet_length_below_crc_size(virtual_socket):
    virtual_socket.rdata.append(b'SSH-1.5-OpenSSH_7.2\r\n')
    virtual_socket.rdata.append(struct.pack('>I', 2) + b'\x00' * 6 + b'\x02\x00')      # packet_length 2: no room for the CRC
    assert audit(OutputBuffer(), conf(ssh1=True)) in (0, 1, 2, 3)
