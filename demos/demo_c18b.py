# with -64 the rate test must resolve to the IPv6 address first, like the audit's own socket
import socket
from ssh_audit.dheat import DHEat
from ssh_audit.ssh_socket import SSH_Socket
from ssh_audit.outputbuffer import OutputBuffer
def fake(host, port, family=0, type=0, proto=0, flags=0):
    return [(socket.AF_INET, socket.SOCK_STREAM, 6, '', ('192.0.2.1', port)), (socket.AF_INET6, socket.SOCK_STREAM, 6, '', ('2001:db8::1', port, 0, 0))]
socket.getaddrinfo = fake
audit_first = next(iter(SSH_Socket(OutputBuffer(), 'h', 22, [6, 4])._resolve()))
rate = DHEat._resolve_hostname('h', [6, 4])
print(audit_first, rate)
assert rate[0] == audit_first[0], 'rate test dials a different address family than the audit'
print('OK')
