# a server that accepts and immediately closes: how many connections does the standard rate test (1.5 s, 38, 3) open?
import socket, threading, time
from ssh_audit.dheat import DHEat
from ssh_audit.auditconf import AuditConf
from ssh_audit.outputbuffer import OutputBuffer
from ssh_audit.ssh2_kex import SSH2_Kex
from ssh_audit.ssh2_kexparty import SSH2_KexParty
srv = socket.socket(); srv.setsockopt(socket.SOL_SOCKET, socket.SO_REUSEADDR, 1); srv.bind(('127.0.0.1', 0)); srv.listen(128)
port = srv.getsockname()[1]
count = [0]; stop = [False]
def serve():
    srv.settimeout(0.2)
    while not stop[0]:
        try:
            c, _ = srv.accept()
        except OSError:
            continue
        count[0] += 1
        c.close()
threading.Thread(target=serve, daemon=True).start()
p = SSH2_KexParty(['aes128-ctr'], ['hmac-sha2-256'], ['none'], [''])
kex = SSH2_Kex(OutputBuffer(), b'\0' * 16, ['diffie-hellman-group14-sha256'], ['ssh-ed25519'], p, p, False, 0)
conf = AuditConf('127.0.0.1', port)
DHEat.dh_rate_test(OutputBuffer(), conf, kex, 1.5, 38, 3)
stop[0] = True; time.sleep(0.3)
print('connections accepted by the server:', count[0])
assert count[0] <= 38 + 3, 'rate test opened %d connections (limit 38)' % count[0]
