# two "targets" handled by the same pool thread: the second sees the first one's rating-table edits
import concurrent.futures
import ssh_audit.ssh_audit as sa
from ssh_audit.ssh2_kexdb import SSH2_KexDB
from ssh_audit.auditconf import AuditConf
calls = []
def fake_audit(out, aconf, sshv=None, print_target=False):
    db = SSH2_KexDB.get_db()
    seen = list(db['enc']['aes128-cbc'][2])
    calls.append((aconf.host, seen))
    if aconf.host == 'first':
        db['enc']['aes128-cbc'][2].append('vulnerable to the Terrapin attack')
    return 0
sa.audit = fake_audit
conf = AuditConf()
with concurrent.futures.ThreadPoolExecutor(max_workers=1) as ex:
    for h in ('first', 'second'):
        ex.submit(sa.target_worker_thread, h, 22, conf).result()
print(calls)
assert not any('Terrapin' in n for n in calls[1][1]), 'finding of target 1 leaked into target 2'
print('OK: no leak')
