#!/usr/bin/env python3
"""C16: "the reported protocol version, software string and comments equal the corresponding parts of the line".
A banner line that reaches the tool in two TCP segments ("SSH-2.0-Open" | "SSH_8.9p1 Ubuntu-3\\r\\n") must be reported as one line.
Before the fix get_banner() parsed whatever read_line() returned after the first recv(): the banner became "SSH-2.0-Open" and the rest of the
line was taken for packet data.
run: cd /repo && /venv/bin/python /verif/demos/demo_c16.py      (exit 1 when the defect is present)"""
import os
import subprocess
import sys
import time
sys.path.insert(0, os.path.dirname(os.path.abspath(__file__)))
import fakessh  # noqa: E402


def handler(conn, server):
    conn.sendall(b'SSH-2.0-Open')
    time.sleep(0.4)
    conn.sendall(b'SSH_8.9p1 Ubuntu-3\r\n')
    conn.sendall(fakessh.packet(fakessh.kexinit(['curve25519-sha256'], ['ssh-ed25519'], ['aes128-ctr'], ['hmac-sha2-256'])))
    fakessh.recv_line(conn)
    time.sleep(0.5)


srv = fakessh.FakeServer(handler)
p = subprocess.run(['/venv/bin/python', '/repo/ssh-audit.py', '-n', '--skip-rate-test', '127.0.0.1:%d' % srv.port], capture_output=True, text=True, timeout=60)
srv.stop()
banner = [l for l in p.stdout.splitlines() if l.startswith('(gen) banner')]
print('\n'.join(banner) or p.stdout[:300])
ok = banner == ['(gen) banner: SSH-2.0-OpenSSH_8.9p1 Ubuntu-3']
print('banner reported as sent' if ok else 'DEFECT: the banner line was cut at the TCP segment boundary')
sys.exit(0 if ok else 1)
