# A peer that keeps feeding non-banner lines / debug messages keeps the audit alive for ever.
import itertools, socket, struct, threading
from ssh_audit.auditconf import AuditConf
from ssh_audit.outputbuffer import OutputBuffer
from ssh_audit.protocol import Protocol
from ssh_audit.ssh_audit import audit


class EndlessSocket:
    def __init__(self, chunks):
        self.chunks = chunks
    def settimeout(self, t): pass
    def connect(self, a): pass
    def send(self, d): return len(d)
    def shutdown(self, h): pass
    def close(self): pass
    def recv(self, n): return next(self.chunks)


def run_with_watchdog(monkeypatch, chunks, seconds=3.0):
    monkeypatch.setattr(socket, 'socket', lambda *a, **k: EndlessSocket(chunks))
    monkeypatch.setattr(socket, 'getaddrinfo', lambda h, p, *a, **k: [(socket.AF_INET, socket.SOCK_STREAM, 6, '', ('127.0.0.1', p))])
    c = AuditConf('localhost', 22); c.colors = False; c.batch = True; c.skip_rate_test = True
    t = threading.Thread(target=lambda: audit(OutputBuffer(), c), daemon=True)
    t.start(); t.join(seconds)
    return not t.is_alive()


def test_endless_pre_banner_lines(monkeypatch):
    assert run_with_watchdog(monkeypatch, itertools.repeat(b'not a banner\r\n')), 'audit still running: banner loop has no cap'
