# a policy generated from a server advertising a name that contains '=' must load and pass on that server
from ssh_audit.policy import Policy
from ssh_audit.banner import Banner
from ssh_audit.ssh2_kex import SSH2_Kex
from ssh_audit.ssh2_kexparty import SSH2_KexParty
from ssh_audit.outputbuffer import OutputBuffer
p = SSH2_KexParty(['aes256-ctr'], ['hmac-sha2-256-etm@openssh.com'], ['none'], [''])
kex = SSH2_Kex(OutputBuffer(), b'\0' * 16, ['gss-gex-sha1-vz8J1E9PzLr8b1K+0remTg==', 'curve25519-sha256'], ['ssh-ed25519'], p, p, False, 0)
banner = Banner.parse('SSH-2.0-OpenSSH_8.9')
text = Policy.create('host', banner, kex, False)
pol = Policy(policy_data=text)
passed, errors, _ = pol.evaluate(banner, kex)
assert passed and not errors, errors
print('OK')
