#!/usr/bin/env python3
"""C14: the older/same/newer judgement must be antisymmetric also for one-component versions with a patch suffix (the property quantifies over
1-4 components).  Before the fix compare_version split the other version with ^([\\d\\.]+\\d+)(.*)$, which needs two characters in the number
part: "7p2" was not split, its patch level was dropped, and 7p1 vs 7p2 gave 0 one way and 1 the other.
run: cd /repo && /venv/bin/python /verif/demos/demo_c14b.py    (exit 1 when the defect is present)"""
import itertools
import sys
from ssh_audit.software import Software
from ssh_audit.product import Product
bad = 0
for v in ('7', '10', '7.2'):
    for pa, pb in itertools.product(('', 'p1', 'p2'), repeat=2):
        a, b = Software(None, Product.OpenSSH, v, pa or None, None), Software(None, Product.OpenSSH, v, pb or None, None)
        x, y = a.compare_version(v + pb), b.compare_version(v + pa)
        if (x > 0) != (y < 0) or (x == 0) != (y == 0):
            print('NOT antisymmetric: %s%s vs %s%s -> %d, reverse -> %d' % (v, pa, v, pb, x, y))
            bad += 1
print('%d violations' % bad)
sys.exit(1 if bad else 0)
