#!/usr/bin/env python3
"""C08, second out-of-band site: after the SSH-1 retry audit() called out.write() itself.  In a multi-target run a target that answers
"Protocol major versions differ." had its whole text flushed by the worker thread, and main() then printed an empty block for it.
run: cd /repo && /venv/bin/python /verif/demos/demo_c08c.py      (exit 1 when the defect is present)"""
import os
import subprocess
import sys
import tempfile
sys.path.insert(0, os.path.dirname(os.path.abspath(__file__)))
import fakessh  # noqa: E402


def differ(conn, server):
    conn.sendall(b'SSH-2.0-OldServer_1.0\r\n')
    fakessh.recv_line(conn)
    conn.sendall(b'Protocol major versions differ.\n')


good = fakessh.standard_handler('SSH-2.0-OpenSSH_9.6', ['curve25519-sha256'], ['ssh-ed25519'], ['aes128-ctr'], ['hmac-sha2-256'], lambda w: fakessh.packet(fakessh.kex_reply(fakessh.ed25519_blob())))
s1, s2 = fakessh.FakeServer(differ), fakessh.FakeServer(good)
with tempfile.NamedTemporaryFile('w', suffix='.txt', delete=False) as f:
    f.write('127.0.0.1:%d\n127.0.0.1:%d\n' % (s1.port, s2.port))
p = subprocess.run(['/venv/bin/python', '/repo/ssh-audit.py', '-n', '--skip-rate-test', '--threads', '1', '-T', f.name], capture_output=True, text=True, timeout=90)
os.unlink(f.name)
s1.stop(), s2.stop()
blocks = p.stdout.split('-' * 80 + '\n')
print(repr(blocks[0][-80:]))
# main() prints "<block text>\n" for every target; a worker that flushed its own text leaves main() an empty block, which shows as an extra empty line
# in front of the delimiter ("...text\n" from the worker's flush, then "\n" for the empty block)
ok = len(blocks) == 2 and 'error reading packet' in blocks[0] and not blocks[0].endswith('\n\n')
print('the failing target\'s text is the block main() printed for it' if ok else 'DEFECT: the failing target\'s text was flushed by the worker; main() printed an empty block for it')
sys.exit(0 if ok else 1)
