#!/usr/bin/env python3
"""C11 / C09: "the SHA-256 and MD5 fingerprints equal the standard fingerprints of the presented public-key blob" -- a peer that answers the host-key probe by
closing the connection presents NO blob, yet KexDH.recv_reply() returns None without raising, HostKeyTest.perform_test() turns that into b'' and records a host
key of 0 bits; the report then shows the fingerprint of the empty string (SHA256:47DEQpj8HBSa+/TImW+5JCeuQeRkm5NMpJWZG3hSuFU) for that key type.
run: cd /repo && /venv/bin/python /verif/demos/demo_c11b.py      (exit 1 when the defect is present)"""
import os
import subprocess
import sys
sys.path.insert(0, os.path.dirname(os.path.abspath(__file__)))
import fakessh  # noqa: E402

EMPTY_SHA256 = '47DEQpj8HBSa+/TImW+5JCeuQeRkm5NMpJWZG3hSuFU'


def handler(conn, server):  # pylint: disable=unused-argument
    conn.sendall(b'SSH-2.0-OpenSSH_9.6\r\n')
    conn.sendall(fakessh.packet(fakessh.kexinit(['curve25519-sha256'], ['ssh-ed25519'], ['aes128-ctr'], ['hmac-sha2-256'])))
    fakessh.recv_line(conn)
    fakessh.recv_packet(conn)
    fakessh.recv_packet(conn)       # the key exchange init of a probe (EOFError on the initial connection, which just closes)
    # ... answered by closing the connection


srv = fakessh.FakeServer(handler)
p = subprocess.run(['/venv/bin/python', '/repo/ssh-audit.py', '-n', '-v', '--skip-rate-test', '127.0.0.1:%d' % srv.port], capture_output=True, text=True, timeout=90)
srv.stop()
fins = [l for l in p.stdout.splitlines() if l.startswith('(fin)')]
print('\n'.join(fins) or '(no fingerprint lines)')
bad = [l for l in fins if EMPTY_SHA256 in l]
print('DEFECT: a fingerprint is reported for a host key the peer never presented (it is the hash of the empty string)' if bad else 'no fingerprint for a key that was not presented')
sys.exit(1 if bad else 0)
