# with -v and -j the verbose progress line must not be written to stdout ahead of the JSON document
import io, sys, json
from ssh_audit.outputbuffer import OutputBuffer
out = OutputBuffer(); out.verbose = True; out.json = True; out.use_colors = False
old = sys.stdout; sys.stdout = io.StringIO()
out.v("Starting audit of localhost:22...", write_now=True)
out.reset()
out.info(json.dumps({'target': 'localhost:22'}))
out.write()
text = sys.stdout.getvalue(); sys.stdout = old
print(repr(text))
json.loads(text)
print('OK: stdout is one JSON document')
