#!/usr/bin/env python3
"""C08: "every listed target yields exactly one result block (a report, or an error for that target)".
A target that answers with a packet of invalid block size makes SSH_Socket.read_packet() flush the worker's buffer straight to stdout
(`self.__outputbuffer.fail(...).write()`) before it exits: in a multi-target run the error text is written by the worker thread, outside the block
that main() later prints for this target (which is then empty).  The same happens for the SSH-1 CRC mismatch and for the `out.write()` after the SSH-1 retry.
run: cd /repo && /venv/bin/python /verif/demos/demo_c08b.py      (exit 1 when the defect is present)"""
import os
import subprocess
import sys
import tempfile
sys.path.insert(0, os.path.dirname(os.path.abspath(__file__)))
import fakessh  # noqa: E402


def bad(conn, server):
    conn.sendall(b'SSH-2.0-OpenSSH_8.9\r\n' + fakessh.BAD_BLOCK_SIZE_PACKET)
    fakessh.recv_line(conn)


good = fakessh.standard_handler('SSH-2.0-OpenSSH_9.6', ['curve25519-sha256'], ['ssh-ed25519'], ['aes128-ctr'], ['hmac-sha2-256'], lambda w: fakessh.packet(fakessh.kex_reply(fakessh.ed25519_blob())))
s1, s2 = fakessh.FakeServer(bad), fakessh.FakeServer(good)
with tempfile.NamedTemporaryFile('w', suffix='.txt', delete=False) as f:
    f.write('127.0.0.1:%d\n127.0.0.1:%d\n' % (s1.port, s2.port))
p = subprocess.run(['/venv/bin/python', '/repo/ssh-audit.py', '-n', '--skip-rate-test', '--threads', '1', '-T', f.name], capture_output=True, text=True, timeout=90)
os.unlink(f.name)
s1.stop(), s2.stop()
blocks = p.stdout.split('-' * 80 + '\n')
print('%d blocks' % len(blocks))
for i, b in enumerate(blocks):
    print('--- block %d: %d lines; mentions the bad target: %s; carries the error: %s' % (i, len(b.strip().splitlines()), str(s1.port) in b, 'invalid ssh packet' in b))
own = [b for b in blocks if ('127.0.0.1:%d' % s1.port) in b]
ok = len(blocks) == 2 and len(own) == 1 and 'invalid ssh packet' in own[0] and all(('invalid ssh packet' not in b) for b in blocks if b is not own[0])
print('one block per target, error inside its own block' if ok else 'DEFECT: the bad target\'s error is written outside the block printed for it')
sys.exit(0 if ok else 1)
