# a whitespace-only line in a targets file must not become a target
import os, sys, tempfile
from ssh_audit.ssh_audit import process_commandline
from ssh_audit.outputbuffer import OutputBuffer
fd, path = tempfile.mkstemp(); os.write(fd, b"host1\n   \n\t\nhost2:2222\n\n"); os.close(fd)
conf = process_commandline(OutputBuffer(), ['-T', path]); os.unlink(path)
print(conf.target_list)
assert conf.target_list == ['host1', 'host2:2222'], conf.target_list
print('OK')
