# versions with multi-digit components must be ordered numerically
from ssh_audit.software import Software
from ssh_audit.product import Product
from ssh_audit.timeframe import Timeframe
s = Software(None, Product.OpenSSH, '10.0', None, None)
assert s.compare_version('9.9') > 0, 'OpenSSH 10.0 judged older than 9.9'
assert Software(None, Product.LibSSH, '0.10.6', None, None).compare_version('0.7.0') > 0, 'libssh 0.10.6 judged older than 0.7.0'
assert s.between_versions('7.4', '') and not Software(None, Product.OpenSSH, '7.3', None, None).between_versions('7.4', '')
t = Timeframe(); t.update(['9.9'], True); t.update(['10.0'], True)
assert t.get_from(Product.OpenSSH, True) == '10.0', t
print('OK')
