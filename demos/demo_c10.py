# SSH-2 mpint round trip for negative multi-word integers
from ssh_audit.readbuf import ReadBuf
from ssh_audit.writebuf import WriteBuf
for n in (0, 1, -1, 0x80, -0x80, -0x81, -0x8000, 2**32, -2**32, -0x180000000, -(2**64) - 5, 2**255 - 19, -(2**255) + 19):
    w = WriteBuf(); w.write_mpint2(n)
    got = ReadBuf(w.write_flush()).read_mpint2()
    assert got == n, 'mpint %s decodes as %s' % (hex(n), hex(got))
print('OK')
