#!/usr/bin/env python3
"""C09 (fool clause): "If the initial handshake was well-formed, misbehaviour confined to the later probes still leaves a complete algorithm report."
A server whose first handshake is perfectly fine answers the host-key probe's key-exchange init with a packet of invalid block size.
SSH_Socket.read_packet() then prints "[exception] invalid ssh packet (block size)" and calls sys.exit(1); SystemExit is not an Exception, so the
probe's handler does not contain it: the audit ends with status 1 and NO algorithm report.
run: cd /repo && /venv/bin/python /verif/demos/demo_c09c.py      (exit 1 when the defect is present, 0 when the report survives)"""
import os
import subprocess
import sys
sys.path.insert(0, os.path.dirname(os.path.abspath(__file__)))
import fakessh  # noqa: E402

KEX, KEYS, ENC, MAC = ['curve25519-sha256'], ['ssh-ed25519'], ['aes128-ctr'], ['hmac-sha2-256']
srv = fakessh.FakeServer(fakessh.standard_handler('SSH-2.0-OpenSSH_8.9', KEX, KEYS, ENC, MAC, lambda wanted: fakessh.BAD_BLOCK_SIZE_PACKET))
p = subprocess.run(['/venv/bin/python', '/repo/ssh-audit.py', '-n', '--skip-rate-test', '127.0.0.1:%d' % srv.port], capture_output=True, text=True, timeout=60)
srv.stop()
report = [l for l in p.stdout.splitlines() if l.startswith(('(kex)', '(key)', '(enc)', '(mac)'))]
print('exit status %d, %d algorithm report lines, %d connections' % (p.returncode, len(report), srv.connections))
print('\n'.join(l for l in p.stdout.splitlines() if 'exception' in l))
ok = len(report) >= 4 and p.returncode in (0, 2, 3)
print('report survives the misbehaving probe' if ok else 'DEFECT: well-formed handshake, but no algorithm report (status %d)' % p.returncode)
sys.exit(0 if ok else 1)
