import json
from ssh_audit.ssh_audit import output
from ssh_audit.auditconf import AuditConf
from ssh_audit.outputbuffer import OutputBuffer
from ssh_audit.banner import Banner
from ssh_audit.ssh1_publickeymessage import SSH1_PublicKeyMessage
pkm = SSH1_PublicKeyMessage(b'\0'*8, (768, 0x10001, 0xb1), (1024, 0x10001, 0xc3), 2, 0b1001000, 0b101100)
conf = AuditConf('h', 22); conf.json = True
out = OutputBuffer(); out.json = True; out.use_colors = False
output(out, conf, Banner.parse('SSH-1.5-OpenSSH_2.3'), [], pkm=pkm)
d = json.loads(out.get_buffer())
print(d['enc'], d['aut'])
assert d['enc'] == pkm.supported_ciphers and d['aut'] == pkm.supported_authentications
print('OK')
