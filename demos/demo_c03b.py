#!/usr/bin/env python3
"""C03: "... and they match what --lookup prints for that name".  A GSS key exchange is advertised with a base64 host hash at its end (gss-gex-sha1-<hash>); the
report of a scan rates it from the database's wildcard row gss-gex-sha1-* (failure: broken SHA-1 ...).  --lookup filtered the requested names literally against the
database keys, so the very name the report had just rated was printed under "# unknown algorithms" (and the run ended with the failure status for an unknown name).
run: cd /repo && /venv/bin/python /verif/demos/demo_c03b.py    (exit 1 when the defect is present)"""
import io
import sys
from contextlib import redirect_stdout
from ssh_audit.outputbuffer import OutputBuffer
from ssh_audit.ssh2_kexdb import SSH2_KexDB
from ssh_audit import ssh_audit

NAME = 'gss-gex-sha1-toWM5Slw5Ew8Mqkay+al2g=='


def rendered(fn):
    out = OutputBuffer()
    out.use_colors = False
    fn(out)
    buf = io.StringIO()
    with redirect_stdout(buf):
        out.write()
    return buf.getvalue()


scan = rendered(lambda out: ssh_audit.output_algorithm(out, SSH2_KexDB.get_db(), 'kex', NAME, [], 0))
look = rendered(lambda out: ssh_audit.algorithm_lookup(out, NAME))
scan_notes = sorted(l.split('] ', 1)[1].strip() for l in scan.splitlines() if '[fail]' in l or '[warn]' in l)
look_notes = sorted(l.split('] ', 1)[1].strip() for l in look.splitlines() if '[fail]' in l or '[warn]' in l)
print('report of a scan :', scan_notes)
print('--lookup         :', look_notes, '| listed as unknown:', '# unknown algorithms' in look)
bad = scan_notes != look_notes or '# unknown algorithms' in look
print('MISMATCH' if bad else 'the two agree')
sys.exit(1 if bad else 0)
