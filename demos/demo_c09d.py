#!/usr/bin/env python3
"""C09: "the audit terminates within a bound proportional to the configured timeout times the number of connections it makes".
KexGroupExchange.send_init_gex() accepts a group of any size from the peer and KexDH.send_init() then computes pow(g, x, p) with a random exponent as long
as p: the time of that computation grows with the cube of the peer-chosen size and is not limited by -t.  This script calls the two functions of the real
module on a scripted socket that hands out all-ones "moduli" of up to 4096 bytes (32768 bits) and measures the time spent in ONE probe with -t 1 semantics.
run: cd /repo && /venv/bin/python /verif/demos/demo_c09d.py      (exit 1 when one probe takes longer than 3 x the 1-second timeout used here)"""
import struct
import sys
import time
sys.path.insert(0, '/repo/src')
from ssh_audit.kexdh import KexGroupExchange_SHA256, KexDHException      # noqa: E402
from ssh_audit.outputbuffer import OutputBuffer           # noqa: E402
from ssh_audit.protocol import Protocol                    # noqa: E402


class ScriptedSocket:
    def __init__(self, nbytes):
        p = b'\x00' + b'\xff' * nbytes
        self.reply = struct.pack('>I', len(p)) + p + struct.pack('>I', 1) + b'\x02'

    def write_byte(self, v):
        return self

    write_int = write_mpint2 = write_byte

    def send_packet(self):
        return 0, None

    def read_packet(self, sshv=2):   # pylint: disable=unused-argument
        return Protocol.MSG_KEXDH_GEX_GROUP, self.reply


worst = 0.0
for nbytes in (256, 1024, 2048, 4096):
    k = KexGroupExchange_SHA256(OutputBuffer())
    t = time.time()
    try:
        k.send_init_gex(ScriptedSocket(nbytes), 2048, 3072, 4096)
        how = 'one probe spends'
    except KexDHException:
        how = 'the group is refused after'
    dt = time.time() - t
    worst = max(worst, dt)
    print('group of %5d bits handed out for a request of 2048..4096 bits: %s %.2f s in send_init_gex' % (nbytes * 8, how, dt))
print('DEFECT: the time of one probe is chosen by the peer (modulus size), not bounded by the timeout' if worst > 3.0 else 'probe time within 3 x timeout')
sys.exit(1 if worst > 3.0 else 0)
