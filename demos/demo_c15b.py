# -j with a raised minimum level (-l warn) must still print the JSON document
import io, sys, json
from ssh_audit.outputbuffer import OutputBuffer
out = OutputBuffer(); out.json = True; out.use_colors = False; out.level = 'warn'
old = sys.stdout; sys.stdout = io.StringIO()
out.info(json.dumps({'target': 'localhost:22'}))
out.write()
text = sys.stdout.getvalue(); sys.stdout = old
print(repr(text))
json.loads(text)
print('OK')
