# one bad target (invalid port in the targets file; or a peer that makes the packet reader call sys.exit) must not abort the pool
import concurrent.futures, sys
import ssh_audit.ssh_audit as sa
from ssh_audit.auditconf import AuditConf
conf = AuditConf(); conf.target_list = ['good', 'bad:70000']
real_audit = sa.audit
def fake_audit(out, aconf, sshv=None, print_target=False):
    if aconf.host == 'exits':
        sys.exit(1)          # what SSH_Socket.read_packet does on a bad block size / CRC
    out.good('report for %s' % aconf.host)
    return 0
sa.audit = fake_audit
results = []
with concurrent.futures.ThreadPoolExecutor(max_workers=2) as ex:
    futs = [ex.submit(sa.target_worker_thread, h, p, conf) for h, p in (('good', 22), ('bad', 70000), ('exits', 22))]
    for f in futs:
        results.append(f.result())       # main() does exactly this; an exception here aborts the whole run
print(results)
assert len(results) == 3 and results[0][0] == 0 and results[1][0] in (1, -1) and results[2][0] == 1
print('OK: every target yielded a (status, text) pair')
