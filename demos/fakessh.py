"""Minimal scripted SSH-2 server on 127.0.0.1 for the demo (no crypto; just enough framing for ssh-audit's probes)."""
import socket
import struct
import threading
import time


def sshstr(b):
    if isinstance(b, str):
        b = b.encode()
    return struct.pack('>I', len(b)) + b


def packet(payload, split=False):
    '''Frames a payload per RFC 4253 section 6.  With split=True returns (everything but the padding, the padding).'''
    padding = -(len(payload) + 5) % 8
    if padding < 4:
        padding += 8
    head = struct.pack('>IB', len(payload) + padding + 1, padding) + payload
    if split:
        return head, b'\x00' * padding
    return head + b'\x00' * padding


def kexinit(kex, keys, enc, mac):
    p = b'\x14' + b'\xaa' * 16
    for lst in (kex, keys, enc, enc, mac, mac, ['none'], ['none'], [''], ['']):
        p += sshstr(','.join(lst))
    return p + b'\x00' + b'\x00\x00\x00\x00'


def rsa_blob(bits):
    n = (1 << (bits - 1)) | 0x10001  # Any odd number of the right size will do; nothing verifies it.
    nb = b'\x00' + n.to_bytes(bits // 8, 'big')
    return sshstr('ssh-rsa') + sshstr(b'\x01\x00\x01') + sshstr(nb)


def ed25519_blob():
    return sshstr('ssh-ed25519') + sshstr(b'\x42' * 32)


def kex_reply(hostkey_blob):
    '''SSH_MSG_KEX_ECDH_REPLY / KEXDH_REPLY (31): K_S, Q_S (or f), signature.'''
    return b'\x1f' + sshstr(hostkey_blob) + sshstr(b'\x55' * 32) + sshstr(sshstr('sig') + sshstr(b'\x00' * 64))


BAD_BLOCK_SIZE_PACKET = struct.pack('>IB', 5, 0) + b'\x1f\x00\x00\x00'  # 4 + 1 + 4 = 9 bytes: not a multiple of the block size.


def recv_exact(conn, n):
    buf = b''
    while len(buf) < n:
        chunk = conn.recv(n - len(buf))
        if not chunk:
            raise EOFError
        buf += chunk
    return buf


def recv_line(conn):
    buf = b''
    while not buf.endswith(b'\n'):
        c = conn.recv(1)
        if not c:
            raise EOFError
        buf += c
    return buf


def recv_packet(conn):
    plen, pad = struct.unpack('>IB', recv_exact(conn, 5))
    body = recv_exact(conn, plen - 1)
    return body[:plen - 1 - pad]


def client_hostkey_algs(kexinit_payload):
    '''Returns the host key name-list of the client's KEXINIT.'''
    ptr = 17
    n = struct.unpack('>I', kexinit_payload[ptr:ptr + 4])[0]
    ptr += 4 + n
    n = struct.unpack('>I', kexinit_payload[ptr:ptr + 4])[0]
    return kexinit_payload[ptr + 4:ptr + 4 + n].decode().split(',')


class FakeServer:
    '''handler(conn, server) is run for every accepted connection, each in its own thread.'''

    def __init__(self, handler):
        self.handler = handler
        self.sock = socket.socket(socket.AF_INET, socket.SOCK_STREAM)
        self.sock.setsockopt(socket.SOL_SOCKET, socket.SO_REUSEADDR, 1)
        self.sock.bind(('127.0.0.1', 0))
        self.sock.listen(64)
        self.port = self.sock.getsockname()[1]
        self.connections = 0
        self.stopped = False
        threading.Thread(target=self._accept_loop, daemon=True).start()

    def _accept_loop(self):
        while not self.stopped:
            try:
                conn, _ = self.sock.accept()
            except OSError:
                return
            self.connections += 1
            threading.Thread(target=self._run, args=(conn,), daemon=True).start()

    def _run(self, conn):
        try:
            conn.settimeout(10)
            conn.setsockopt(socket.IPPROTO_TCP, socket.TCP_NODELAY, 1)
            self.handler(conn, self)
        except (EOFError, OSError):
            pass
        finally:
            try:
                conn.close()
            except OSError:
                pass

    def stop(self):
        self.stopped = True
        self.sock.close()


def standard_handler(banner, kex, keys, enc, mac, hostkey_reply, split_padding_delay=None):
    '''Returns a handler for a well-behaved server: banner, KEXINIT, then for a key exchange init message the reply hostkey_reply(requested_host_key_type) -> bytes to send raw.'''
    def handler(conn, server):  # pylint: disable=unused-argument
        conn.sendall(banner.encode() + b'\r\n')
        if split_padding_delay is None:
            conn.sendall(packet(kexinit(kex, keys, enc, mac)))
        else:
            head, padding = packet(kexinit(kex, keys, enc, mac), split=True)
            conn.sendall(head)
            time.sleep(split_padding_delay)
            conn.sendall(padding)
        recv_line(conn)  # Client banner.
        client_kexinit = recv_packet(conn)
        wanted = client_hostkey_algs(client_kexinit)
        msg = recv_packet(conn)  # Raises EOFError if the client just closes (the initial connection).
        if msg[0:1] == b'\x1e':  # KEXDH_INIT / KEX_ECDH_INIT
            conn.sendall(hostkey_reply(wanted[0]))
            time.sleep(0.2)
    return handler
