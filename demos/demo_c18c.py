#!/usr/bin/env python3
"""C18: a target written as host:port (or [IPv6]:port) on the command line together with -p must be dialled at that host and port; -p is only the default.
Run with PYTHONPATH=<tree>/src.  Exit 0 = behaves as documented, 1 = the target is not split (the literal 'host:port' would be resolved as a name)."""
import sys
from ssh_audit.ssh_audit import process_commandline
from ssh_audit.outputbuffer import OutputBuffer
bad = []
for args, want in ((['-p', '2222', 'localhost:2200'], ('localhost', 2200)), (['-p', '2222', '[::1]:2200'], ('::1', 2200)), (['-p', '2222', '[::1]'], ('::1', 2222)),
                   (['-p', '2222', 'localhost'], ('localhost', 2222)), (['-p', '2222', '2001:db8::1'], ('2001:db8::1', 2222)), (['localhost:2200'], ('localhost', 2200)), (['localhost'], ('localhost', 22))):
    conf = process_commandline(OutputBuffer(), args)
    got = (conf.host, conf.port)
    print('%-32s -> %r%s' % (' '.join(args), got, '' if got == want else '   EXPECTED %r' % (want,)))
    if got != want:
        bad.append(args)
sys.exit(1 if bad else 0)
