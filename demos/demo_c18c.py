#!/usr/bin/env python3
"""C18 (family order): `-64` / `-6 -4` must prefer IPv6 over IPv4 (README: "order of precedence can be set by using either -46 or -64").
Before the fix process_commandline produced [4, 6] for every spelling with both options.
run: cd /repo && /venv/bin/python /verif/demos/demo_c18c.py   (exit 1 when the defect is present)"""
import sys
from ssh_audit.ssh_audit import process_commandline
from ssh_audit.outputbuffer import OutputBuffer
bad = 0
for args, want in ((['-46', 'h'], [4, 6]), (['-64', 'h'], [6, 4]), (['-6', '-4', 'h'], [6, 4]), (['--ipv6', '--ipv4', 'h'], [6, 4]), (['-6', 'h'], [6]), (['-4', 'h'], [4]), (['h'], [])):
    got = process_commandline(OutputBuffer(), args).ip_version_preference
    print(args, got, 'ok' if got == want else 'WRONG (want %s)' % want)
    bad += got != want
sys.exit(1 if bad else 0)
