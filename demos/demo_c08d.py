#!/usr/bin/env python3
"""C08: "every listed target yields exactly one result block (a report, or an error for that target)".
main() parses every line of the targets file with Utils.parse_host_and_port() before the thread pool starts, outside any per-target handler.  A line whose
port is not a number (host:abc) makes int() raise ValueError there: the whole run ends with a traceback and the healthy targets listed next to it get no
report at all (with -j after the opening '[' has already been printed).
run: cd /repo && /venv/bin/python /verif/demos/demo_c08d.py      (exit 1 when the defect is present)"""
import os
import subprocess
import sys
import tempfile
sys.path.insert(0, os.path.dirname(os.path.abspath(__file__)))
import fakessh  # noqa: E402

good = fakessh.standard_handler('SSH-2.0-OpenSSH_9.6', ['curve25519-sha256'], ['ssh-ed25519'], ['aes128-ctr'], ['hmac-sha2-256'], lambda w: fakessh.packet(fakessh.kex_reply(fakessh.ed25519_blob())))
srv = fakessh.FakeServer(good)
with tempfile.NamedTemporaryFile('w', suffix='.txt', delete=False) as f:
    f.write('127.0.0.1:%d\nbadhost.invalid:abc\n' % srv.port)
p = subprocess.run(['/venv/bin/python', '/repo/ssh-audit.py', '-n', '--skip-rate-test', '--threads', '1', '-T', f.name], capture_output=True, text=True, timeout=90)
os.unlink(f.name)
srv.stop()
reported = 'OpenSSH_9.6' in p.stdout or 'OpenSSH 9.6' in p.stdout
print('exit status %d; healthy target reported: %s; traceback: %s; connections received by the healthy target: %d' % (p.returncode, reported, 'Traceback' in (p.stdout + p.stderr), srv.connections))
ok = reported and 'Traceback' not in (p.stdout + p.stderr)
print('every listed target got its block' if ok else 'DEFECT: one unparsable entry aborts the whole multi-target run; the healthy target is never scanned')
sys.exit(0 if ok else 1)
