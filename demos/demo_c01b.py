# an empty name-list (parsed as ['']) must not produce an entry in the JSON report (the text report shows none)
from ssh_audit.ssh_audit import build_struct
from ssh_audit.ssh2_kex import SSH2_Kex
from ssh_audit.ssh2_kexparty import SSH2_KexParty
from ssh_audit.outputbuffer import OutputBuffer
p = SSH2_KexParty(['aes256-ctr', ''], [''], ['none'], [''])
k = SSH2_Kex(OutputBuffer(), b'\0' * 16, ['curve25519-sha256'], ['ssh-ed25519'], p, p, False, 0)
r = build_struct('h:22', None, kex=k)
print([e['algorithm'] for e in r['enc']], [e['algorithm'] for e in r['mac']])
assert [e['algorithm'] for e in r['enc']] == ['aes256-ctr'] and r['mac'] == [], 'JSON lists an empty algorithm name the peer never advertised'
print('OK')
