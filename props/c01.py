"""C01 -- the report lists exactly the algorithms the peer advertised (provenance clause)."""
import ast

from sa.core import AnalysisError, unparse, walk_no_nested, stmt_text, call_name, bind_args, attr_chain, func_id
from sa.logic import path_condition
from sa.alias import Derived
from sa.slicer import MUTATORS
from sa.callgraph import CallGraph

EXPL = ('Decides the provenance clause from the AST: (1) the i-th name-list read in SSH2_Kex.parse reaches, through constructor parameters and private fields, the accessor of the matching RFC 4253 7.1 field '
        '(10 def-use chains), likewise the SSH-1 masks and their decode loops; (2) every text section and every JSON list is fed by the accessor of its own category, both views cover all categories, and the '
        'JSON call receives the parsed messages; (3) between accessor and emit point the list only passes identity idioms -- no sort/set/filter/slice, no in-place edit of a parsed list anywhere on the audit path; the '
        'per-name renderer emits once per element and prints the original name; (4) no branch on the audited role selects a different list; (5) compression and banner in JSON are the parsed values. '
        'Not decided: byte-level splitting in ReadBuf.read_list and the exact rendered text.')

SSH2_SLOTS = ['kex_algorithms', 'key_algorithms', 'client.encryption', 'server.encryption', 'client.mac', 'server.mac',
              'client.compression', 'server.compression', 'client.languages', 'server.languages']
TEXT_TABLE = {
    ('SSH2', 'kex'): 'kex.kex_algorithms', ('SSH2', 'key'): 'kex.key_algorithms', ('SSH2', 'enc'): 'kex.server.encryption', ('SSH2', 'mac'): 'kex.server.mac',
    ('SSH1', 'key'): "['ssh-rsa1']", ('SSH1', 'enc'): 'pkm.supported_ciphers', ('SSH1', 'aut'): 'pkm.supported_authentications',
}
JSON_TABLE = {'kex': 'kex.kex_algorithms', 'key': 'kex.key_algorithms', 'enc': 'kex.server.encryption', 'mac': 'kex.server.mac'}
LIST_ATTRS = ('kex_algorithms', 'key_algorithms', 'encryption', 'mac', 'compression', 'languages', 'supported_ciphers', 'supported_authentications')
IDENTITY_CALLS = ('list', 'copy.copy', 'cast')


def ctor_fields(cls):
    """param -> field for `self.F = param` in __init__; field -> getter name for `return self.F`."""
    init = [s for s in cls.body if isinstance(s, ast.FunctionDef) and s.name == '__init__']
    if not init:
        raise AnalysisError('class %s has no __init__' % cls.name)
    p2f = {}
    for n in walk_no_nested(init[0]):
        if isinstance(n, ast.Assign) and isinstance(n.targets[0], ast.Attribute) and unparse(n.targets[0].value) == 'self' and isinstance(n.value, ast.Name):
            p2f[n.value.id] = n.targets[0].attr
    f2g = {}
    for s in cls.body:
        if isinstance(s, ast.FunctionDef) and s.name != '__init__':
            rets = [r for r in walk_no_nested(s) if isinstance(r, ast.Return)]
            if len(rets) == 1 and isinstance(rets[0].value, ast.Attribute) and unparse(rets[0].value.value) == 'self' and len(s.body) == 1:
                f2g.setdefault(rets[0].value.attr, []).append(s.name)
    return init[0], p2f, f2g


def strip_identity(e):
    while True:
        if isinstance(e, ast.Call) and unparse(e.func) in IDENTITY_CALLS and e.args and not e.keywords:
            e = e.args[-1] if unparse(e.func) == 'cast' else e.args[0]
            continue
        if isinstance(e, ast.Subscript) and isinstance(e.slice, ast.Slice) and e.slice.lower is None and e.slice.upper is None and e.slice.step is None:
            e = e.value
            continue
        return e


def run(repo, rep, tier):
    rep.explanation = EXPL
    kex_cls = repo.cls('ssh2_kex', 'SSH2_Kex')
    party_cls = repo.cls('ssh2_kexparty', 'SSH2_KexParty')
    parse = repo.func('ssh2_kex', 'SSH2_Kex.parse')
    rep.saw(parse)

    # ---- rule 1: parse-slot agreement -------------------------------------------------------------------------------
    reads = [n for n in parse.body if isinstance(n, ast.Assign) and isinstance(n.value, ast.Call) and unparse(n.value.func) == 'buf.read_list' and isinstance(n.targets[0], ast.Name)]
    rep.check('slots', 'SSH2_Kex.parse reads ten name-lists', len(reads) == 10, parse, 'SSH2_Kex.parse reads %d name-lists' % len(reads))
    # reads must be consecutive statements in source order, preceded by the 16-byte cookie
    order = [parse.body.index(r) for r in reads]
    rep.check('slots', 'the ten reads are consecutive (no other buffer read between them)', order == list(range(order[0], order[0] + len(order))) if order else False, parse, 'name-list reads are interleaved with other statements')
    ck = [n for n in parse.body if isinstance(n, ast.Assign) and isinstance(n.value, ast.Call) and unparse(n.value.func) == 'buf.read']
    rep.check('slots', 'a 16-byte cookie precedes the lists', len(ck) == 1 and unparse(ck[0].value.args[0]) == '16' and order and parse.body.index(ck[0]) == order[0] - 1, ck[0] if ck else parse, 'cookie read changed')
    kinit, kp2f, kf2g = ctor_fields(kex_cls)
    pinit, pp2f, pf2g = ctor_fields(party_cls)
    ctor = [n for n in walk_no_nested(parse) if isinstance(n, ast.Call) and isinstance(n.func, ast.Name) and n.func.id == 'cls']
    parties = {n.targets[0].id: n.value for n in parse.body if isinstance(n, ast.Assign) and isinstance(n.value, ast.Call) and call_name(n.value) == 'SSH2_KexParty'}
    if len(ctor) != 1 or len(parties) != 2:
        raise AnalysisError('SSH2_Kex.parse: constructor calls not recognised')
    kb = bind_args(ctor[0], kinit, skip_self=True)

    def accessor_of(var):
        # directly a constructor argument?
        for par, a in kb.items():
            if isinstance(a, ast.Name) and a.id == var:
                f = kp2f.get(par)
                g = kf2g.get(f, [])
                return g[0] if len(g) == 1 else None
        for pv, pcall in parties.items():
            pb = bind_args(pcall, pinit, skip_self=True)
            for par, a in pb.items():
                if isinstance(a, ast.Name) and a.id == var:
                    f = pp2f.get(par)
                    g = pf2g.get(f, [])
                    if len(g) != 1:
                        return None
                    for kpar, ka in kb.items():
                        if isinstance(ka, ast.Name) and ka.id == pv:
                            kf = kp2f.get(kpar)
                            kg = kf2g.get(kf, [])
                            return '%s.%s' % (kg[0], g[0]) if len(kg) == 1 else None
        return None
    for i, r in enumerate(reads[:10]):
        acc = accessor_of(r.targets[0].id)
        rep.check('slots', 'name-list %d of the KEXINIT reaches accessor %s' % (i + 1, SSH2_SLOTS[i]), acc == SSH2_SLOTS[i], r,
                  'the %s name-list of the packet surfaces as kex.%s (RFC 4253 7.1 order expects kex.%s)' % (['1st', '2nd', '3rd', '4th', '5th', '6th', '7th', '8th', '9th', '10th'][i], acc, SSH2_SLOTS[i]),
                  sample={'rule': 'slots', 'chain': '%s -> %s' % (r.targets[0].id, acc)})
    # getters are properties (attribute reads elsewhere rely on it)
    for c in (kex_cls, party_cls):
        for s in c.body:
            if isinstance(s, ast.FunctionDef) and s.name in ('kex_algorithms', 'key_algorithms', 'client', 'server', 'encryption', 'mac', 'compression', 'languages'):
                rep.check('slots', '%s.%s is a property' % (c.name, s.name), any(unparse(d) == 'property' for d in s.decorator_list), s, '%s.%s is no longer a property' % (c.name, s.name))
    # SSH-1
    p1 = repo.func('ssh1_publickeymessage', 'SSH1_PublicKeyMessage.parse')
    c1 = repo.cls('ssh1_publickeymessage', 'SSH1_PublicKeyMessage')
    rep.saw(p1)
    i1, p2f1, f2g1 = ctor_fields(c1)
    ints = [n for n in p1.body if isinstance(n, ast.Assign) and isinstance(n.value, ast.Call) and unparse(n.value.func) == 'buf.read_int']
    names = [n.targets[0].id for n in ints]
    ctor1 = [n for n in walk_no_nested(p1) if isinstance(n, ast.Call) and isinstance(n.func, ast.Name) and n.func.id == 'cls']
    ok = len(ints) == 5 and len(ctor1) == 1
    if ok:
        b1 = bind_args(ctor1[0], i1, skip_self=True)
        last3 = names[-3:]
        got = {}
        for par, a in b1.items():
            if isinstance(a, ast.Name) and a.id in last3:
                f = p2f1.get(par)
                got[last3.index(a.id)] = f2g1.get(f, [None])[0]
        ok = got == {0: 'protocol_flags', 1: 'supported_ciphers_mask', 2: 'supported_authentications_mask'}
    rep.check('slots', 'SSH-1: the last three 32-bit fields are protocol flags, cipher mask, authentication mask', ok, p1, 'SSH-1 mask slots changed: %s' % (got if ok is False and len(ints) == 5 else names))

    def decode_loop(prop, mask_field, table, start):
        f = repo.func('ssh1_publickeymessage', 'SSH1_PublicKeyMessage.' + prop)
        rep.saw(f)
        loops = [n for n in walk_no_nested(f) if isinstance(n, ast.For)]
        ok = len(loops) == 1
        if ok:
            lp = loops[0]
            iv = unparse(lp.target)
            want_iter = 'range(len(%s))' % table if start == 0 else 'range(%d, len(%s))' % (start, table)
            ok = unparse(lp.iter) == want_iter
            ifs = [s for s in lp.body if isinstance(s, ast.If)]
            ok = ok and len(ifs) == 1 and len(lp.body) == 1 and unparse(ifs[0].test) == 'self.%s & 1 << %s != 0' % (mask_field, iv)
            if ok:
                app = [n for n in walk_no_nested(ifs[0]) if isinstance(n, ast.Call) and isinstance(n.func, ast.Attribute) and n.func.attr == 'append']
                ok = len(app) == 1 and '%s[%s]' % (table, iv) in unparse(app[0].args[0]) and not ifs[0].orelse
                rets = [r for r in walk_no_nested(f) if isinstance(r, ast.Return)]
                ok = ok and len(rets) == 1 and unparse(rets[0].value) == unparse(app[0].func.value)
        rep.check('slots', 'SSH-1 %s: bit i of %s selects %s[i], in ascending order' % (prop, mask_field, table), ok, f, 'decode loop of %s changed' % prop)
    decode_loop('supported_ciphers', '__supported_ciphers_mask', 'SSH1.CIPHERS', 0)
    decode_loop('supported_authentications', '__supported_authentications_mask', 'SSH1.AUTHS', 1)

    # ---- rule 2: render provenance (text) ----------------------------------------------------------------------------
    outf = repo.func('ssh_audit', 'output')
    oas = repo.func('ssh_audit', 'output_algorithms')
    oa = repo.func('ssh_audit', 'output_algorithm')
    bs = repo.func('ssh_audit', 'build_struct')
    rep.saw(outf), rep.saw(oas), rep.saw(oa), rep.saw(bs)

    def local_value(name_node, before_stmt, func):
        """Value bound to a local name by the closest preceding assignment in the same block (tuple unpack aware)."""
        blk = None
        par = before_stmt._parent
        for fld in ('body', 'orelse'):
            b = getattr(par, fld, None)
            if isinstance(b, list) and before_stmt in b:
                blk = b
        if blk is None:
            return None
        for st in reversed(blk[:blk.index(before_stmt)]):
            if isinstance(st, ast.Assign):
                t, v = st.targets[0], st.value
                if isinstance(t, ast.Name) and t.id == name_node.id:
                    return v
                if isinstance(t, ast.Tuple) and isinstance(v, ast.Tuple):
                    for a, b2 in zip(t.elts, v.elts):
                        if isinstance(a, ast.Name) and a.id == name_node.id:
                            return b2
        return None
    seen = {}
    for n in walk_no_nested(outf):
        if isinstance(n, ast.Call) and call_name(n) == 'output_algorithms':
            st = n._parent
            while not isinstance(st, ast.stmt):
                st = st._parent
            b = bind_args(n, oas)
            conds = [(unparse(t), p) for t, p, k in path_condition(n) if k == 'if']
            proto = 'SSH2' if ('kex is not None', True) in conds else 'SSH1' if ('pkm is not None', True) in conds else None
            at = b.get('alg_type')
            atv = local_value(at, st, outf) if isinstance(at, ast.Name) else at
            cat = atv.value if isinstance(atv, ast.Constant) else None
            L = strip_identity(b.get('algorithms'))
            if isinstance(L, ast.Name):
                lv = local_value(L, st, outf)
                if lv is None:
                    defs = [d for d in walk_no_nested(outf) if isinstance(d, ast.Assign) and unparse(d.targets[0]) == L.id]
                    lv = defs[0].value if len(defs) == 1 else None
                L = strip_identity(lv) if lv is not None else L
            key = (proto, cat)
            want = TEXT_TABLE.get(key)
            seen[key] = n
            rep.check('render', 'text section %s/%s is fed by %s' % (proto, cat, want), want is not None and unparse(L) == want, n,
                      'text section (%s) %s lists %s instead of %s' % (proto, cat, unparse(L), want), sample={'rule': 'render', 'view': 'text', 'category': cat, 'source': unparse(L)})
            adb = b.get('alg_db')
            adbv = local_value(adb, st, outf) if isinstance(adb, ast.Name) else adb
            want_db = 'SSH2_KexDB.get_db()' if proto == 'SSH2' else 'SSH1_KexDB.get_db()'
            rep.check('render', 'text section %s/%s rated against the %s table' % (proto, cat, proto), adbv is not None and unparse(adbv) == want_db, n, 'section %s/%s uses table %s' % (proto, cat, unparse(adbv) if adbv is not None else '?'))
            # ---- rule 4: role clause
            rep.check('role', 'section %s/%s is not selected by the audited role' % (proto, cat), not any('client' in t for t, p in conds), n, 'rendered list depends on the role: %s' % conds)
    for key in TEXT_TABLE:
        rep.check('render', 'text view has a section for %s/%s' % key, key in seen, outf, 'text view lacks the %s %s section' % key, stmt='text section %s/%s' % key)
    # output_algorithms iterates the list parameter as is
    loops = [n for n in walk_no_nested(oas) if isinstance(n, ast.For)]
    ok = len(loops) == 1 and unparse(strip_identity(loops[0].iter)) == 'algorithms'
    rep.check('order', 'output_algorithms iterates its list parameter unchanged', ok, loops[0] if loops else oas, 'output_algorithms iterates %s' % (unparse(loops[0].iter) if loops else '?'))

    # ---- rule 2: render provenance (JSON) ----------------------------------------------------------------------------
    for cat, want in JSON_TABLE.items():
        apps = [n for n in walk_no_nested(bs) if isinstance(n, ast.Call) and isinstance(n.func, ast.Attribute) and n.func.attr == 'append' and unparse(n.func.value) in ("res['%s']" % cat, 'res["%s"]' % cat)]
        ok = len(apps) == 1
        if ok:
            a = apps[0]
            pc = path_condition(a)
            fors = [t for t, p, k in pc if k == 'for']
            ifs = [(unparse(t), p) for t, p, k in pc if k != 'for']
            src = unparse(strip_identity(fors[-1])) if fors else None
            rep.check('render', 'JSON list %s is built from %s' % (cat, want), src == want, a, 'JSON %s lists %s instead of %s' % (cat, src, want), sample={'rule': 'render', 'view': 'json', 'category': cat, 'source': src})
            lpn = a
            while not isinstance(lpn, ast.For):
                lpn = lpn._parent
            lvn = unparse(lpn.target)
            empty_guard = ('len(%s.strip()) == 0' % lvn, False)
            extra = [c for c in ifs if c not in (('kex is not None', True), empty_guard)]
            rep.check('render', 'JSON %s: one entry per advertised name; nothing but empty names is filtered' % cat, not extra, a, 'JSON %s entries are filtered by %s' % (cat, extra))
            rep.check('render', 'JSON %s: empty names (an empty name-list parses as [\'\']) produce no entry, like in the text report' % cat, empty_guard in ifs, a,
                      'JSON %s lists an entry for the empty name of an empty (or comma-terminated) name-list, flagged "unknown algorithm", although the peer advertised no such name and the text report shows none' % cat)
            lp = a
            while not isinstance(lp, ast.For):
                lp = lp._parent
            lv = unparse(lp.target)
            ent = unparse(a.args[0])
            edefs = [d for d in walk_no_nested(lp) if isinstance(d, (ast.Assign, ast.AnnAssign)) and unparse(d.targets[0] if isinstance(d, ast.Assign) else d.target) == ent]
            okn = len(edefs) == 1 and isinstance(edefs[0].value, ast.Dict)
            if okn:
                d = dict(zip([k.value for k in edefs[0].value.keys if isinstance(k, ast.Constant)], edefs[0].value.values))
                okn = 'algorithm' in d and unparse(d['algorithm']) == lv
            rep.check('render', 'JSON %s: entry names the unmodified element' % cat, okn, a, 'JSON %s entry does not carry the advertised name itself' % cat)
            init = [d for d in walk_no_nested(bs) if isinstance(d, ast.Assign) and unparse(d.targets[0]) in ("res['%s']" % cat,) and unparse(d.value) == '[]']
            rep.check('render', 'JSON %s starts empty' % cat, len(init) == 1 and init[0].lineno < lp.lineno, lp, 'JSON %s list not initialised empty before the loop' % cat)
            for x in walk_no_nested(lp):
                if isinstance(x, (ast.Break, ast.Continue)):
                    gd = [(unparse(t), p) for t, p, k in path_condition(x, stop=lp) if k == 'if']
                    okc = isinstance(x, ast.Continue) and gd == [('len(%s.strip()) == 0' % lv, True)]
                    rep.check('render', 'JSON %s loop skips nothing but empty names' % cat, okc, x, 'JSON %s loop can skip advertised names (under %s)' % (cat, gd))
        else:
            rep.check('render', 'JSON view has a %s list' % cat, False, bs, 'JSON view lacks the %s list (found %d append sites)' % (cat, len(apps)), stmt='json list %s' % cat)
    # SSH-1 JSON
    for key, want in (('enc', 'pkm.supported_ciphers'), ('aut', 'pkm.supported_authentications')):
        d = [n for n in walk_no_nested(bs) if isinstance(n, ast.Assign) and unparse(n.targets[0]) == "res['%s']" % key and not isinstance(n.value, ast.List)]
        ok = len(d) == 1
        if ok:
            v = d[0].value
            if isinstance(v, ast.Name):
                vd = [x for x in walk_no_nested(bs) if isinstance(x, ast.Assign) and unparse(x.targets[0]) == v.id and not (isinstance(x.value, ast.Constant) and x.value.value is None)]
                ok = len(vd) == 1 and unparse(strip_identity(vd[0].value)) == want and [(unparse(t), p) for t, p, k in path_condition(vd[0]) if k == 'if'][-1:] == [('pkm is not None', True)]
            else:
                ok = unparse(strip_identity(v)) == want
        rep.check('render', 'SSH-1 JSON %s is %s' % (key, want), ok, d[0] if d else bs, 'SSH-1 JSON %s is not %s' % (key, want))
    # the JSON call receives the parsed messages
    calls = [n for n in walk_no_nested(outf) if isinstance(n, ast.Call) and call_name(n) == 'build_struct']
    rep.floor('render', 'build_struct call in output', len(calls), 1)
    for c in calls:
        b = bind_args(c, bs)
        rep.check('render', 'JSON view receives the parsed KEXINIT', b.get('kex') is not None and unparse(b['kex']) == 'kex', c, 'build_struct is called without kex=kex')
        rep.check('render', 'JSON view receives the parsed SSH-1 public key message', b.get('pkm') is not None and unparse(b['pkm']) == 'pkm', c,
                  'output() does not forward pkm to build_struct: the JSON of an SSH-1 audit has enc/aut = null although the peer advertised ciphers and authentication types',
                  stmt='build_struct(... pkm ...)')
    # ---- rule 5: JSON compression / banner ----------------------------------------------------------------------------
    d = [n for n in walk_no_nested(bs) if isinstance(n, ast.Assign) and unparse(n.targets[0]) == "res['compression']"]
    rep.check('json-misc', 'JSON compression is kex.server.compression', len(d) == 1 and unparse(strip_identity(d[0].value)) == 'kex.server.compression', d[0] if d else bs, 'JSON compression source changed')
    bdef = [n for n in walk_no_nested(bs) if isinstance(n, ast.Assign) and unparse(n.targets[0]) == 'banner_str' and not isinstance(n.value, ast.Constant)]
    rep.check('json-misc', 'JSON banner.raw is str(banner)', len(bdef) == 1 and unparse(bdef[0].value) == 'str(banner)', bdef[0] if bdef else bs, 'JSON banner source changed')
    resd = [n for n in walk_no_nested(bs) if isinstance(n, (ast.Assign, ast.AnnAssign)) and unparse(n.targets[0] if isinstance(n, ast.Assign) else n.target) == 'res' and isinstance(n.value, ast.Dict)]
    ok = False
    if resd:
        top = dict(zip([k.value for k in resd[0].value.keys], resd[0].value.values))
        if 'banner' in top and isinstance(top['banner'], ast.Dict):
            inner = dict(zip([k.value for k in top['banner'].keys], [unparse(v) for v in top['banner'].values]))
            ok = inner.get('raw') == 'banner_str' and inner.get('software') == 'banner_software' and inner.get('comments') == 'banner_comments' and inner.get('protocol') == 'banner_protocol'
    rep.check('json-misc', 'JSON banner object carries raw/protocol/software/comments of the parsed banner', ok, resd[0] if resd else bs, 'JSON banner object changed')
    # text compression line filters only 'none'
    comp = [n for n in walk_no_nested(outf) if isinstance(n, ast.Assign) and unparse(n.targets[0]) == 'compressions']
    ok = len(comp) == 1 and unparse(comp[0].value) == "[x for x in kex.server.compression if x != 'none']"
    rep.check('json-misc', 'text compression line lists kex.server.compression minus "none"', ok, comp[0] if comp else outf, 'text compression source changed')

    # ---- rule 3: order / multiset preservation ------------------------------------------------------------------------------
    from props import _listedits
    reach, seeds, is_src, cg = _listedits.scan(repo)
    nscan = 0
    for f in reach:
        if f._module.name in ('dheat',):
            continue
        nscan += 1
        d = Derived(f, is_src, extra_seeds=seeds[f], elements=False)
        for node, desc in d.mutations():
            rep.check('order', 'no in-place edit of a parsed name-list: %s' % func_id(f), False, node, 'parsed name-list edited in place (%s) in %s: advertised names can be dropped, reordered, duplicated or invented in every later rendering' % (desc, func_id(f)))
        # transformations applied to a parsed list on its way to a renderer
        if f in (outf, oas, bs):
            for n in walk_no_nested(f):
                if isinstance(n, ast.Call) and isinstance(n.func, ast.Name) and n.func.id in ('sorted', 'set', 'reversed', 'frozenset') and n.args and d.derived(n.args[0]):
                    tgt = unparse(n.args[0])
                    if any(tgt.endswith(a) for a in LIST_ATTRS) or tgt == 'algorithms':
                        rep.check('order', 'no reordering/deduplication of a parsed list in %s' % f.name, False, n, '%s(...) applied to the advertised list %s' % (n.func.id, tgt))
                if isinstance(n, ast.Call) and unparse(n.func) == 'Utils.unique_seq' and n.args and d.derived(n.args[0]):
                    rep.check('order', 'no deduplication of a parsed list in %s' % f.name, False, n, 'unique_seq applied to an advertised list')
    rep.floor('order', 'functions scanned for in-place edits', nscan, 100)
    # per-name renderer: emits for every non-empty name, with the original name
    rets = [r for r in walk_no_nested(oa) if isinstance(r, ast.Return)]
    early = [r for r in rets if r is not oa.body[-1]]
    ok = len(early) == 1 and [(unparse(t), p) for t, p, k in path_condition(early[0])] == [('len(alg_name.strip()) == 0', True)]
    rep.check('emit', 'the only early return of output_algorithm is the empty-name guard', ok, early[0] if early else oa, 'output_algorithm can return early under %s' % ([(unparse(t), p) for r in early for t, p, k in path_condition(r)]))
    mem = [n for n in walk_no_nested(oa) if isinstance(n, ast.If) and isinstance(n.test, ast.Compare) and isinstance(n.test.ops[0], ast.In) and 'alg_db[alg_type]' in unparse(n.test.comparators[0])]
    if mem:
        m0 = mem[0]
        then_ok = any(isinstance(s, ast.If) and unparse(s.test) == 'len(texts) == 0' and any('texts.append' in unparse(x) for x in s.body) for s in m0.body)
        else_ok = any(isinstance(s, ast.Expr) and 'texts.append' in unparse(s) for s in m0.orelse)
        rep.check('emit', 'every non-empty name gets at least one note line (known: placeholder, unknown: warning)', then_ok and else_ok, m0, 'a name can end up with no line at all')
    fold = [n for n in walk_no_nested(oa) if isinstance(n, ast.For) and unparse(n.iter) == 'texts']
    if fold:
        firsts = [s for s in fold[0].body if isinstance(s, ast.If) and unparse(s.test) == 'first']
        ok = len(firsts) == 1 and any(isinstance(x, ast.Expr) and isinstance(x.value, ast.Call) and unparse(x.value.func) == 'f' and 'alg_name' in unparse(x.value) for x in firsts[0].body)
        rep.check('emit', 'the first note line always prints prefix + name', ok, fold[0], 'first line of an algorithm is not always printed with its name')
        for x in walk_no_nested(fold[0]):
            if isinstance(x, (ast.Break, ast.Continue)):
                conds = [(unparse(t), p) for t, p, k in path_condition(x)]
                rep.check('emit', 'no skip inside the per-note loop', False, x, 'per-note loop can skip lines under %s' % conds)
    restore = [n for n in walk_no_nested(oa) if isinstance(n, ast.Assign) and unparse(n) == 'alg_name = alg_name_original']
    save = [n for n in walk_no_nested(oa) if isinstance(n, ast.Assign) and unparse(n) == 'alg_name_original = alg_name']
    norm = [n for n in walk_no_nested(oa) if isinstance(n, ast.Assign) and unparse(n.targets[0]) == 'alg_name' and 'last_dash' in unparse(n.value)]
    ok = len(restore) == 1 and len(save) == 1 and len(norm) == 1 and save[0].lineno < norm[0].lineno < restore[0].lineno and fold and restore[0].lineno < fold[0].lineno
    if ok:
        ok = [(unparse(t), p) for t, p, k in path_condition(restore[0]) if k == 'if'] == [('alg_name != alg_name_original', True)]
    rep.check('emit', 'the wildcard-normalised name is only used for the lookup; the advertised name is restored before printing', ok, restore[0] if restore else oa, 'printed name may be the normalised (wildcard) name')
    sized = [n for n in walk_no_nested(oa) if isinstance(n, ast.Assign) and unparse(n.targets[0]) == 'alg_name_with_size' and not isinstance(n.value, ast.Constant)]
    ok = bool(sized) and all(isinstance(n.value, ast.BinOp) and isinstance(n.value.right, ast.Tuple) and unparse(n.value.right.elts[0]) == 'alg_name' and n.lineno < (norm[0].lineno if norm else 0) for n in sized)
    rep.check('emit', 'size-suffixed variants embed the advertised name', ok, sized[0] if sized else oa, 'size-suffixed name not built from the advertised name')
