"""C01 -- the report lists exactly the algorithms the peer advertised (provenance clause)."""
import ast

from sa.core import AnalysisError, unparse, walk_no_nested, stmt_text, call_name, bind_args, attr_chain, func_id
from sa.logic import path_condition
from sa.alias import Derived
from sa.slicer import MUTATORS
from sa.callgraph import CallGraph

EXPL = ('Decides the provenance clause from the AST: (1) the i-th name-list read in SSH2_Kex.parse reaches, through constructor parameters and private fields, the accessor of the matching RFC 4253 7.1 field '
        '(10 def-use chains), likewise the SSH-1 masks and their decode loops; (2) every text section and every JSON list is fed by the accessor of its own category, both views cover all categories, and the '
        'JSON call receives the parsed messages; (3) between accessor and emit point the list only passes identity idioms -- no sort/set/filter/slice, no in-place edit of a parsed list anywhere on the audit path; the '
        'per-name renderer emits once per element and prints the original name; (4) no branch on the audited role selects a different list; (5) compression and banner in JSON are the parsed values. '
        'Not decided: byte-level splitting in ReadBuf.read_list and the exact rendered text.')

SSH2_SLOTS = ['kex_algorithms', 'key_algorithms', 'client.encryption', 'server.encryption', 'client.mac', 'server.mac',
              'client.compression', 'server.compression', 'client.languages', 'server.languages']
TEXT_TABLE = {
    ('SSH2', 'kex'): 'kex.kex_algorithms', ('SSH2', 'key'): 'kex.key_algorithms', ('SSH2', 'enc'): 'kex.server.encryption', ('SSH2', 'mac'): 'kex.server.mac',
    ('SSH1', 'key'): "['ssh-rsa1']", ('SSH1', 'enc'): 'pkm.supported_ciphers', ('SSH1', 'aut'): 'pkm.supported_authentications',
}
JSON_TABLE = {'kex': 'kex.kex_algorithms', 'key': 'kex.key_algorithms', 'enc': 'kex.server.encryption', 'mac': 'kex.server.mac'}
LIST_ATTRS = ('kex_algorithms', 'key_algorithms', 'encryption', 'mac', 'compression', 'languages', 'supported_ciphers', 'supported_authentications')
IDENTITY_CALLS = ('list', 'copy.copy', 'cast')


def ctor_fields(cls):
    """param -> field for `self.F = param` in __init__; field -> getter name for `return self.F`."""
    init = [s for s in cls.body if isinstance(s, ast.FunctionDef) and s.name == '__init__']
    if not init:
        raise AnalysisError('class %s has no __init__' % cls.name)
    p2f = {}
    for n in walk_no_nested(init[0]):
        if isinstance(n, ast.Assign) and isinstance(n.targets[0], ast.Attribute) and unparse(n.targets[0].value) == 'self' and isinstance(n.value, ast.Name):
            p2f[n.value.id] = n.targets[0].attr
    f2g = {}
    for s in cls.body:
        if isinstance(s, ast.FunctionDef) and s.name != '__init__':
            rets = [r for r in walk_no_nested(s) if isinstance(r, ast.Return)]
            if len(rets) == 1 and isinstance(rets[0].value, ast.Attribute) and unparse(rets[0].value.value) == 'self' and len(s.body) == 1:
                f2g.setdefault(rets[0].value.attr, []).append(s.name)
    return init[0], p2f, f2g


def strip_identity(e):
    while True:
        if isinstance(e, ast.Call) and unparse(e.func) in IDENTITY_CALLS and e.args and not e.keywords:
            e = e.args[-1] if unparse(e.func) == 'cast' else e.args[0]
            continue
        if isinstance(e, ast.Subscript) and isinstance(e.slice, ast.Slice) and e.slice.lower is None and e.slice.upper is None and e.slice.step is None:
            e = e.value
            continue
        return e


def run(repo, rep, tier):
    rep.explanation = EXPL
    # the banner is reported as sent: the only transformation between the line read from the peer and the report is the printable-ASCII sanitiser, which must
    # leave every printable character (32..126) alone and replace exactly the others (shared with C16: props/_bannerparse.check_print_helpers, by interpretation)
    from props import _bannerparse as _BP01
    _BP01.check_print_helpers(repo, rep, 'banner')
    kex_cls = repo.cls('ssh2_kex', 'SSH2_Kex')
    party_cls = repo.cls('ssh2_kexparty', 'SSH2_KexParty')
    parse = repo.func('ssh2_kex', 'SSH2_Kex.parse')
    rep.saw(parse)

    # ---- rule 1: parse-slot agreement, by interpretation (props/_messages.py) ------------------------------------------------------------------------
    # parse() is interpreted on a stream of read tokens, the constructors and property getters of SSH2_Kex / SSH2_KexParty are interpreted on what it
    # passes them: the packet must be read as cookie(16), ten name-lists, a boolean, a uint32, and the i-th name-list must be what the accessor of the
    # i-th RFC 4253 7.1 field returns -- however parse() is written (one statement per list, a comprehension with slices, star arguments)
    from props import _messages
    obj, reads, holder = _messages.parse_model(repo, 'ssh2_kex', 'SSH2_Kex', [('ssh2_kexparty', 'SSH2_KexParty')])
    ops = [(op, size) for op, size, tok in reads]
    rep.check('slots', 'SSH2_Kex.parse reads cookie(16), ten name-lists, first_kex_packet_follows, reserved', ops == [('read', 16)] + [('read_list', None)] * 10 + [('read_bool', None), ('read_int', None)], parse,
              'SSH2_Kex.parse reads %s' % [o for o, _ in ops], sample={'rule': 'slots', 'reads': [o for o, _ in ops]})
    lists = [tok for op, size, tok in reads if op == 'read_list']
    ordinal = ['1st', '2nd', '3rd', '4th', '5th', '6th', '7th', '8th', '9th', '10th']
    for i, slot in enumerate(SSH2_SLOTS):
        got = _messages.accessor(holder, obj, slot)
        rep.evals()
        where = [ordinal[k] for k, t in enumerate(lists) if t == got]
        rep.check('slots', 'name-list %d of the KEXINIT reaches accessor %s' % (i + 1, slot), i < len(lists) and got == lists[i], parse,
                  'kex.%s is the %s name-list of the packet (RFC 4253 7.1 order expects the %s)' % (slot, where[0] if where else 'value %r, not a' % (got,), ordinal[i]),
                  stmt='KEXINIT slot %s' % slot, sample={'rule': 'slots', 'chain': '%s -> %s' % (lists[i] if i < len(lists) else '?', slot)})
    # SSH-1
    p1 = repo.func('ssh1_publickeymessage', 'SSH1_PublicKeyMessage.parse')
    c1 = repo.cls('ssh1_publickeymessage', 'SSH1_PublicKeyMessage')
    rep.saw(p1)
    from sa.consteval import ConstEnv
    ce = ConstEnv(repo)
    consts = {'SSH1.CIPHERS': list(ce.lookup('ssh1', 'SSH1.CIPHERS')), 'SSH1.AUTHS': list(ce.lookup('ssh1', 'SSH1.AUTHS'))}
    obj1, reads1, holder1 = _messages.parse_model(repo, 'ssh1_publickeymessage', 'SSH1_PublicKeyMessage', extra_env=consts)
    ints = [tok for op, size, tok in reads1 if op == 'read_int']
    got3 = [_messages.accessor(holder1, obj1, a) for a in ('protocol_flags', 'supported_ciphers_mask', 'supported_authentications_mask')]
    rep.check('slots', 'SSH-1: the last three 32-bit fields are protocol flags, cipher mask, authentication mask', len(ints) == 5 and got3 == ints[-3:], p1, 'SSH-1 mask slots changed: accessors yield %s, the packet ends with %s' % (got3, ints[-3:]))
    from sa.objmodel import Obj
    for prop, field_acc, table, start in (('supported_ciphers', 'supported_ciphers_mask', consts['SSH1.CIPHERS'], 0), ('supported_authentications', 'supported_authentications_mask', consts['SSH1.AUTHS'], 1)):
        f = repo.func('ssh1_publickeymessage', 'SSH1_PublicKeyMessage.' + prop)
        rep.saw(f)
        # which private field does the mask accessor return?
        mfield = [k for k, v in obj1.fields.items() if v == _messages.accessor(holder1, obj1, field_acc)]
        bad = None
        masks = [0, (1 << 32) - 1, 0x55555555, 0xAAAAAAAA, 0x12345678] + [1 << b for b in range(0, 32)]
        for mask in masks if len(mfield) == 1 else []:
            o2 = Obj(obj1.cls, dict(obj1.fields, **{mfield[0]: mask}))
            try:
                got = holder1['attr'](o2, prop, None)[1]
            except Exception as ex:      # noqa: BLE001 -- Unknown from the interpreter
                raise AnalysisError('SSH-1 %s cannot be interpreted: %s' % (prop, ex))
            rep.evals()
            want = [table[i] for i in range(start, len(table)) if mask & (1 << i)]
            if got != want and bad is None:
                bad = (mask, got, want)
        rep.check('slots', 'SSH-1 %s: bit i of the mask selects entry i of the table, in ascending order (%d masks)' % (prop, len(masks)), len(mfield) == 1 and bad is None, f,
                  'SSH-1 %s decodes mask 0x%08x as %s, expected %s' % ((prop,) + bad) if bad else 'mask field of %s not identified' % prop)

    # ---- rule 2: render provenance (text) ----------------------------------------------------------------------------
    outf = repo.func('ssh_audit', 'output')
    oas = repo.func('ssh_audit', 'output_algorithms')
    oa = repo.func('ssh_audit', 'output_algorithm')
    bs = repo.func('ssh_audit', 'build_struct')
    rep.saw(outf), rep.saw(oas), rep.saw(oa), rep.saw(bs)

    # The report function is interpreted (props/_sections.py) for an SSH-2 and an SSH-1 peer, text and JSON mode, server and client audit: the calls that reach
    # output_algorithms -- written out, driven by a table, with keyword or **mapping arguments -- must be exactly one section per category, each fed by the
    # accessor of that category and rated against the table of that protocol; the audited role must not select another list.
    from props import _sections
    EXPECT = {2: [('kex', ['<kex.kex_algorithms>']), ('key', ['<kex.key_algorithms>']), ('enc', ['<kex.server.encryption>']), ('mac', ['<kex.server.mac>'])],
              1: [('key', ['ssh-rsa1']), ('enc', ['<pkm.supported_ciphers>']), ('aut', ['<pkm.supported_authentications>'])]}
    for proto in (2, 1):
        want_db = '<SSH%d_KexDB.get_db()>' % proto
        for json_mode in (False, True):
            for client in (False, True):
                for res in _sections.run_output(repo, proto, json_mode, client):
                    rep.evals()
                    secs = res['sections']
                    got = [(x['alg_type'], x['algorithms']) for x in secs]
                    node = secs[0]['node'] if secs else outf
                    ctx = 'SSH-%d%s%s' % (proto, ', JSON' if json_mode else '', ', client audit' if client else '')
                    for cat, src in EXPECT[proto]:
                        mine = [x for x in secs if x['alg_type'] == cat]
                        rule = 'role' if client else 'render'
                        rep.check(rule, 'text section %s/%s is fed by %s (%s)' % ('SSH%d' % proto, cat, src[0], ctx), len(mine) == 1 and mine[0]['algorithms'] == src, mine[0]['node'] if mine else outf,
                                  ('text view lacks the SSH%d %s section (%s)' % (proto, cat, ctx)) if not mine else 'text section (SSH%d) %s lists %s instead of %s (%s)%s' % (proto, cat, [x['algorithms'] for x in mine], src, ctx, ': the rendered list depends on the audited role' if client else ''),
                                  stmt='text section SSH%d/%s' % (proto, cat), sample={'rule': 'render', 'view': 'text', 'category': cat, 'source': repr(mine[0]['algorithms']) if mine else None})
                        if mine:
                            rep.check('render', 'text section SSH%d/%s rated against the SSH-%d table (%s)' % (proto, cat, proto, ctx), repr(mine[0]['alg_db']) == want_db, mine[0]['node'], 'section SSH%d/%s uses table %r' % (proto, cat, mine[0]['alg_db']))
                    extra = [g for g in got if g[0] not in [c for c, _ in EXPECT[proto]]]
                    rep.check('render', 'no other algorithm section (%s)' % ctx, not extra and len(got) == len(EXPECT[proto]), node, 'text view has sections %s, expected %s (%s)' % ([g[0] for g in got], [c for c, _ in EXPECT[proto]], ctx), stmt='text sections %s' % ctx)
                    if json_mode:
                        rep.check('render', 'the JSON view is built once, from the parsed messages (%s)' % ctx, len(res['json']) == 1 and repr(res['json'][0].get('kex')) == ('<kex>' if proto == 2 else 'None') and repr(res['json'][0].get('pkm')) == ('<pkm>' if proto == 1 else 'None'), outf,
                                  'output() does not forward the parsed message to build_struct (kex=%r, pkm=%r): the JSON of an SSH-%d audit lists nothing the peer advertised' % (res['json'][0].get('kex') if res['json'] else None, res['json'][0].get('pkm') if res['json'] else None, proto),
                                  stmt='build_struct(... %s ...)' % ('kex' if proto == 2 else 'pkm'))
    # output_algorithms iterates the list parameter as is
    loops = [n for n in walk_no_nested(oas) if isinstance(n, ast.For)]
    ok = len(loops) == 1 and unparse(strip_identity(loops[0].iter)) == 'algorithms'
    rep.check('order', 'output_algorithms iterates its list parameter unchanged', ok, loops[0] if loops else oas, 'output_algorithms iterates %s' % (unparse(loops[0].iter) if loops else '?'))

    # ---- rule 2: render provenance (JSON), rule 5: JSON compression / banner -- by interpretation of build_struct (props/_sections.py) -----------------
    # every parsed list holds two name tokens, an empty and a blank name: the JSON list of a category must hold one entry per non-empty name of that
    # category's accessor, in order, carrying the name itself; empty names produce no entry (as in the text report); compression and banner are the parsed values
    for sizes in (False, True):
        res, lists = _sections.run_build_struct(repo, 2, sizes=sizes)
        rep.evals()
        for cat, want in JSON_TABLE.items():
            src = [x for x in lists[want] if x.strip()]
            got = res.get(cat)
            names = [e.get('algorithm') if isinstance(e, dict) else e for e in got] if isinstance(got, list) else None
            if got is None:
                rep.check('render', 'JSON view has a %s list' % cat, False, bs, 'JSON view lacks the %s list' % cat, stmt='json list %s' % cat)
                continue
            blank = isinstance(names, list) and any(isinstance(n, str) and not n.strip() for n in names)
            rep.check('render', 'JSON %s: empty names (an empty name-list parses as [\'\']) produce no entry, like in the text report' % cat, not blank, bs,
                      'JSON %s lists an entry for the empty name of an empty (or comma-terminated) name-list, flagged "unknown algorithm", although the peer advertised no such name and the text report shows none' % cat, stmt='json list %s: empty names' % cat)
            if blank:
                names = [n for n in names if not (isinstance(n, str) and not n.strip())]
            rep.check('render', 'JSON list %s holds one entry per advertised name of %s, in order' % (cat, want), names == src, bs,
                      'JSON %s lists %s for the advertised %s = %s' % (cat, names, want, src), stmt='json list %s' % cat, sample={'rule': 'render', 'view': 'json', 'category': cat, 'source': want})
            if isinstance(got, list) and all(isinstance(e, dict) for e in got):
                okn = all(e.get('notes') == ('notes', e.get('algorithm'), cat) for e in got)
                rep.check('render', 'JSON %s: the notes of an entry are looked up for that name and category' % cat, okn, bs, 'JSON %s entry notes are looked up with %s' % (cat, [e.get('notes') for e in got][:2]), stmt='json list %s: notes' % cat)
        rep.check('json-misc', 'JSON compression is kex.server.compression', res.get('compression') == lists['kex.server.compression'], bs, 'JSON compression is %r, the peer advertised %r' % (res.get('compression'), lists['kex.server.compression']), stmt='json compression')
        b = res.get('banner')
        rep.check('json-misc', 'JSON banner object carries raw/protocol/software/comments of the parsed banner', b == {'raw': '<str(banner)>', 'protocol': '2.0', 'software': '<banner.software>', 'comments': '<banner.comments>'}, bs,
                  'JSON banner object is %r' % (b,), stmt='json banner')
    res1, _l = _sections.run_build_struct(repo, 1)
    for key, want in (('key', ['ssh-rsa1']), ('enc', ['<pkm.supported_ciphers>']), ('aut', ['<pkm.supported_authentications>'])):
        rep.check('render', 'SSH-1 JSON %s is %s' % (key, want[0]), res1.get(key) == want, bs, 'SSH-1 JSON %s is %r, expected %s' % (key, res1.get(key), want), stmt='json ssh1 %s' % key)
    # text compression line filters only 'none'
    comp = [n for n in walk_no_nested(outf) if isinstance(n, ast.Assign) and unparse(n.targets[0]) == 'compressions']
    ok = len(comp) == 1 and unparse(comp[0].value) == "[x for x in kex.server.compression if x != 'none']"
    rep.check('json-misc', 'text compression line lists kex.server.compression minus "none"', ok, comp[0] if comp else outf, 'text compression source changed')

    # ---- rule 3: order / multiset preservation ------------------------------------------------------------------------------
    from props import _listedits
    reach, seeds, is_src, cg = _listedits.scan(repo)
    nscan = 0
    for f in reach:
        if f._module.name in ('dheat',):
            continue
        nscan += 1
        d = Derived(f, is_src, extra_seeds=seeds[f], elements=False)
        for node, desc in d.mutations():
            rep.check('order', 'no in-place edit of a parsed name-list: %s' % func_id(f), False, node, 'parsed name-list edited in place (%s) in %s: advertised names can be dropped, reordered, duplicated or invented in every later rendering' % (desc, func_id(f)))
        # transformations applied to a parsed list on its way to a renderer
        if f in (outf, oas, bs):
            for n in walk_no_nested(f):
                if isinstance(n, ast.Call) and isinstance(n.func, ast.Name) and n.func.id in ('sorted', 'set', 'reversed', 'frozenset') and n.args and d.derived(n.args[0]):
                    tgt = unparse(n.args[0])
                    if any(tgt.endswith(a) for a in LIST_ATTRS) or tgt == 'algorithms':
                        rep.check('order', 'no reordering/deduplication of a parsed list in %s' % f.name, False, n, '%s(...) applied to the advertised list %s' % (n.func.id, tgt))
                if isinstance(n, ast.Call) and unparse(n.func) == 'Utils.unique_seq' and n.args and d.derived(n.args[0]):
                    rep.check('order', 'no deduplication of a parsed list in %s' % f.name, False, n, 'unique_seq applied to an advertised list')
    rep.floor('order', 'functions scanned for in-place edits', nscan, 100)
    # per-name renderer: emits for every non-empty name, with the original name (interpretation model shared with C02 / C03 / C15)
    from props import _renderer
    _renderer.verify(repo, rep, ['emit'], {'emit': 'emit'})
