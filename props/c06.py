"""C06 -- policy verdicts follow the documented matching rules."""
import ast
import itertools

from sa.core import AnalysisError, unparse, walk_no_nested, stmt_text, call_name, attr_chain
from sa.logic import path_condition, eval_prop, text_atomizer
from sa.abseval import ev, Unknown
from sa.slicer import uses
from sa.callgraph import CallGraph

EXPL = ('Decides the decision structure of Policy.evaluate from its AST: (1) every statement block contains `ret = False` iff it contains an '
        '_append_error call, the verdict has no other definition than the initial True, all returns return it with _get_errors(); (2) freshness '
        'of the error accumulator comes from the callers (single call chain, deep copy per worker); (3) per list field the sites that can fail are '
        'extracted with their path conditions and evaluated as truth tables over {field set, subset flag, exists peer name not in policy, lists differ, '
        'strict-kex atoms}: error <=> set and ((flag and (exists or strict)) or (not flag and differ)), the subset test iterates the PEER list and tests '
        'membership in the POLICY list; (4) size guards evaluated over flag x {actual<,=,>expected}; CA type before size; (5) the existential / "<" forms that '
        'make monotonicity hold; (6) expected/actual arguments of each error are not crossed and match the compared operands; (7) banner and compression are exact '
        'regardless of flags. Not decided: rendered text of the Errors block.')

LIST_FIELDS = [
    # label, policy field, peer accessor, loop/neq operand on the peer side in exact mode
    ('Host keys', 'self._host_keys', 'kex.key_algorithms', 'pruned_host_keys'),
    ('Key exchanges', 'self._kex', 'kex.kex_algorithms', 'kex.kex_algorithms'),
    ('Ciphers', 'self._ciphers', 'kex.server.encryption', 'kex.server.encryption'),
    ('MACs', 'self._macs', 'kex.server.mac', 'kex.server.mac'),
]
FLAG_SUBSET = 'self._allow_algorithm_subset_and_reordering'
FLAG_LARGER = 'self._allow_larger_keys'
STRICT_S = 'kex-strict-s-v00@openssh.com'
STRICT_C = 'kex-strict-c-v00@openssh.com'


def label_of(call):
    a = call.args[0] if call.args else None
    if isinstance(a, ast.Constant) and isinstance(a.value, str):
        return a.value
    if isinstance(a, ast.BinOp) and isinstance(a.op, ast.Mod) and isinstance(a.left, ast.Constant):
        return a.left.value
    return None


def run(repo, rep, tier):
    rep.explanation = EXPL
    pe = repo.func('policy', 'Policy.evaluate')
    rep.saw(pe)

    # ---- rule 1: verdict <=> error pairing ------------------------------------------------------------
    def blocks(node):
        for n in ast.walk(node):
            for fld in ('body', 'orelse', 'finalbody'):
                b = getattr(n, fld, None)
                if isinstance(b, list) and b and isinstance(b[0], ast.stmt):
                    yield n, b
    npairs = 0
    for owner, b in blocks(pe):
        nf = [s for s in b if isinstance(s, ast.Assign) and unparse(s) == 'ret = False']
        ne = [s for s in b if isinstance(s, ast.Expr) and isinstance(s.value, ast.Call) and unparse(s.value.func) == 'self._append_error']
        if nf or ne:
            npairs += 1
            ok = len(nf) == 1 and len(ne) == 1
            rep.check('pairing', 'block at line %d pairs `ret = False` with one _append_error' % b[0].lineno, ok, (nf or ne)[0],
                      'verdict and error list disagree: block has %d `ret = False` and %d _append_error' % (len(nf), len(ne)))
    rep.floor('pairing', 'failing sites in Policy.evaluate', npairs, 15)
    defs = [n for n in walk_no_nested(pe) if isinstance(n, (ast.Assign, ast.AugAssign)) and any(unparse(t) == 'ret' for t in (n.targets if isinstance(n, ast.Assign) else [n.target]))]
    for d in defs:
        ok = unparse(d) in ('ret = True', 'ret = False') and (unparse(d) != 'ret = True' or d in pe.body)
        rep.check('pairing', 'verdict definition is the initial True or a paired False: %s' % unparse(d), ok, d, 'verdict variable defined by %s' % unparse(d))
    rep.check('pairing', 'verdict initialised True exactly once at function level', sum(1 for d in defs if unparse(d) == 'ret = True') == 1, pe, 'verdict is not initialised exactly once to True')
    nret = 0
    for r in walk_no_nested(pe):
        if isinstance(r, ast.Return):
            nret += 1
            ok = isinstance(r.value, ast.Tuple) and len(r.value.elts) == 3 and unparse(r.value.elts[0]) == 'ret'
            rep.check('pairing', 'return gives (verdict, error list, error text)', ok, r, 'Policy.evaluate returns %s' % unparse(r.value)[:60])
            # error_list/error_str come from self._get_errors() in the same block
            blk = r._parent.body if r in getattr(r._parent, 'body', []) else getattr(r._parent, 'orelse', [])
            src = [s for s in blk if isinstance(s, ast.Assign) and isinstance(s.value, ast.Call) and unparse(s.value.func) == 'self._get_errors']
            names = [unparse(e) for e in r.value.elts[1:]] if ok else []
            ok2 = len(src) == 1 and isinstance(src[0].targets[0], ast.Tuple) and [unparse(e) for e in src[0].targets[0].elts] == names
            rep.check('pairing', 'returned error list/text come from _get_errors()', ok2, r, 'returned errors are not the accumulator rendered by _get_errors()')
    rep.floor('pairing', 'returns of Policy.evaluate', nret, 2)
    ge = repo.func('policy', 'Policy._get_errors')
    rets = [r for r in walk_no_nested(ge) if isinstance(r, ast.Return)]
    rep.check('pairing', '_get_errors returns the accumulator itself', len(rets) == 1 and isinstance(rets[0].value, ast.Tuple) and unparse(rets[0].value.elts[0]) == 'self._errors', ge, '_get_errors does not return self._errors')
    ae = repo.func('policy', 'Policy._append_error')
    apps = [n for n in walk_no_nested(ae) if isinstance(n, ast.Call) and unparse(n.func) == 'self._errors.append']
    ok = len(apps) == 1 and not path_condition(apps[0])
    rep.check('pairing', '_append_error appends exactly one record unconditionally', ok, ae, '_append_error may append zero or several records')
    if ok and isinstance(apps[0].args[0], ast.Dict):
        d = apps[0].args[0]
        keys = [k.value for k in d.keys]
        vals = [unparse(v) for v in d.values]
        rep.check('errors', 'error record carries mismatched_field/expected/actual from the parameters',
                  dict(zip(keys, vals)) == {'mismatched_field': 'mismatched_field', 'expected_required': 'expected_required', 'expected_optional': 'expected_optional', 'actual': 'actual'}, apps[0],
                  'error record fields are %s' % dict(zip(keys, vals)))
    # _get_errors renders field, expected and actual for every record
    txt = unparse(ge)
    for need in ("e['mismatched_field']", "e['expected_required']", "e['actual']"):
        rep.check('errors', '_get_errors renders %s' % need, need in txt, ge, '_get_errors no longer renders %s' % need)

    # ---- rule 2: fresh instance ------------------------------------------------------------------------
    pol_cls = repo.cls('policy', 'Policy')
    for n in ast.walk(pol_cls):
        if isinstance(n, ast.Attribute) and n.attr == '_errors' and isinstance(n.ctx, (ast.Store, ast.Del)):
            f = n._func
            rep.check('fresh', 'accumulator only (re)bound in __init__: %s' % stmt_text(n._parent), f is not None and f.name == '__init__', n, 'self._errors is rebound outside __init__')
    cg = CallGraph(repo)
    callers = cg.callers(pe)
    rep.check('fresh', 'Policy.evaluate has exactly one caller (evaluate_policy)', [f._qualname for f, s, k in callers] == ['evaluate_policy'], pe, 'callers of Policy.evaluate: %s' % [f._qualname for f, s, k in callers])
    ep = repo.func('ssh_audit', 'evaluate_policy')
    c2 = cg.callers(ep)
    rep.check('fresh', 'evaluate_policy has exactly one caller (audit)', [f._qualname for f, s, k in c2] == ['audit'], ep, 'callers of evaluate_policy: %s' % [f._qualname for f, s, k in c2])
    for f, s, k in callers + c2:
        loops = [k2 for t, p, k2 in path_condition(s) if k2 in ('for', 'while')]
        rep.check('fresh', 'call %s is not inside a loop' % unparse(s)[:50], not loops, s, 'policy evaluated repeatedly on the same instance (errors accumulate)')
    tw = repo.func('ssh_audit', 'target_worker_thread')
    dc = [n for n in walk_no_nested(tw) if isinstance(n, ast.Assign) and isinstance(n.value, ast.Call) and unparse(n.value.func) == 'copy.deepcopy']
    ok = len(dc) == 1 and unparse(dc[0].value.args[0]) == 'shared_aconf'
    cfgvar = unparse(dc[0].targets[0]) if dc else None
    rep.check('fresh', 'worker deep-copies the shared configuration (and its Policy)', ok, tw, 'worker does not deep-copy the shared configuration')
    for n in walk_no_nested(tw):
        if isinstance(n, ast.Call) and call_name(n) == 'audit':
            rep.check('fresh', 'worker audits with its private copy', len(n.args) > 1 and unparse(n.args[1]) == cfgvar, n, 'worker passes %s to audit instead of its private copy' % (unparse(n.args[1]) if len(n.args) > 1 else '?'))

    # ---- sites --------------------------------------------------------------------------------------------
    sites = {}
    for n in walk_no_nested(pe):
        if isinstance(n, ast.Call) and unparse(n.func) == 'self._append_error':
            lab = label_of(n)
            if lab is None:
                raise AnalysisError('error label is not a constant: %s' % unparse(n)[:80])
            sites.setdefault(lab, []).append(n)
    expected_labels = {'Banner', 'Compression', 'Host keys', 'Host key (%s) sizes', 'CA signature type', 'CA signature size (%s)', 'Key exchanges', 'Ciphers', 'MACs', 'Group exchange (%s) modulus sizes'}
    rep.check('errors', 'error labels are the documented field names', set(sites) == expected_labels, pe, 'error labels changed: %s' % sorted(set(sites) ^ expected_labels))

    # ---- rule 3: list fields -------------------------------------------------------------------------------
    for label, pfield, peer, exact_peer in LIST_FIELDS:
        ss = sites.get(label, [])
        want_sites = 3 if label == 'Key exchanges' else 2
        rep.check('lists', '%s: %d failing sites' % (label, want_sites), len(ss) == want_sites, ss[0] if ss else pe, '%s has %d failing sites, expected %d' % (label, len(ss), want_sites))
        table = {
            '%s is not None' % pfield: 'set',
            FLAG_SUBSET: 'flag',
            'kex is None': '!kexp',
        }
        site_forms = []
        for c in ss:
            conds = path_condition(c)
            local = dict(table)
            loops = [(t, p) for t, p, k in conds if k == 'for']
            for t, p, k in conds:
                if k == 'for':
                    continue
                for cmp_ in [x for x in ast.walk(t) if isinstance(x, ast.Compare)]:
                    txt = unparse(cmp_)
                    if len(cmp_.ops) == 1 and isinstance(cmp_.ops[0], ast.NotIn) and unparse(cmp_.comparators[0]) == pfield and loops:
                        # loop variable must be bound by a loop over the peer list
                        lv = unparse(cmp_.left)
                        it = [unparse(lt) for lt, lp in loops if lv in [unparse(x) for x in ast.walk(lt._parent.target)]] if False else None
                        loopnode = None
                        q = c
                        while q is not None and not isinstance(q, ast.FunctionDef):
                            if isinstance(q, ast.For) and lv in [x.id for x in ast.walk(q.target) if isinstance(x, ast.Name)]:
                                loopnode = q
                                break
                            q = q._parent
                        okdir = loopnode is not None and unparse(loopnode.iter) == peer
                        rep.check('lists', '%s: subset test iterates the peer list and tests membership in the policy list' % label, okdir, cmp_,
                                  'subset test direction wrong: iterates %s testing `%s`' % (unparse(loopnode.iter) if loopnode is not None else '?', txt))
                        if loopnode is not None:
                            brk = any(isinstance(x, ast.Break) for x in c._parent._parent.body) if isinstance(c._parent, ast.Expr) else False
                            rep.check('lists', '%s: one error per field in subset mode (break after the first)' % label, brk, c, 'subset loop reports one error per offending name (no break)')
                        local[txt] = 'exists'
                    elif len(cmp_.ops) == 1 and isinstance(cmp_.ops[0], ast.In) and unparse(cmp_.comparators[0]) == pfield and not isinstance(cmp_.left, ast.Constant):
                        rep.check('lists', '%s: subset test uses `not in` on the policy list' % label, False, cmp_, 'subset test inverted: `%s`' % txt)
                        local[txt] = '!exists'
                    elif len(cmp_.ops) == 1 and isinstance(cmp_.ops[0], (ast.NotEq, ast.Eq)) and {unparse(cmp_.left), unparse(cmp_.comparators[0])} == {exact_peer, pfield}:
                        local[txt] = 'differ' if isinstance(cmp_.ops[0], ast.NotEq) else '!differ'
                    elif len(cmp_.ops) == 1 and isinstance(cmp_.ops[0], (ast.NotIn, ast.In)) and unparse(cmp_.comparators[0]) == peer and not isinstance(cmp_.left, ast.Constant):
                        rep.check('lists', '%s: subset test iterates the peer list and tests membership in the policy list' % label, False, cmp_,
                                  'subset test direction wrong: membership is tested in the PEER list (`%s`), so a peer superset passes and a peer subset fails' % txt)
                        local[txt] = 'exists'
                    elif len(cmp_.ops) == 1 and isinstance(cmp_.ops[0], (ast.NotEq, ast.Eq)) and {peer, pfield} <= (uses(cmp_.left) | uses(cmp_.comparators[0])) | {exact_peer} and \
                            any(isinstance(x, ast.Call) and isinstance(x.func, ast.Name) and x.func.id in ('set', 'sorted', 'frozenset', 'len') for x in ast.walk(cmp_)):
                        rep.check('lists', '%s: exact mode compares the lists themselves (order and multiplicity)' % label, False, cmp_,
                                  'exact-mode comparison `%s` ignores order/duplicates' % txt)
                        local[txt] = 'differ'
                    elif txt == "'%s' in %s" % (STRICT_S, pfield):
                        local[txt] = 'sp'
                    elif txt == "'%s' in %s" % (STRICT_C, pfield):
                        local[txt] = 'cp'
                    elif txt == "'%s' not in %s" % (STRICT_S, peer):
                        local[txt] = '!sk'
                    elif txt == "'%s' not in %s" % (STRICT_C, peer):
                        local[txt] = '!ck'
            site_forms.append((c, [(t, p) for t, p, k in conds if k != 'for'], text_atomizer(local)))
        atoms = ['set', 'flag', 'exists', 'differ'] + (['sp', 'sk', 'cp', 'ck'] if label == 'Key exchanges' else [])
        bad_rows = []
        nrows = 0
        for bits in itertools.product([False, True], repeat=len(atoms)):
            val = dict(zip(atoms, bits))
            val['kexp'] = True      # all list comparisons need a parsed kex (early return otherwise)
            got = False
            for c, conds, atz in site_forms:
                if all(eval_prop(t, atz, val) == p for t, p in conds):
                    got = True
            strict = (val.get('sp', False) and not val.get('sk', False)) or (val.get('cp', False) and not val.get('ck', False))
            want = val['set'] and ((val['flag'] and (val['exists'] or strict)) or (not val['flag'] and val['differ']))
            nrows += 1
            rep.evals()
            if got != want:
                bad_rows.append((val, got, want))
        rep.check('lists', '%s: decision table (%d rows) equals the documented rule' % (label, nrows), not bad_rows, ss[0] if ss else pe,
                  '%s: verdict differs from the documented rule, e.g. %s -> fails=%s, documented=%s' % ((label,) + (bad_rows[0] if bad_rows else ({}, None, None))),
                  sample={'rule': 'lists', 'field': label, 'rows': nrows, 'atoms': atoms})
    # pruning of optional host keys: applied to the PEER list
    ph = [n for n in walk_no_nested(pe) if isinstance(n, ast.Assign) and unparse(n.targets[0]) == 'pruned_host_keys']
    ok = len(ph) == 2
    if ok:
        plain = [n for n in ph if unparse(n.value) == 'kex.key_algorithms']
        comp = [n for n in ph if isinstance(n.value, ast.ListComp)]
        ok = len(plain) == 1 and len(comp) == 1
        if ok:
            lc = comp[0].value
            g = lc.generators[0]
            ok = unparse(g.iter) == 'kex.key_algorithms' and len(g.ifs) == 1 and unparse(g.ifs[0]) == '%s not in self._optional_host_keys' % unparse(g.target) and unparse(lc.elt) == unparse(g.target)
            conds = [(unparse(t), p) for t, p, k in path_condition(comp[0])]
            ok = ok and ('self._optional_host_keys is not None', True) in conds and all(c in (('self._optional_host_keys is not None', True), ('kex is None', False)) for c in conds)
    rep.check('lists', 'optional host keys are pruned from the peer list (not from the policy list)', ok, ph[0] if ph else pe, 'optional-host-key pruning is not `[x for x in peer if x not in optional]`')

    # ---- rule 4: size fields ------------------------------------------------------------------------------------
    from sa.abseval import track_block, Opaque
    from sa.core import bind_args as _bind

    def make_hook(env):
        # a guard may delegate to a small helper method of Policy: it is interpreted on the bound arguments
        def hook(node):
            if isinstance(node, ast.Call) and isinstance(node.func, ast.Attribute) and unparse(node.func.value) in ('self', 'Policy'):
                if repo.has_func('policy', 'Policy.' + node.func.attr):
                    m = repo.func('policy', 'Policy.' + node.func.attr)
                    b = _bind(node, m, skip_self=True)
                    env2 = {k: v for k, v in env.items() if k.startswith('self.')}
                    for par, a in b.items():
                        env2[par] = ev(a, env, hook)
                    env2['<return>'] = None
                    body = [st for st in m.body if not (isinstance(st, ast.Expr) and isinstance(st.value, ast.Constant))]
                    track_block(body, env2, {'<return>'}, hook=make_hook(env2))
                    if isinstance(env2['<return>'], Opaque):
                        raise Unknown('helper %s not interpretable' % node.func.attr)
                    return (True, env2['<return>'])
            return None
        return hook

    def size_site(label, actual, expected, actual_src, expected_src):
        ss = sites.get(label, [])
        rep.check('sizes', '%s: one failing site' % label, len(ss) == 1, ss[0] if ss else pe, '%s has %d failing sites' % (label, len(ss)))
        if not ss:
            return
        c = ss[0]
        conds = path_condition(c)
        guard = [t for t, p, k in conds if k == 'if' and actual in uses(t) and expected in uses(t)]
        if len(guard) != 1:
            raise AnalysisError('%s: cannot isolate the size guard' % label)
        g = guard[0]
        pol = [p for t, p, k in conds if t is g][0]
        for flag in (False, True):
            for a, rel in ((9, '<'), (10, '='), (11, '>')):
                env = {FLAG_LARGER: flag, actual: a, expected: 10}
                try:
                    got = bool(ev(g, env, make_hook(env))) == pol
                except Unknown as e:
                    raise AnalysisError('%s: size guard not interpretable: %s' % (label, e))
                want = (flag and a < 10) or (not flag and a != 10)
                rep.evals()
                rep.check('sizes', '%s: larger_keys=%s actual%sexpected -> %s' % (label, flag, rel, 'error' if want else 'ok'), got == want, g,
                          '%s: with allow_larger_keys=%s and actual %s expected the check %s' % (label, flag, rel, 'fails' if got else 'passes'))
        # operand provenance
        for var, src in ((actual, actual_src), (expected, expected_src)):
            ds = [n for n in walk_no_nested(pe) if isinstance(n, ast.Assign) and unparse(n.targets[0]) == var]
            ok = len(ds) == 1 and src(unparse(ds[0].value))
            rep.check('sizes', '%s: %s is read from the right side' % (label, var), ok, ds[0] if ds else c, '%s is defined as %s' % (var, unparse(ds[0].value) if ds else '?'))
        # error arguments
        ok = actual in uses(c.args[3]) and expected in uses(c.args[1]) and actual not in uses(c.args[1]) and expected not in uses(c.args[3])
        rep.check('errors', '%s: expected/actual arguments not crossed' % label, ok, c, 'error reports expected=%s actual=%s' % (unparse(c.args[1]), unparse(c.args[3])))
    size_site('Host key (%s) sizes', 'actual_hostkey_size', 'expected_hostkey_size',
              lambda s: s == "cast(int, server_host_keys[hostkey_type]['hostkey_size'])", lambda s: s == "cast(int, self._hostkey_sizes[hostkey_type]['hostkey_size'])")
    size_site('CA signature size (%s)', 'actual_ca_key_size', 'expected_ca_key_size',
              lambda s: s == "cast(int, server_host_keys[hostkey_type]['ca_key_size'])", lambda s: s == "cast(int, self._hostkey_sizes[hostkey_type]['ca_key_size'])")
    size_site('Group exchange (%s) modulus sizes', 'actual_dh_modulus_size', 'expected_dh_modulus_size',
              lambda s: s == 'kex.dh_modulus_sizes()[dh_modulus_type]', lambda s: s == 'self._dh_modulus_sizes[dh_modulus_type]')
    shk = [n for n in walk_no_nested(pe) if isinstance(n, ast.Assign) and unparse(n.targets[0]) == 'server_host_keys']
    rep.check('sizes', 'server_host_keys is kex.host_keys()', len(shk) == 1 and unparse(shk[0].value) == 'kex.host_keys()', shk[0] if shk else pe, 'server_host_keys is not kex.host_keys()')
    # membership guards make the subscripts total and skip absent keys
    for label, need in (('Host key (%s) sizes', 'hostkey_type in server_host_keys'), ('Group exchange (%s) modulus sizes', 'dh_modulus_type in kex.dh_modulus_sizes()')):
        for c in sites.get(label, []):
            conds = [(unparse(t), p) for t, p, k in path_condition(c)]
            rep.check('sizes', '%s checked only for key types the peer presented' % label, (need, True) in conds, c, '%s: membership guard `%s` missing' % (label, need))
    # CA: type before size, only when the policy lists a CA
    ct = sites.get('CA signature type', [])
    cs = sites.get('CA signature size (%s)', [])
    if ct and cs:
        tconds = [(unparse(t), p) for t, p, k in path_condition(ct[0])]
        sconds = [(unparse(t), p) for t, p, k in path_condition(cs[0])]
        rep.check('sizes', 'CA type mismatch is tested as `!=` and reported under its own label', ('actual_ca_key_type != expected_ca_key_type', True) in tconds, ct[0], 'CA type test is %s' % tconds[-1:])
        rep.check('sizes', 'CA size is compared only when the type matched', ('actual_ca_key_type != expected_ca_key_type', False) in sconds, cs[0], 'CA size compared even when the CA type differs (or before it)')
        need = "self._hostkey_sizes is not None and len(cast(str, self._hostkey_sizes[hostkey_type]['ca_key_type'])) > 0 and (cast(int, self._hostkey_sizes[hostkey_type]['ca_key_size']) > 0)"
        rep.check('sizes', 'CA checks only when the policy lists a CA (type non-empty and size > 0)', (need, True) in tconds and (need, True) in sconds, ct[0], 'CA guard changed: %s' % [t for t, p in tconds if 'ca_key' in t][:1])
        c = ct[0]
        rep.check('errors', 'CA type error: expected/actual not crossed', unparse(c.args[1]) == '[expected_ca_key_type]' and unparse(c.args[3]) == '[actual_ca_key_type]', c, 'CA type error arguments crossed')
        for var, src in (('actual_ca_key_type', "cast(str, server_host_keys[hostkey_type]['ca_key_type'])"), ('expected_ca_key_type', "cast(str, self._hostkey_sizes[hostkey_type]['ca_key_type'])")):
            ds = [n for n in walk_no_nested(pe) if isinstance(n, ast.Assign) and unparse(n.targets[0]) == var]
            rep.check('sizes', '%s read from the right side' % var, len(ds) == 1 and unparse(ds[0].value) == src, ds[0] if ds else pe, '%s defined as %s' % (var, unparse(ds[0].value) if ds else '?'))

    # ---- rule 6: list-field error contents -------------------------------------------------------------------------
    for label, pfield, peer, exact_peer in LIST_FIELDS:
        for c in sites.get(label, []):
            ok = unparse(c.args[1]) == pfield and unparse(c.args[3]) == peer
            if label == 'Host keys':
                ok = ok and unparse(c.args[2]) == 'self._optional_host_keys'
            rep.check('errors', '%s: error carries policy list as expected and peer list as actual' % label, ok, c, '%s error reports expected=%s actual=%s' % (label, unparse(c.args[1]), unparse(c.args[3])))
    # ---- rule 7: exact fields --------------------------------------------------------------------------------------------
    for label, pfield, peer in (('Banner', 'self._banner', 'banner_str'), ('Compression', 'self._compressions', 'kex.server.compression')):
        ss = sites.get(label, [])
        rep.check('exact', '%s: one failing site' % label, len(ss) == 1, ss[0] if ss else pe, '%s has %d sites' % (label, len(ss)))
        for c in ss:
            conds = path_condition(c)
            flat = ' ; '.join(unparse(t) for t, p, k in conds)
            rep.check('exact', '%s compared regardless of the relaxation flags' % label, FLAG_SUBSET not in flat and FLAG_LARGER not in flat, c, '%s comparison depends on a relaxation flag' % label)
            want = '%s is not None and %s != %s' % (pfield, peer, pfield)
            rep.check('exact', '%s: fails iff set and different' % label, any(unparse(t) == want and p for t, p, k in conds), c, '%s guard is not `%s`' % (label, want))
            okargs = pfield in uses(c.args[1]) and peer in uses(c.args[3])
            rep.check('errors', '%s: expected/actual not crossed' % label, okargs, c, '%s error arguments crossed' % label)
    bs = [n for n in walk_no_nested(pe) if isinstance(n, ast.Assign) and unparse(n.targets[0]) == 'banner_str']
    rep.check('exact', 'banner_str is str(banner)', len(bs) == 1 and unparse(bs[0].value) == 'str(banner)', bs[0] if bs else pe, 'banner_str changed')
    # early return when kex is None happens after the banner check only
    er = [n for n in pe.body if isinstance(n, ast.If) and unparse(n.test) == 'kex is None']
    rep.check('exact', 'without a kex only the banner is evaluated (early return)', len(er) == 1 and isinstance(er[0].body[-1], ast.Return), er[0] if er else pe, 'kex-is-None early return missing')
    # ---- rule 5: monotonicity argument recorded -----------------------------------------------------------------------------
    rep.note('monotonicity: in subset mode every failing condition is (exists x in peer: x not in policy) or the strict-kex clause -- antitone in the peer list except the marker itself; in larger-keys mode the failing condition is actual < expected -- antitone in actual. The forms are verified by rules lists/sizes above.')
