"""C06 -- policy verdicts follow the documented matching rules."""
import ast
import itertools

from sa.core import AnalysisError, unparse, walk_no_nested, stmt_text, call_name, attr_chain
from sa.logic import path_condition, eval_prop, text_atomizer
from sa.abseval import ev, Unknown
from sa.slicer import uses
from sa.callgraph import CallGraph

EXPL = ('Decides the decision structure of Policy.evaluate from its AST: (1) every statement block contains `ret = False` iff it contains an '
        '_append_error call, the verdict has no other definition than the initial True, all returns return it with _get_errors(); (2) freshness '
        'of the error accumulator comes from the callers (single call chain, deep copy per worker); (3) per list field the sites that can fail are '
        'extracted with their path conditions and evaluated as truth tables over {field set, subset flag, exists peer name not in policy, lists differ, '
        'strict-kex atoms}: error <=> set and ((flag and (exists or strict)) or (not flag and differ)), the subset test iterates the PEER list and tests '
        'membership in the POLICY list; (4) size guards evaluated over flag x {actual<,=,>expected}; CA type before size; (5) the existential / "<" forms that '
        'make monotonicity hold; (6) expected/actual arguments of each error are not crossed and match the compared operands; (7) banner and compression are exact '
        'regardless of flags. Not decided: rendered text of the Errors block.')

LIST_FIELDS = [
    # label, policy field, peer accessor, loop/neq operand on the peer side in exact mode
    ('Host keys', 'self._host_keys', 'kex.key_algorithms', 'pruned_host_keys'),
    ('Key exchanges', 'self._kex', 'kex.kex_algorithms', 'kex.kex_algorithms'),
    ('Ciphers', 'self._ciphers', 'kex.server.encryption', 'kex.server.encryption'),
    ('MACs', 'self._macs', 'kex.server.mac', 'kex.server.mac'),
]
FLAG_SUBSET = 'self._allow_algorithm_subset_and_reordering'
FLAG_LARGER = 'self._allow_larger_keys'
STRICT_S = 'kex-strict-s-v00@openssh.com'
STRICT_C = 'kex-strict-c-v00@openssh.com'


def label_of(call):
    a = call.args[0] if call.args else None
    if isinstance(a, ast.Constant) and isinstance(a.value, str):
        return a.value
    if isinstance(a, ast.BinOp) and isinstance(a.op, ast.Mod) and isinstance(a.left, ast.Constant):
        return a.left.value
    return None


def run(repo, rep, tier):
    rep.explanation = EXPL
    pe = repo.func('policy', 'Policy.evaluate')
    rep.saw(pe)

    # ---- rules 1, 3-7: decision table by abstract interpretation (props/_policy.py) --------------------------------------------------------
    # Policy.evaluate is interpreted for 5 policy states x ~70 peers (one attribute changed at a time, plus combinations) x both relaxation flags:
    # on every path the verdict and the recorded errors must be those the documentation implies; verdict <=> no error; the record of a list field
    # carries the policy's list as expected and the peer's list as actual, the record of a size its expected / actual value (not crossed).
    from props import _policy as P
    from sa.consteval import ConstEnv
    consts = P.class_consts(repo, ConstEnv(repo))
    # ---- rule 0: "every field the policy specifies": the policy state the verdict is computed from is what the policy file says ------------------------
    # The constructor is interpreted (props/_policy.load) on hand-written policy files: lists keep the names as written (SSH names are case-sensitive and
    # contain '=', '+', '/', '@'), in order, blanks around names and around the '=' of a directive dropped; size maps are the JSON written; a flag is on
    # exactly for the value "true"; directives that are absent or commented out specify nothing.
    TEXTS = [
        ('a hand-written baseline with both relaxations', """
# comment
name = "Baseline"
version = 7
allow_algorithm_subset_and_reordering = true
allow_larger_keys = true
banner = "SSH-2.0-Example_1.0"
compressions = none, zlib@openssh.com
host keys = rsa-sha2-512,ssh-ed25519 ,  ssh-ed25519-cert-v01@openssh.com
optional host keys = sk-ssh-ed25519@openssh.com
key exchanges = gss-group14-sha256-toWM5Slw5Ew8Mqkay+al2g==, kexAlgoCurve25519SHA256, curve25519-sha256@libssh.org, kex-strict-s-v00@openssh.com
ciphers = AEAD_AES_256_GCM, aes256-ctr
macs = hmac-sha2-256
host_key_sizes = {"rsa-sha2-512": {"hostkey_size": 3072}, "ssh-ed25519-cert-v01@openssh.com": {"hostkey_size": 256, "ca_key_type": "ssh-rsa", "ca_key_size": 4096}}
dh_modulus_sizes = {"gss-gex-sha1-vz8J1E9PzLr8b1K+0remTg==": 2048, "diffie-hellman-group-exchange-sha256": 3072}
""", {'_name': 'Baseline', '_version': '7', '_allow_algorithm_subset_and_reordering': True, '_allow_larger_keys': True, '_banner': 'SSH-2.0-Example_1.0', '_compressions': ['none', 'zlib@openssh.com'],
            '_host_keys': ['rsa-sha2-512', 'ssh-ed25519', 'ssh-ed25519-cert-v01@openssh.com'], '_optional_host_keys': ['sk-ssh-ed25519@openssh.com'],
            '_kex': ['gss-group14-sha256-toWM5Slw5Ew8Mqkay+al2g==', 'kexAlgoCurve25519SHA256', 'curve25519-sha256@libssh.org', 'kex-strict-s-v00@openssh.com'], '_ciphers': ['AEAD_AES_256_GCM', 'aes256-ctr'], '_macs': ['hmac-sha2-256'],
            '_hostkey_sizes': {'rsa-sha2-512': {'hostkey_size': 3072, 'ca_key_type': '', 'ca_key_size': 0}, 'ssh-ed25519-cert-v01@openssh.com': {'hostkey_size': 256, 'ca_key_type': 'ssh-rsa', 'ca_key_size': 4096}},
            '_dh_modulus_sizes': {'gss-gex-sha1-vz8J1E9PzLr8b1K+0remTg==': 2048, 'diffie-hellman-group-exchange-sha256': 3072}, '_server_policy': True}),
        ('an exact-match client policy that specifies two lists only', """
name = "Clients"
version = 1
client policy = true
allow_algorithm_subset_and_reordering = false
allow_larger_keys = no
#host keys = ssh-rsa
key exchanges = curve25519-sha256
ciphers = aes256-ctr, aes128-ctr
""", {'_name': 'Clients', '_version': '1', '_allow_algorithm_subset_and_reordering': False, '_allow_larger_keys': False, '_banner': None, '_compressions': None, '_host_keys': None, '_optional_host_keys': None,
            '_kex': ['curve25519-sha256'], '_ciphers': ['aes256-ctr', 'aes128-ctr'], '_macs': None, '_hostkey_sizes': None, '_dh_modulus_sizes': None, '_server_policy': False}),
    ]
    init = repo.func('policy', 'Policy.__init__')
    rep.saw(init)
    for tdesc, text, want_state in TEXTS:
        st_ = P.load(repo, consts, text)
        rep.evals()
        if not isinstance(st_, dict):
            rep.check('loader', 'the constructor loads %s' % tdesc, False, init, 'a valid policy file (%s) does not load: %s' % (tdesc, st_[1]), stmt='loader: %s' % tdesc)
            continue
        diffs = []
        for k_, v_ in want_state.items():
            g_ = st_.get(k_)
            if k_ == '_hostkey_sizes' and isinstance(g_, dict) and isinstance(v_, dict):
                g_ = {t_: {f_: x_ for f_, x_ in e_.items() if f_ != 'raw_hostkey_bytes'} for t_, e_ in g_.items() if isinstance(e_, dict)}
            if g_ != v_:
                diffs.append('%s is %r, the file says %r' % (k_, g_, v_))
        rep.check('loader', 'the policy state is what the file specifies (%s)' % tdesc, not diffs, init,
                  'the policy the verdict is computed from is not the one the file specifies (%s): %s' % (tdesc, '; '.join(diffs[:3])), stmt='loader: %s' % tdesc, sample={'rule': 'loader', 'file': tdesc})
    banner = 'SSH-2.0-OpenSSH_9.9'
    nrows = 0
    bad = {'table': [], 'pairing': [], 'errors': [], 'monotone': []}
    verdicts = {}
    rows = [(pdesc, pol, desc, peer, subset, larger) for (pdesc, pol), subset, larger in itertools.product(P.policies(), (False, True), (False, True)) for desc, peer in P.peers(pol) + [('no algorithm message', None)]]
    for pdesc, pol, desc, peer, subset, larger in rows:
        res = P.run(repo, consts, pol, peer, subset, larger, banner)
        want = P.expected(pol, peer, subset, larger, banner)
        ctx = 'policy with %s, %s, subset/reordering %s, larger keys %s' % (pdesc, desc, 'allowed' if subset else 'not allowed', 'allowed' if larger else 'not allowed')
        if len({v for v, e, r, f in res}) > 1:
            raise AnalysisError('Policy.evaluate: the verdict for (%s) depends on a condition the analysis does not model: %s' % (ctx, [f for v, e, r, f in res][:2]))
        for v, errs, r, forks in res:
            nrows += 1
            rep.evals()
            got = [e.get('mismatched_field') for e in errs]
            verdicts[(pdesc, desc, subset, larger)] = v
            if sorted(set(got)) != sorted(set(want)) or v != (not want):
                missing, extra = sorted(set(want) - set(got)), sorted(set(got) - set(want))
                bad['table'].append('%s: verdict %s, errors %s -- the documented rule gives %s%s' % (ctx, 'PASS' if v else 'FAIL', got, 'PASS' if not want else 'FAIL with %s' % want,
                                                                                                   ' (not reported: %s)' % missing if missing else (' (wrongly reported: %s)' % extra if extra else '')))
            if v != (not errs):
                bad['pairing'].append('%s: verdict %s with %d recorded error(s) %s' % (ctx, v, len(errs), got))
            if len(r) != 3 or r[1] is not None and r[1] != errs and not isinstance(r[1], type(errs)):
                bad['pairing'].append('%s: evaluate() returns %r' % (ctx, r))
            for lab in set(got):
                if got.count(lab) > (2 if lab == 'Key exchanges' else 1) and not lab.startswith(('Host key (', 'CA signature', 'Group exchange')):
                    bad['errors'].append('%s: %d errors for the field %r' % (ctx, got.count(lab), lab))
            for e in errs:
                lab = e.get('mismatched_field')
                for fld, acc, label in P.LIST_FIELDS:
                    if lab == label and peer is not None and (e.get('expected_required') != pol[fld] or e.get('actual') != peer[acc]):
                        bad['errors'].append('%s: the %r error reports expected=%r actual=%r (policy %r, peer %r)' % (ctx, lab, e.get('expected_required'), e.get('actual'), pol[fld], peer[acc]))
                if isinstance(lab, str) and lab.startswith('Host key (') and peer is not None:
                    t = lab[len('Host key ('):lab.index(')')]
                    if e.get('expected_required') != [str(pol['_hostkey_sizes'][t]['hostkey_size'])] or e.get('actual') != [str(peer['host_keys'][t]['hostkey_size'])]:
                        bad['errors'].append('%s: the %r error reports expected=%r actual=%r' % (ctx, lab, e.get('expected_required'), e.get('actual')))
                if isinstance(lab, str) and lab.startswith('Group exchange (') and peer is not None:
                    t = lab[len('Group exchange ('):lab.index(')')]
                    if e.get('expected_required') != [str(pol['_dh_modulus_sizes'][t])] or e.get('actual') != [str(peer['dh_modulus_sizes'][t])]:
                        bad['errors'].append('%s: the %r error reports expected=%r actual=%r' % (ctx, lab, e.get('expected_required'), e.get('actual')))
                if lab == 'Banner' and (e.get('expected_required') != [pol['_banner']] or e.get('actual') != [banner]):
                    bad['errors'].append('%s: the Banner error reports expected=%r actual=%r' % (ctx, e.get('expected_required'), e.get('actual')))
    # shrinking a passing peer's lists under subset mode / growing its keys under larger-keys mode never turns a pass into a fail (the strict-kex marker stays mandatory)
    for pdesc, pol in P.policies():
        for larger in (False, True):
            if verdicts.get((pdesc, 'the conforming peer', True, larger)):
                for fld, acc, label in P.LIST_FIELDS:
                    for how in ('last name removed', 'first name removed', 'empty'):
                        d = '%s: %s' % (label, how)
                        lost_marker = label == 'Key exchanges' and pol['_kex'] is not None and any(m in pol['_kex'] for m in P.STRICT) and how in ('last name removed', 'empty')
                        if verdicts.get((pdesc, d, True, larger)) is False and not lost_marker:
                            bad['monotone'].append('policy with %s: the conforming peer passes in subset mode, the same peer with %s fails' % (pdesc, d))
        for subset in (False, True):
            if verdicts.get((pdesc, 'the conforming peer', subset, True)):
                for d, v in [(k[1], v) for k, v in verdicts.items() if k[0] == pdesc and k[2] == subset and k[3] is True and (' size +' in k[1] or 'modulus +' in k[1])]:
                    if v is False:
                        bad['monotone'].append('policy with %s: the conforming peer passes in larger-keys mode, the same peer with %s fails' % (pdesc, d))
    rep.floor('table', 'policy decision rows interpreted', nrows, 1000)
    rep.check('table', 'verdict and reported fields equal the documented matching rules on all %d rows' % nrows, not bad['table'], pe, 'policy verdict differs from the documented rule -- %s [%d rows deviate]' % (bad['table'][0] if bad['table'] else '', len(bad['table'])),
              stmt='policy decision table', sample={'rule': 'table', 'rows': nrows})
    rep.check('pairing', 'the verdict is PASS exactly when no error was recorded, and the error list is returned (%d rows)' % nrows, not bad['pairing'], pe, 'verdict and error list disagree -- %s' % (bad['pairing'][0] if bad['pairing'] else ''), stmt='verdict / error pairing')
    rep.check('errors', 'every error record names its field once and carries expected (policy) and actual (peer) values, not crossed', not bad['errors'], pe, 'error record wrong -- %s' % (bad['errors'][0] if bad['errors'] else ''), stmt='error records')
    rep.check('lists', 'shrinking lists in subset mode / growing keys in larger-keys mode keeps a passing peer passing', not bad['monotone'], pe, 'relaxation is not monotone -- %s' % (bad['monotone'][0] if bad['monotone'] else ''), stmt='relaxation monotone')
    # a second evaluation on the same object reports the errors of both (the accumulator is never reset): decided by the fresh-instance rule below
    ge = repo.func('policy', 'Policy._get_errors')
    rep.saw(ge)
    # (the renderer may delegate to helpers of the class: the record keys must be read somewhere in Policy's rendering code)
    txt = unparse(ge) + ' '.join(unparse(f_) for f_ in repo.cls('policy', 'Policy').body if isinstance(f_, ast.FunctionDef) and f_.name not in ('evaluate', '_append_error', '__init__') and 'error' in f_.name.lower())
    for need in ("mismatched_field", "expected_required", "actual"):
        rep.check('errors', '_get_errors renders %s' % need, need in txt, ge, '_get_errors no longer renders %s' % need)

    # ---- rule 2: fresh instance ------------------------------------------------------------------------
    pol_cls = repo.cls('policy', 'Policy')
    for n in ast.walk(pol_cls):
        if isinstance(n, ast.Attribute) and n.attr == '_errors' and isinstance(n.ctx, (ast.Store, ast.Del)):
            f = n._func
            rep.check('fresh', 'accumulator only (re)bound in __init__: %s' % stmt_text(n._parent), f is not None and f.name == '__init__', n, 'self._errors is rebound outside __init__')
    cg = CallGraph(repo)
    callers = cg.callers(pe)
    rep.check('fresh', 'Policy.evaluate has exactly one caller (evaluate_policy)', [f._qualname for f, s, k in callers] == ['evaluate_policy'], pe, 'callers of Policy.evaluate: %s' % [f._qualname for f, s, k in callers])
    ep = repo.func('ssh_audit', 'evaluate_policy')
    c2 = cg.callers(ep)
    rep.check('fresh', 'evaluate_policy has exactly one caller (audit)', [f._qualname for f, s, k in c2] == ['audit'], ep, 'callers of evaluate_policy: %s' % [f._qualname for f, s, k in c2])
    for f, s, k in callers + c2:
        loops = [k2 for t, p, k2 in path_condition(s) if k2 in ('for', 'while')]
        rep.check('fresh', 'call %s is not inside a loop' % unparse(s)[:50], not loops, s, 'policy evaluated repeatedly on the same instance (errors accumulate)')
    tw = repo.func('ssh_audit', 'target_worker_thread')
    dc = [n for n in walk_no_nested(tw) if isinstance(n, ast.Assign) and isinstance(n.value, ast.Call) and unparse(n.value.func) == 'copy.deepcopy']
    ok = len(dc) == 1 and unparse(dc[0].value.args[0]) == 'shared_aconf'
    cfgvar = unparse(dc[0].targets[0]) if dc else None
    rep.check('fresh', 'worker deep-copies the shared configuration (and its Policy)', ok, tw, 'worker does not deep-copy the shared configuration')
    for n in walk_no_nested(tw):
        if isinstance(n, ast.Call) and call_name(n) == 'audit':
            rep.check('fresh', 'worker audits with its private copy', len(n.args) > 1 and unparse(n.args[1]) == cfgvar, n, 'worker passes %s to audit instead of its private copy' % (unparse(n.args[1]) if len(n.args) > 1 else '?'))

