"""C05 -- a policy made from a target passes on that target and fails on any drift (format agreement)."""
import ast
import re

from sa.core import AnalysisError, unparse, walk_no_nested, stmt_text, call_name, bind_args, attr_chain, func_id
from sa.logic import path_condition, excludes
from sa.consteval import ConstEnv

EXPL = ('Decides the policy file round trip by abstract interpretation (sa/listinterp.py, props/_policy.py): (1) Policy.create is interpreted on a peer -> the policy text; the constructor is interpreted on that text -> the policy state; '
        'the state must hold exactly what the peer presented (lists in order, size maps with CA fields, both relaxation flags off, nothing else constrained) for peers with certificates and group exchange, with names containing "=", "+", "/", "@" and upper case, '
        'without probed keys, and for a client; the policy must load without error and pass on that very peer; (2) Policy.evaluate is interpreted on THAT loaded state against 40+ single-attribute perturbations of the peer -- names added / removed / reordered in each list, '
        'every host-key and CA size up and down, CA type changed, every group-exchange modulus up and down -- and must fail naming the field; (3) the size-map normaliser only adds missing defaults; the CA type / size of a presented certificate is captured (KexDH.recv_reply interpreted per blob layout); '
        '(4) on every path of a server audit both probes (host keys, group exchange) run before a policy is written or evaluated (must-pass-through on the CFG of audit()); (5) every built-in policy is satisfiable by a peer configured exactly as listed; a role mismatch makes the program '
        'exit before connecting. Decided for the enumerated peer families, not for all peers; not decided: byte-level round trip of names outside the RFC 4251 alphabet.')

def run(repo, rep, tier):
    rep.explanation = EXPL
    ce = ConstEnv(repo)
    cr = repo.func('policy', 'Policy.create')
    init = repo.func('policy', 'Policy.__init__')
    ev_ = repo.func('policy', 'Policy.evaluate')
    rep.saw(cr), rep.saw(init), rep.saw(ev_)

    # ---- rule 1: the policy file, by interpretation (props/_policy.create / load) --------------------------------------------------------
    # Policy.create is interpreted on a peer -> the text of the policy file; the constructor is interpreted on that text -> the policy state.  The state must
    # hold exactly what the peer presented (lists in order, size maps with CA fields, relaxation flags off, nothing else constrained), whatever the names look
    # like ('=', '+', '/', '@' occur in real names: every gss-...== key exchange).  The drift table below evaluates THAT state, so the writer, the line parser,
    # the key dispatch, the list / JSON codecs and the normaliser are decided together, by what they compute.
    from props import _policy
    pconsts = _policy.class_consts(repo, ce)
    RT_PEERS = [
        ('an OpenSSH-like server with certificates and group exchange', {
            'key_algorithms': ['rsa-sha2-512', 'rsa-sha2-256', 'ssh-rsa', 'rsa-sha2-512-cert-v01@openssh.com', 'ssh-ed25519', 'ssh-ed25519-cert-v01@openssh.com'],
            'kex_algorithms': ['curve25519-sha256', 'diffie-hellman-group-exchange-sha256', 'diffie-hellman-group-exchange-sha1', 'kex-strict-s-v00@openssh.com'],
            'encryption': ['chacha20-poly1305@openssh.com', 'aes256-gcm@openssh.com', 'aes128-ctr'], 'mac': ['hmac-sha2-256-etm@openssh.com', 'umac-128-etm@openssh.com'], 'compression': ['none', 'zlib@openssh.com'],
            'host_keys': {'rsa-sha2-512': {'hostkey_size': 3072, 'ca_key_type': '', 'ca_key_size': 0}, 'rsa-sha2-256': {'hostkey_size': 3072, 'ca_key_type': '', 'ca_key_size': 0}, 'ssh-rsa': {'hostkey_size': 3072, 'ca_key_type': '', 'ca_key_size': 0},
                          'rsa-sha2-512-cert-v01@openssh.com': {'hostkey_size': 4096, 'ca_key_type': 'ssh-ed25519', 'ca_key_size': 256}, 'ssh-ed25519': {'hostkey_size': 256, 'ca_key_type': '', 'ca_key_size': 0},
                          'ssh-ed25519-cert-v01@openssh.com': {'hostkey_size': 256, 'ca_key_type': 'ssh-rsa', 'ca_key_size': 4096}},
            'dh_modulus_sizes': {'diffie-hellman-group-exchange-sha256': 3072, 'diffie-hellman-group-exchange-sha1': 2048}}, False),
        ('names with =, +, / and @ (GSS key exchanges, base64 suffixes)', {
            'key_algorithms': ['ssh-ed25519', 'x509v3-sign-rsa'], 'kex_algorithms': ['gss-gex-sha1-vz8J1E9PzLr8b1K+0remTg==', 'gss-group14-sha256-toWM5Slw5Ew8Mqkay+al2g==', 'gss-curve25519-sha256-a/b+c==', 'curve25519-sha256@libssh.org'],
            'encryption': ['AEAD_AES_256_GCM', 'aes256-ctr'], 'mac': ['hmac-sha2-512', 'Umac-64@Openssh.com'], 'compression': ['none'],
            'host_keys': {'ssh-ed25519': {'hostkey_size': 256, 'ca_key_type': '', 'ca_key_size': 0}}, 'dh_modulus_sizes': {'gss-gex-sha1-vz8J1E9PzLr8b1K+0remTg==': 2048}}, False),
        ('a peer without probed keys or group exchange (one name per list)', {
            'key_algorithms': ['ssh-ed25519'], 'kex_algorithms': ['curve25519-sha256'], 'encryption': ['aes256-ctr'], 'mac': ['hmac-sha2-256'], 'compression': ['none'], 'host_keys': {}, 'dh_modulus_sizes': {}}, False),
        ('a client', {
            'key_algorithms': ['ssh-ed25519', 'rsa-sha2-512'], 'kex_algorithms': ['curve25519-sha256', 'ext-info-c', 'kex-strict-c-v00@openssh.com'], 'encryption': ['aes256-ctr', 'aes128-ctr'], 'mac': ['hmac-sha2-256'], 'compression': ['none', 'zlib'],
            'host_keys': {}, 'dh_modulus_sizes': {}}, True),
        ('a peer that repeats a name within a list (the policy lists what was advertised, repeats included)', {
            'key_algorithms': ['ssh-ed25519', 'rsa-sha2-512', 'ssh-ed25519'], 'kex_algorithms': ['curve25519-sha256', 'curve25519-sha256@libssh.org', 'curve25519-sha256'], 'encryption': ['aes256-ctr', 'aes256-ctr'],
            'mac': ['hmac-sha2-512', 'hmac-sha2-256', 'hmac-sha2-256'], 'compression': ['none'], 'host_keys': {'ssh-ed25519': {'hostkey_size': 256, 'ca_key_type': '', 'ca_key_size': 0}}, 'dh_modulus_sizes': {}}, False),
    ]
    loaded = {}
    for desc, peer_, client_ in RT_PEERS:
        text = _policy.create(repo, pconsts, peer_, client_audit=client_)
        rep.evals()
        if not isinstance(text, str):
            rep.check('roundtrip', 'Policy.create writes a policy for %s' % desc, False, cr, 'Policy.create fails on %s: %s' % (desc, text[1]), stmt='create: %s' % desc)
            continue
        st_ = _policy.load(repo, pconsts, text)
        rep.evals()
        if not isinstance(st_, dict):
            culprit = next((n_ for k_ in ('kex_algorithms', 'key_algorithms', 'encryption', 'mac') for n_ in peer_[k_] if '=' in n_), None)
            rep.check('roundtrip', 'the policy written for %s loads without error' % desc, False, init,
                      'the policy Policy.create writes for %s does not load: %s%s' % (desc, st_[1], (' (the peer offers %r)' % culprit) if culprit else ''), stmt='load: %s' % desc)
            continue
        rep.ob('roundtrip', 'the policy written for %s loads without error' % desc, True)
        want_state = {'_host_keys': peer_['key_algorithms'], '_kex': peer_['kex_algorithms'], '_ciphers': peer_['encryption'], '_macs': peer_['mac'], '_banner': None, '_compressions': None, '_optional_host_keys': None,
                      '_allow_algorithm_subset_and_reordering': False, '_allow_larger_keys': False, '_server_policy': not client_,
                      '_dh_modulus_sizes': dict(peer_['dh_modulus_sizes']) or None}
        from sa.abseval import Opaque as _OpaqueRT
        opaque_ = sorted(k_ for k_ in want_state if isinstance(st_.get(k_), _OpaqueRT) or (isinstance(st_.get(k_), (list, tuple)) and any(isinstance(x_, _OpaqueRT) for x_ in st_.get(k_))))
        if opaque_:     # an uncomputable loader step is "cannot decide", never a violation
            raise AnalysisError('Policy.__init__: the loaded value of %s is computed by a construct the interpreter does not model (policy made from %s)' % (', '.join(opaque_), desc))
        diffs = ['%s is %r, the peer presented %r' % (k_, st_.get(k_), v_) for k_, v_ in want_state.items() if st_.get(k_) != v_]
        hs = st_.get('_hostkey_sizes')
        if peer_['host_keys']:
            for t_, ent in peer_['host_keys'].items():
                got_e = (hs or {}).get(t_)
                if not isinstance(got_e, dict) or any(got_e.get(f_) != ent[f_] for f_ in ('hostkey_size', 'ca_key_type', 'ca_key_size')):
                    diffs.append('_hostkey_sizes[%r] is %r, the peer presented %r' % (t_, got_e, ent))
            if isinstance(hs, dict) and set(hs) != set(peer_['host_keys']):
                diffs.append('_hostkey_sizes covers %s, the peer presented %s' % (sorted(hs), sorted(peer_['host_keys'])))
        elif hs:
            diffs.append('_hostkey_sizes is %r for a peer without probed keys' % (hs,))
        rep.check('roundtrip', 'the loaded policy holds exactly what %s presented (lists in order, size maps, flags off)' % desc, not diffs, init,
                  'the policy made from %s does not say what the peer presented: %s' % (desc, '; '.join(diffs[:3])), stmt='state: %s' % desc, sample={'rule': 'roundtrip', 'peer': desc})
        loaded[desc] = (peer_, st_)
        # and it passes on that very peer
        if not diffs:
            res_ = _policy.run(repo, pconsts, {k_: st_[k_] for k_ in _policy.POLICY}, peer_, subset=False, larger=False)
            if len(res_) != 1 or res_[0][3]:
                raise AnalysisError('Policy.evaluate: the verdict for the peer the policy was made from depends on a condition the analysis does not model: %s' % [f_ for v_, e_, r__, f_ in res_][:2])
            for verdict, errs, r_, forks in res_:
                rep.evals()
                rep.check('roundtrip', 'the policy made from %s passes on that peer with no errors' % desc, verdict is True and not errs, ev_,
                          'the policy made from %s FAILS on that very peer (verdict %s, errors %s)' % (desc, verdict, [e_.get('mismatched_field') for e_ in errs]), stmt='same peer: %s' % desc)
    rep.floor('roundtrip', 'peers written and re-loaded', len(RT_PEERS), 5)

    # ---- normalisation after loading only ADDS the fields create() trimmed; it never overwrites what the policy specifies ----
    nz = repo.func('policy', 'Policy._normalize_hostkey_sizes')
    rep.saw(nz)
    # semantic: the normaliser is interpreted (sa/listinterp.py) on a size map with one complete certificate entry and one bare
    # entry: the complete entry must keep its own values, the bare one must gain the three defaults, None stays None
    import copy as _copy0
    from sa.listinterp import Interp as _Interp0
    from sa.abseval import Unknown as _Unknown0, Opaque as _Opaque0
    sample = {'ssh-ed25519-cert-v01@openssh.com': {'hostkey_size': 256, 'ca_key_type': 'ssh-rsa', 'ca_key_size': 4096, 'raw_hostkey_bytes': b'k'}, 'rsa-sha2-512': {'hostkey_size': 3072}}
    want = {'ssh-ed25519-cert-v01@openssh.com': dict(sample['ssh-ed25519-cert-v01@openssh.com']), 'rsa-sha2-512': {'hostkey_size': 3072, 'ca_key_type': '', 'ca_key_size': 0, 'raw_hostkey_bytes': b''}}
    consts = {}
    pcls = repo.cls('policy', 'Policy')
    for st in pcls.body:
        tv = (st.targets[0], st.value) if isinstance(st, ast.Assign) and len(st.targets) == 1 else ((st.target, st.value) if isinstance(st, ast.AnnAssign) and st.value is not None else None)
        if tv and isinstance(tv[0], ast.Name):
            try:
                val = ce.eval_in(tv[1], 'policy', 'Policy')
            except Exception:
                continue
            for pre in ('Policy.', 'self.', 'cls.'):
                consts[pre + tv[0].id] = val
    for label, start, expect in (('entries', sample, want), ('no size map', None, None)):
        env = dict(_copy0.deepcopy(consts))
        env.update({'self._hostkey_sizes': _copy0.deepcopy(start), 'self': _Opaque0()})
        try:
            finals = _Interp0().run(nz.body, env)
        except _Unknown0 as ex:
            raise AnalysisError('Policy._normalize_hostkey_sizes cannot be interpreted: %s' % ex)
        for fe in finals:
            rep.evals()
            if fe.get('<forks>'):
                raise AnalysisError('Policy._normalize_hostkey_sizes depends on a condition the analysis does not model: %s' % fe['<forks>'][:2])
            got = fe.get('self._hostkey_sizes')
            if isinstance(got, _Opaque0):
                raise AnalysisError('Policy._normalize_hostkey_sizes: the resulting size map is not computable by the interpreter')
            problem = None
            if expect is None:
                if got is not None:
                    problem = 'a policy without host_key_sizes gets one (%r)' % (got,)
            elif not isinstance(got, dict):
                problem = 'the size map becomes %r' % (got,)
            else:
                for k, ent in expect.items():
                    for fld, v in ent.items():
                        gv = got.get(k, {}).get(fld, '<missing>') if isinstance(got.get(k), dict) else '<missing entry>'
                        if gv != v and problem is None:
                            own = fld in sample[k]
                            problem = ('normalisation replaces the %r the policy specifies for %s (%r) by %r: CA type/size drift is then silently accepted' % (fld, k, v, gv)) if own else \
                                ('normalisation leaves %s without the default %r (%r), evaluate() would raise or skip' % (k, fld, gv))
                if problem is None and set(got) != set(expect):
                    problem = 'normalisation changes the set of host-key types: %s' % sorted(got)
            rep.check('normalise', 'size-map normalisation keeps the policy\'s own values and only adds missing defaults (%s)' % label, problem is None, nz, problem or '', stmt='normalise %s' % label,
                      sample={'rule': 'normalise', 'case': label})
    for fq, must in (('Policy.__init__', 'self._normalize_hostkey_sizes()'), ('Policy.load_builtin_policy', 'p._normalize_hostkey_sizes()')):
        rep.check('normalise', '%s normalises the size map after loading' % fq, must in unparse(repo.func('policy', fq)), repo.func('policy', fq), '%s no longer normalises the loaded size map' % fq)
    # ---- rule 3b: drift table by abstract interpretation ------------------------------------------------------------------------
    # Policy.evaluate is interpreted (sa/listinterp.py) on a representative policy state (the fields the loader fills, as
    # established by the triangle rule; both relaxation flags false as the template fixes them) against the peer it was made
    # from -- every path must return True with no error appended -- and against that peer with exactly one covered attribute
    # perturbed -- every path must return False and append an error whose label names the field.
    import copy as _copy
    from sa.listinterp import Interp
    from sa.abseval import Opaque, Unknown
    base_peer = {
        'kex.key_algorithms': ['rsa-sha2-512', 'rsa-sha2-256', 'ssh-rsa', 'rsa-sha2-512-cert-v01@openssh.com', 'ssh-ed25519', 'ssh-ed25519-cert-v01@openssh.com'],
        'kex.kex_algorithms': ['curve25519-sha256', 'diffie-hellman-group-exchange-sha256', 'diffie-hellman-group-exchange-sha1', 'kex-strict-s-v00@openssh.com'],
        'kex.server.encryption': ['chacha20-poly1305@openssh.com', 'aes256-gcm@openssh.com', 'aes128-ctr'],
        'kex.server.mac': ['hmac-sha2-256-etm@openssh.com', 'umac-128-etm@openssh.com'],
        'kex.server.compression': ['none', 'zlib@openssh.com'],
        'kex.host_keys()': {
            'rsa-sha2-512': {'hostkey_size': 3072, 'ca_key_type': '', 'ca_key_size': 0},
            'rsa-sha2-256': {'hostkey_size': 3072, 'ca_key_type': '', 'ca_key_size': 0},
            'ssh-rsa': {'hostkey_size': 3072, 'ca_key_type': '', 'ca_key_size': 0},
            'rsa-sha2-512-cert-v01@openssh.com': {'hostkey_size': 4096, 'ca_key_type': 'ssh-ed25519', 'ca_key_size': 256},
            'ssh-ed25519': {'hostkey_size': 256, 'ca_key_type': '', 'ca_key_size': 0},
            'ssh-ed25519-cert-v01@openssh.com': {'hostkey_size': 256, 'ca_key_type': 'ssh-rsa', 'ca_key_size': 4096},
        },
        'kex.dh_modulus_sizes()': {'diffie-hellman-group-exchange-sha256': 3072, 'diffie-hellman-group-exchange-sha1': 2048},
    }
    FIELD_OF = {'kex.key_algorithms': '_host_keys', 'kex.kex_algorithms': '_kex', 'kex.server.encryption': '_ciphers', 'kex.server.mac': '_macs', 'kex.server.compression': '_compressions',
                'kex.host_keys()': '_hostkey_sizes', 'kex.dh_modulus_sizes()': '_dh_modulus_sizes'}
    LABEL_OF = {'kex.key_algorithms': 'Host keys', 'kex.kex_algorithms': 'Key exchanges', 'kex.server.encryption': 'Ciphers', 'kex.server.mac': 'MACs', 'kex.server.compression': 'Compression'}

    first = RT_PEERS[0][0]
    if first in loaded:
        loaded_state = loaded[first][1]
    else:
        # (reported above: the reference policy could not be written and re-loaded) -- the drift table then uses the state the peer implies
        loaded_state = {FIELD_OF[k]: _copy.deepcopy(v) for k, v in base_peer.items()}
        loaded_state.update({'_banner': None, '_optional_host_keys': None, '_compressions': None, '_allow_algorithm_subset_and_reordering': False, '_allow_larger_keys': False})

    def policy_env(peer):
        # the policy state is the one the constructor produced from the text Policy.create wrote for the reference peer (rule 1)
        e = {'self.' + k: _copy.deepcopy(v) for k, v in loaded_state.items()}
        e.update({'banner': 'SSH-2.0-OpenSSH_9.9', 'kex': Opaque(), 'kex.server': Opaque(), 'self': Opaque(), 'self._errors': []})
        e.update(pconsts)
        e.update(_copy.deepcopy(peer))
        return e
    scenarios = [('the peer the policy was made from', dict(base_peer), None)]
    for acc, lab in LABEL_OF.items():
        if acc == 'kex.server.compression':
            continue            # commented out in the generated policy; not a covered attribute
        lst = base_peer[acc]
        scenarios.append(('%s: last name removed' % lab, dict(base_peer, **{acc: lst[:-1]}), lab))
        scenarios.append(('%s: first name removed' % lab, dict(base_peer, **{acc: lst[1:]}), lab))
        scenarios.append(('%s: a name added' % lab, dict(base_peer, **{acc: lst + ['added-name@example.com']}), lab))
        scenarios.append(('%s: a name inserted in front' % lab, dict(base_peer, **{acc: ['added-name@example.com'] + lst}), lab))
        scenarios.append(('%s: two names swapped' % lab, dict(base_peer, **{acc: [lst[1], lst[0]] + lst[2:]}), lab))
    for hk, ent in base_peer['kex.host_keys()'].items():
        for delta in (1024, -128):
            d = _copy.deepcopy(base_peer['kex.host_keys()'])
            d[hk]['hostkey_size'] = ent['hostkey_size'] + delta
            scenarios.append(('host key %s size %+d' % (hk, delta), dict(base_peer, **{'kex.host_keys()': d}), 'Host key (%s) sizes' % hk))
        if ent['ca_key_type']:
            for delta in (1024, -128):
                d = _copy.deepcopy(base_peer['kex.host_keys()'])
                d[hk]['ca_key_size'] = ent['ca_key_size'] + delta
                scenarios.append(('CA key size of %s %+d' % (hk, delta), dict(base_peer, **{'kex.host_keys()': d}), 'CA signature size'))
            d = _copy.deepcopy(base_peer['kex.host_keys()'])
            d[hk]['ca_key_type'] = 'ecdsa-sha2-nistp256'
            scenarios.append(('CA key type of %s changed' % hk, dict(base_peer, **{'kex.host_keys()': d}), 'CA signature type'))
    for gx, sz in base_peer['kex.dh_modulus_sizes()'].items():
        for delta in (1024, -1024):
            d = dict(base_peer['kex.dh_modulus_sizes()'])
            d[gx] = sz + delta
            scenarios.append(('group-exchange modulus of %s %+d' % (gx, delta), dict(base_peer, **{'kex.dh_modulus_sizes()': d}), 'Group exchange (%s) modulus sizes' % gx))
    rep.floor('drift', 'drift scenarios', len(scenarios), 40)

    def policy_helper(call):
        # self.<helper>(...) of the Policy class itself (the error recorder included, not the error renderer) is interpreted in place: the errors a path
        # records are read from self._errors afterwards, so `ret = False` flags and `len(self._errors) == before` verdicts are treated alike
        if isinstance(call.func, ast.Attribute) and isinstance(call.func.value, ast.Name) and call.func.value.id in ('self', 'Policy', 'cls') and call.func.attr not in ('_get_errors',) \
                and repo.has_func('policy', 'Policy.' + call.func.attr):
            return repo.func('policy', 'Policy.' + call.func.attr)
        return None

    def hook_pol(call, e, interp):
        if unparse(call.func) == 'self._get_errors':
            return (True, (Opaque(), Opaque()))
        return None
    npaths = 0
    for desc, peer, want_label in scenarios:
        it = Interp(call_hook=hook_pol, resolver=policy_helper)
        try:
            finals = it.run(ev_.body, policy_env(peer))
        except Unknown as ex:
            raise AnalysisError('Policy.evaluate cannot be interpreted for scenario %r: %s' % (desc, ex))
        problem = None
        verdicts = {fe['<return>'][0] for fe in finals if isinstance(fe.get('<return>'), tuple) and isinstance(fe['<return>'][0], bool)}
        if len(verdicts) > 1:
            forks = sorted({t for fe in finals for t in fe.get('<forks>', [])})
            raise AnalysisError('Policy.evaluate: for scenario %r the verdict depends on a condition the analysis does not model: %s' % (desc, forks[:3]))
        for fe in finals:
            npaths += 1
            rep.evals()
            r = fe.get('<return>')
            if fe.get('<outcome>') != 'return' or not isinstance(r, tuple) or not isinstance(r[0], bool):
                raise AnalysisError('Policy.evaluate: verdict not computable for scenario %r (forks: %s)' % (desc, fe.get('<forks>')))
            errs = fe.get('self._errors')
            if not isinstance(errs, list):
                raise AnalysisError('Policy.evaluate: the recorded errors are not computable for scenario %r' % desc)
            labels = [str(d.get('mismatched_field')) if isinstance(d, dict) else str(d) for d in errs]
            if want_label is None:
                if r[0] is not True or errs:
                    problem = 'the policy made from a target FAILS on that very target (verdict %s, errors %s)' % (r[0], labels)
            else:
                if r[0] is not False:
                    problem = 'drift goes unnoticed: %s -- evaluate() still returns True' % desc
                elif not any(l.startswith(want_label) for l in labels):
                    problem = 'drift (%s) fails the policy but no error names the field %r (errors: %s)' % (desc, want_label, labels)
        rep.check('drift', 'exact-mode verdict for: %s' % desc, problem is None, ev_, problem or '', stmt='drift scenario: %s' % (desc.split(':')[0] if want_label in LABEL_OF.values() else re.sub(r' [+-]\d+$', '', desc)),
                  sample={'rule': 'drift', 'scenario': desc, 'paths': len(finals)} if want_label is None else None)
    rep.samples.append({'rule': 'drift', 'scenarios': len(scenarios), 'paths': npaths})

    # ---- the group-exchange modulus a policy pins for each method is the one measured for THAT method (shared with C12: props/_gexmodel.py) -------------
    from props import _gexmodel
    _ng, _badg = _gexmodel.both_methods_problems(repo, rep)
    rep.check('modulus-capture', 'each group-exchange method is measured by its own probes (%d servers handing out a different group per method)' % _ng, not _badg, repo.func('gextest', 'GEXTest.run'),
              'the modulus size a policy records for one group-exchange method is not the one measured for it -- %s: %s -- so a peer that differs in that size passes the policy' % (_badg[0] if _badg else ('', '')),
              stmt='modulus size per group-exchange method')
    # ---- rule 3c: the CA type / size a generated policy carries are the ones of the presented certificate ---------------------------------
    # (Policy.create trims CA fields that are empty; a certificate whose CA is not parsed yields a policy without them, and CA drift then passes.)
    # Shared with C11: recv_reply's walk over the host key blob interpreted per layout (props/_hostkey_rating.blob_layout_problems).
    from props import _hostkey_rating
    _rr2, _ncases, _probs = _hostkey_rating.blob_layout_problems(repo)
    rep.saw(_rr2)
    for _kt, _msg in _probs:
        if '-cert-' in _kt:
            rep.check('ca-capture', 'CA of %s certificates is captured for the policy' % _kt, False, _rr2,
                      'a policy made from a peer with a %s host certificate does not pin its CA: %s -- a different CA key type or size then passes the policy' % (_kt, _msg), stmt='CA capture %s' % _kt)
    if not [1 for k, m in _probs if '-cert-' in k]:
        rep.ob('ca-capture', 'certificate layouts: CA parser entered at the serial number and its result stored (%d layouts)' % _ncases, True)

    # ---- rule 4: built-in policy data ----------------------------------------------------------------------------------------------
    pol = ce.lookup('builtin_policies', 'BUILTIN_POLICIES')
    pnode = repo.mod('builtin_policies').tree.body[-1]
    for pname, p in pol.items():
        hk, opt = p.get('host_keys') or [], p.get('optional_host_keys') or []
        ok = not (set(hk) & set(opt)) and set(p.get('hostkey_sizes') or {}) <= set(hk) | set(opt) and set(p.get('dh_modulus_sizes') or {}) <= set(p.get('kex') or [])
        rep.check('builtin', 'built-in policy %s is satisfiable by a peer configured exactly as listed' % pname, ok, pnode, 'built-in policy %r: required/optional host keys overlap or a size map names an unlisted algorithm' % pname, stmt='policy %s' % pname, func='builtin_policies:BUILTIN_POLICIES')
        for fld in ('host_keys', 'kex', 'ciphers', 'macs'):
            lst = p.get(fld) or []
            rep.check('builtin', '%s %s has no duplicate (an exact match with a real peer list stays possible)' % (pname, fld), len(lst) == len(set(lst)), pnode, 'duplicate in %s of %r' % (fld, pname), stmt='policy %s %s' % (pname, fld), func='builtin_policies:BUILTIN_POLICIES')
    lb = repo.func('policy', 'Policy.load_builtin_policy')
    rep.saw(lb)
    maps = {unparse(n.targets[0]): unparse(n.value) for n in walk_no_nested(lb) if isinstance(n, ast.Assign) and unparse(n.targets[0]).startswith('p._')}
    for field, key in (('_host_keys', 'host_keys'), ('_optional_host_keys', 'optional_host_keys'), ('_kex', 'kex'), ('_ciphers', 'ciphers'), ('_macs', 'macs'), ('_hostkey_sizes', 'hostkey_sizes'), ('_dh_modulus_sizes', 'dh_modulus_sizes'), ('_compressions', 'compressions'), ('_banner', 'banner')):
        v = maps.get('p.' + field, '')
        rep.check('builtin', 'load_builtin_policy fills %s from %r' % (field, key), "policy_struct['%s']" % key in v, lb, 'p.%s filled from %s' % (field, v))

    # ---- rule 5: CLI wiring -----------------------------------------------------------------------------------------------------------
    au = repo.func('ssh_audit', 'audit')
    mp = repo.func('ssh_audit', 'make_policy')
    ep = repo.func('ssh_audit', 'evaluate_policy')
    kexdef = [n for n in walk_no_nested(au) if isinstance(n, ast.Assign) and unparse(n.targets[0]) == 'kex' and isinstance(n.value, ast.Call) and unparse(n.value.func) == 'SSH2_Kex.parse']
    rep.check('wiring', 'the scan\'s KEXINIT object is parsed once in audit()', len(kexdef) == 1, au, 'kex definition changed')
    mc = [n for n in walk_no_nested(au) if isinstance(n, ast.Call) and call_name(n) == 'make_policy']
    ok = len(mc) == 1 and unparse(bind_args(mc[0], mp).get('kex')) == 'kex' and unparse(bind_args(mc[0], mp).get('banner')) == 'banner'
    rep.check('wiring', '-M passes the scanned banner and KEXINIT to make_policy', ok, mc[0] if mc else au, 'make_policy call changed')
    pc = [n for n in walk_no_nested(mp) if isinstance(n, ast.Call) and unparse(n.func) == 'Policy.create']
    ok = len(pc) == 1 and [unparse(a) for a in pc[0].args] == ['source', 'banner', 'kex', 'aconf.client_audit']
    rep.check('wiring', 'make_policy calls Policy.create(source, banner, kex, role)', ok, pc[0] if pc else mp, 'Policy.create call changed')
    ec = [n for n in walk_no_nested(au) if isinstance(n, ast.Call) and call_name(n) == 'evaluate_policy']
    ok = len(ec) == 1 and unparse(bind_args(ec[0], ep).get('kex')) == 'kex' and unparse(bind_args(ec[0], ep).get('banner')) == 'banner'
    rep.check('wiring', '-P evaluates the policy against the same banner and KEXINIT', ok, ec[0] if ec else au, 'evaluate_policy call changed')
    pe = [n for n in walk_no_nested(ep) if isinstance(n, ast.Call) and unparse(n.func) == 'aconf.policy.evaluate']
    rep.check('wiring', 'evaluate_policy forwards them to Policy.evaluate', len(pe) == 1 and [unparse(a) for a in pe[0].args] == ['banner', 'kex'], pe[0] if pe else ep, 'Policy.evaluate call changed')
    # the measurements a policy covers (host-key / CA sizes: HostKeyTest.run; group-exchange modulus sizes: GEXTest.run) are taken before the policy is
    # written or evaluated, on every path of a server audit: a must-pass-through rule on audit()'s CFG.  Branches that are taken only by a client audit
    # (nothing to probe) are not followed; paths through the explicit-test modes return before they reach the policy code.
    from sa.cfg import CFG as _CFG5, describe_path as _dp5
    from sa.logic import implied_atoms as _ia5
    acfg = _CFG5(au, exc_edges=False)
    client_only = []
    for n in acfg.nodes:
        if n.kind == 'branch' and isinstance(n.stmt, (ast.If, ast.While)):
            for atom, truth in _ia5([(n.stmt.test, n.label == 'T', 'if')]):
                ta = unparse(atom)
                if (ta in ('aconf.client_audit', 'aconf.client_audit is True') and truth) or (ta in ('aconf.client_audit is False', 'not aconf.client_audit') and not truth):
                    client_only.append(n)
    rep.floor('wiring', 'client-audit branches in audit()', len(client_only), 1)
    for probe in ('HostKeyTest.run', 'GEXTest.run'):
        gates = acfg.stmts_matching(lambda st, probe=probe: not isinstance(st, (ast.If, ast.While, ast.For, ast.Try, ast.With)) and any(isinstance(x, ast.Call) and call_name(x) == probe for x in ast.walk(st)))
        rep.floor('wiring', '%s call sites in audit()' % probe, len(gates), 1)
        for user, what in (('evaluate_policy', 'a policy is evaluated (-P)'), ('make_policy', 'a policy is written (-M)')):
            targets = acfg.stmts_matching(lambda st, user=user: not isinstance(st, (ast.If, ast.While, ast.For, ast.Try, ast.With)) and any(isinstance(x, ast.Call) and call_name(x) == user for x in ast.walk(st)))
            rep.floor('wiring', '%s call sites in audit()' % user, len(targets), 1)
            pth = acfg.find_path([acfg.entry], targets, avoid=list(gates) + client_only)
            rep.check('wiring', 'in a server audit %s runs on every path before %s' % (probe, what), pth is None, targets[0].stmt,
                      'a server audit can reach %s() without %s: the %s the policy covers are not measured, so %s' % (
                          user, probe, 'group-exchange modulus sizes' if probe == 'GEXTest.run' else 'host-key and CA key sizes',
                          'a peer that differs only in that size passes the policy' if user == 'evaluate_policy' else 'the written policy does not pin them'),
                      witness=_dp5(pth) if pth else None, stmt='%s before %s' % (probe, user))
    pcl = repo.func('ssh_audit', 'process_commandline')
    t = unparse(pcl)
    rep.check('wiring', 'client/server policy mismatch is rejected at the command line', 'aconf.client_audit and aconf.policy.is_server_policy()' in t and 'aconf.client_audit is False and aconf.policy.is_server_policy() is False' in t, pcl, 'role mismatch checks changed')
    # written file = policy_data
    wr = [n for n in walk_no_nested(mp) if isinstance(n, ast.Call) and unparse(n.func) == 'f.write']
    rep.check('wiring', 'the file written is exactly Policy.create\'s text', len(wr) == 1 and unparse(wr[0].args[0]) == 'policy_data', wr[0] if wr else mp, 'policy file contents changed')
    # (client role marker: decided by the round trip above -- the policy written for a client loads as a client policy)
