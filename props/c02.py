"""C02 -- exit status reflects the worst finding; incomplete audits never look clean."""
import ast

from sa.core import AnalysisError, unparse, walk_no_nested, bind_args, param_default, stmt_text, call_name
from sa.consteval import ConstEnv
from sa.cfg import CFG, describe_path
from sa.abseval import ev, Unknown
from sa.slicer import Slice, uses
from sa.callgraph import Symbols

EXPL = ('Decides, from the source: (1) the severity fold in output_algorithm is max over GOOD<WARNING<FAILURE -- the statements that '
        'assign the status are abstractly interpreted for all 3x3 (state, level) pairs; (2) the status variable is initialised to GOOD once, '
        'threaded through every output_algorithms/output_algorithm call and returned unchanged; (3) its backward slice has no dependence on '
        'output options; (4) on the CFG of audit(), every return reachable without a successful parse of the peer\'s algorithm message '
        'returns CONNECTION_ERROR (or the SSH-1 retry) and cannot reach a call that renders algorithms or evaluates a policy; (5) the policy '
        'verdict maps to GOOD/FAILURE through evaluate_policy; (6) the wrappers pass main()\'s value to sys.exit. Not decided: that the printed tags coincide with the folded levels beyond sharing the loop variable.')

FORBIDDEN_PREFIXES = ('out.', 'aconf.json', 'aconf.level', 'aconf.batch', 'aconf.verbose', 'aconf.colors')
FORBIDDEN_NAMES = ('is_json_output', 'alg_max_len', 'maxlen', 'padding', 'padlen')


def returned_name(func):
    names = set()
    for n in walk_no_nested(func):
        if isinstance(n, ast.Return) and n.value is not None:
            if isinstance(n.value, ast.Name):
                names.add(n.value.id)
            else:
                names.add(None)
    return names


def fold_step(rep, body, env, var):
    """Abstractly interpret a statement list, tracking only `var`.  Guards are evaluated concretely on env."""
    for st in body:
        if isinstance(st, ast.If):
            try:
                c = ev(st.test, env)
            except Unknown:
                # guard does not involve the status or level: it may not contain an assignment to var
                for n in ast.walk(st):
                    if isinstance(n, (ast.Assign, ast.AugAssign)) and var in [unparse(t) for t in getattr(n, 'targets', [getattr(n, 'target', None)]) if t is not None]:
                        raise AnalysisError('status assignment under a guard the fold evaluator cannot decide: %s' % stmt_text(st))
                continue
            rep.evals()
            fold_step(rep, st.body if c else st.orelse, env, var)
        elif isinstance(st, ast.Assign) and any(unparse(t) == var for t in st.targets):
            try:
                env[var] = ev(st.value, env)
            except Unknown as e:
                raise AnalysisError('status assigned from an expression the fold evaluator cannot interpret: %s' % stmt_text(st))
        elif isinstance(st, (ast.For, ast.While, ast.With, ast.Try)):
            for n in ast.walk(st):
                if isinstance(n, ast.Assign) and any(unparse(t) == var for t in n.targets):
                    raise AnalysisError('status assigned inside a nested compound statement: %s' % stmt_text(st))
        elif isinstance(st, ast.AugAssign) and unparse(st.target) == var:
            raise AnalysisError('augmented assignment to the status: %s' % stmt_text(st))


def run(repo, rep, tier):
    rep.explanation = EXPL
    ce = ConstEnv(repo)
    sym = Symbols(repo)
    codes = {k: ce.lookup('exitcodes', k) for k in ('GOOD', 'WARNING', 'FAILURE', 'CONNECTION_ERROR', 'UNKNOWN_ERROR')}
    exmod = repo.mod('exitcodes').tree
    rep.check('codes', 'exit code constants GOOD=0 WARNING=2 FAILURE=3 CONNECTION_ERROR=1 UNKNOWN_ERROR=-1', codes == {'GOOD': 0, 'WARNING': 2, 'FAILURE': 3, 'CONNECTION_ERROR': 1, 'UNKNOWN_ERROR': -1},
              exmod.body[0], 'exit code constants changed: %s' % codes, sample={'exitcodes': codes})
    cenv = {'exitcodes.' + k: v for k, v in codes.items()}

    # ---- rule 1: fold lattice --------------------------------------------------------------------
    # The per-name renderer is explored by the checker's path-forking interpreter: for every incoming status and every
    # sequence of note levels (length 0..2 over fail/warn/info) every path must return max(incoming, levels) in the
    # order GOOD < WARNING < FAILURE; a path that returns before the notes are folded (empty name) must return the
    # incoming status unchanged.  The status variables are discovered from the return expressions.
    oa = repo.func('ssh_audit', 'output_algorithm')
    rep.saw(oa)
    param = 'program_retval'
    if param not in [a.arg for a in oa.args.args]:
        raise AnalysisError('status parameter %s of output_algorithm vanished' % param)
    var = param
    # the per-name renderer is interpreted on a family of synthetic table entries (every row shape), names, size annotations, presentation flags and
    # incoming statuses (props/_renderer.py): it must return max(incoming, levels of the name's notes) in the order GOOD < WARNING < FAILURE, and the
    # incoming status unchanged for an empty name
    from props import _renderer
    _renderer.verify(repo, rep, ['fold', 'noninterference'], {'fold': 'fold', 'noninterference': 'independence'})

    oas = repo.func('ssh_audit', 'output_algorithms')
    # ---- rule 3: option independence ---------------------------------------------------------------
    # (runs before the threading rule so that a status that depends on presentation state is reported even when the status is no
    #  longer threaded through a single variable)
    from props import _status

    def forbidden(R):
        return {r for r in R if r in FORBIDDEN_NAMES or any(r == p or r.startswith(p) for p in FORBIDDEN_PREFIXES)}
    for fname, fnode, R in _status.status_slices(repo, var, oa_by_model=True):
        bad = forbidden(R)
        rep.check('independence', 'status slice of %s reads no presentation option' % fname, not bad, fnode, 'status depends on presentation state: %s' % sorted(bad), sample={'rule': 'independence', 'function': fname, 'slice': sorted(R)})
    outf = repo.func('ssh_audit', 'output')

    # ---- rule 2: threading -----------------------------------------------------------------------
    def threading(modname, qual, min_calls, init_must_be_good):
        f = repo.func(modname, qual)
        rep.saw(f)
        r = returned_name(f)
        if len(r) != 1 or None in r:
            raise AnalysisError('%s must return one status variable on all paths (returns %s)' % (qual, r))
        v = r.pop()
        is_param = v in [a.arg for a in f.args.args]
        defs = [n for n in walk_no_nested(f) if isinstance(n, ast.Assign) and any(unparse(t) == v for t in n.targets)]
        ncalls = 0
        inits = 0
        for d in defs:
            val = d.value
            if isinstance(val, ast.Call) and call_name(val) in ('output_algorithms', 'output_algorithm'):
                callee = repo.func('ssh_audit', call_name(val))
                b = bind_args(val, callee)
                a = b.get('program_retval')
                ok = isinstance(a, ast.Name) and a.id == v
                rep.check('thread', '%s: %s passes the running status' % (qual, stmt_text(d)[:90]), ok, d, 'call does not pass the running status %s as program_retval (got %s): the fold restarts' % (v, unparse(a) if a is not None else 'nothing'))
                ncalls += 1
            elif unparse(val) == 'exitcodes.GOOD':
                inits += 1
                # must precede every call in source order and not sit in a loop/branch
                ok = d in f.body
                rep.check('thread', '%s: status initialised to GOOD at function level' % qual, ok, d, 'status re-initialised to GOOD inside a branch/loop')
            else:
                rep.check('thread', '%s: status definition %s is a fold call' % (qual, stmt_text(d)[:80]), False, d, 'status variable %s overwritten by %s: findings folded so far are lost' % (v, unparse(val)[:80]))
        if init_must_be_good:
            rep.check('thread', '%s: exactly one initialisation to GOOD' % qual, inits == 1 and not is_param, f, '%s initialises its status %d times' % (qual, inits))
            first_call_line = min([d.lineno for d in defs if isinstance(d.value, ast.Call)] or [10**9])
            for d in defs:
                if unparse(d.value) == 'exitcodes.GOOD':
                    rep.check('thread', '%s: GOOD initialisation precedes the first fold call' % qual, d.lineno < first_call_line, d, 'status reset to GOOD after findings were folded')
        else:
            rep.check('thread', '%s: status is a parameter and never re-initialised' % qual, is_param and inits == 0, f, '%s re-initialises the status it was given' % qual)
        rep.floor('thread', 'fold calls in %s' % qual, ncalls, min_calls)
        return f, v
    # output(), by interpretation (props/_sections.py): on every path the first section receives GOOD, every later section the status the previous one
    # returned, and the function returns the status of the last section -- however the section calls are written (one by one, table + loop, **mapping)
    from props import _sections, _renderer
    good = _renderer.codes(repo)['exitcodes.GOOD']
    for proto in (2, 1):
        for json_mode in (False, True):
            for res in _sections.run_output(repo, proto, json_mode):
                rep.evals()
                secs = res['sections']
                rep.floor('thread', 'fold calls in output (SSH-%d)' % proto, len(secs), 3)
                prev = good
                bad = None
                for k, x in enumerate(secs):
                    if not (x['status_in'] == prev and type(x['status_in']) is type(prev)) and bad is None:
                        bad = 'section %d (%s) receives %r instead of %s: the fold restarts / findings folded so far are lost' % (k + 1, x['alg_type'], x['status_in'], 'the running status %r' % prev if k else 'GOOD')
                    prev = x['status_out']
                if bad is None and not (res['returned'] == prev and type(res['returned']) is type(prev)):
                    bad = 'output() returns %r instead of the status of the last section' % (res['returned'],)
                rep.check('thread', 'output(): status threaded through every section and returned (SSH-%d%s)' % (proto, ', JSON' if json_mode else ''), bad is None, secs[0]['node'] if secs else outf,
                          'status threading broken in output(): %s' % bad, stmt='output() status threading SSH-%d' % proto)
    # output_algorithms, by abstract interpretation (sa/listinterp.py): the per-name renderer is summarised as an opaque fold step
    # step(name, status) -> fresh status token; for name lists of length 0..3 every path (section empty or not, JSON or not) must return
    # step(a_n, ... step(a_1, incoming)) -- every name folded exactly once, in order, starting from the incoming status, nothing dropped.
    from sa.listinterp import Interp
    from sa.abseval import Opaque, Unknown
    oas = repo.func('ssh_audit', 'output_algorithms')
    rep.saw(oas)
    oa_params = [x.arg for x in oa.args.args]
    for names in ([], ['<a1>'], ['<a1>', '<a2>'], ['<a1>', '<a2>', '<a3>']):
        def hook(call, env, interp):
            if call_name(call) == 'output_algorithm':
                b = bind_args(call, oa)
                try:
                    nm = interp.value(b['alg_name'], env)
                    st = interp.value(b[var], env)
                except (KeyError, Unknown):
                    raise Unknown('fold call without a computable name / status: %s' % unparse(call)[:80])
                return (True, ('step', nm, st))
            return None
        want = '<incoming>'
        for nme in names:
            want = ('step', nme, want)
        env = {'algorithms': list(names), var: '<incoming>', 'out': Opaque(), 'title': 't', 'alg_type': 'kex', 'unknown_algs': [], 'maxlen': 0, 'host_keys': None, 'dh_modulus_sizes': None, 'alg_db': Opaque()}
        try:
            finals = Interp(call_hook=hook).run(oas.body, env)
        except Unknown as ex:
            raise AnalysisError('output_algorithms cannot be interpreted: %s' % ex)
        wrong = None
        for fe in finals:
            rep.evals()
            r = fe.get('<return>')
            if fe.get('<outcome>') != 'return' or isinstance(r, Opaque):
                raise AnalysisError('output_algorithms: returned status not computable (forks %s)' % fe.get('<forks>'))
            if r != want and wrong is None:
                wrong = (r, fe.get('<forks>', []))
        rep.check('thread', 'output_algorithms folds every name once, in order, from the incoming status (%d names, %d paths)' % (len(names), len(finals)), wrong is None, oas,
                  'status threading broken in output_algorithms: for the names %s it returns %s instead of %s%s' % (names, wrong[0] if wrong else '', want, (' when %s' % ' / '.join(wrong[1][:2])) if wrong and wrong[1] else ''),
                  stmt='output_algorithms fold over %d names' % len(names), sample={'rule': 'thread', 'names': len(names), 'paths': len(finals)})

    # ---- rule 4: incomplete => CONNECTION_ERROR, no report -----------------------------------------
    au = repo.func('ssh_audit', 'audit')
    rep.saw(au)
    cfg = CFG(au)
    PARSE = ('SSH2_Kex.parse', 'SSH1_PublicKeyMessage.parse')

    def has_parse(st):
        target = st.test if isinstance(st, (ast.If, ast.While)) else st
        if isinstance(st, (ast.For, ast.With, ast.Try, ast.ExceptHandler, ast.FunctionDef)):
            return False
        return any(isinstance(n, ast.Call) and call_name(n) in PARSE for n in walk_no_nested(target))
    pnodes = cfg.stmts_matching(has_parse)
    rep.floor('incomplete', 'parse sites in audit', len(pnodes), 2)
    # closed-world value set of sshv (idiom 1)
    infeasible = set()
    vs = sshv_values(repo, au)
    rep.samples.append({'rule': 'incomplete', 'sshv_value_set': sorted(vs)})
    for st in walk_no_nested(au):
        if isinstance(st, ast.If) and st in au.body:
            chain = []
            cur = st
            while True:
                t = cur.test
                if isinstance(t, ast.Compare) and len(t.ops) == 1 and isinstance(t.ops[0], ast.Eq) and unparse(t.left) == 'sshv' and isinstance(t.comparators[0], ast.Constant):
                    chain.append((cur, t.comparators[0].value))
                else:
                    chain = []
                    break
                if len(cur.orelse) == 1 and isinstance(cur.orelse[0], ast.If):
                    cur = cur.orelse[0]
                else:
                    break
            remaining = set(vs)
            for node, c in chain:
                if c not in remaining:
                    infeasible |= set(cfg.branch(node, True))
                remaining.discard(c)
                if not remaining:
                    infeasible |= set(cfg.branch(node, False))
    # reachability without a successful parse: from a parse node only exceptional successors are followed
    seen = set()
    stack = [cfg.entry]
    while stack:
        n = stack.pop()
        if n in seen or n in infeasible:
            continue
        seen.add(n)
        for m in n.succ:
            if n in pnodes and m.kind not in ('handler', 'raise', 'finally_exc'):
                continue
            stack.append(m)
    nret = 0
    for n in seen:
        if n.kind == 'return':
            nret += 1
            v = n.stmt.value
            ok = False
            why = unparse(v) if v is not None else 'None'
            if v is not None and unparse(v) == 'exitcodes.CONNECTION_ERROR':
                ok = True
            elif isinstance(v, ast.Call) and call_name(v) == 'audit':
                ok = True       # the result of the recursive SSH-1 retry, returned directly
            elif isinstance(v, ast.Name):
                # must be the result of the recursive SSH-1 retry
                defs = [d for d in walk_no_nested(au) if isinstance(d, ast.Assign) and any(unparse(t) == v.id for t in d.targets)]
                ok = bool(defs) and all(isinstance(d.value, ast.Call) and call_name(d.value) == 'audit' for d in defs)
            path = cfg.find_path([cfg.entry], [n], avoid=infeasible)
            rep.check('incomplete', 'return without successful parse returns CONNECTION_ERROR: %s' % stmt_text(n.stmt), ok, n.stmt,
                      'audit() can return %s without having parsed the peer\'s algorithm message' % why, witness=describe_path(path) if path and not ok else None)
        if n.stmt is not None and n.kind in ('stmt', 'return', 'test'):
            target = n.stmt.test if isinstance(n.stmt, (ast.If, ast.While)) else (n.stmt.iter if isinstance(n.stmt, ast.For) else n.stmt)
            if isinstance(n.stmt, (ast.With, ast.Try)):
                continue
            for c in [x for x in walk_no_nested(target) if isinstance(x, ast.Call)]:
                nm = call_name(c)
                if nm in ('evaluate_policy', 'make_policy', 'HostKeyTest.run', 'GEXTest.run'):
                    if n in pnodes:
                        continue
                    rep.check('incomplete', 'no %s without a parsed algorithm message' % nm, False, c, '%s reachable without a successful parse' % nm)
                if nm == 'output':
                    kx, pk = None, None
                    b = bind_args(c, repo.func('ssh_audit', 'output'))
                    kx, pk = b.get('kex'), b.get('pkm')
                    carries = (kx is not None and not (isinstance(kx, ast.Constant) and kx.value is None)) or (pk is not None and not (isinstance(pk, ast.Constant) and pk.value is None))
                    if n in pnodes and carries:
                        continue    # the parse is an argument of this very call: output runs only if it succeeded
                    rep.check('incomplete', 'output() on the no-parse path carries no algorithm message: %s' % unparse(c)[:70], not carries, c,
                              'an algorithm report can be rendered without a successful parse')
    rep.floor('incomplete', 'returns reachable without a parse', nret, 3)
    # output() renders algorithm sections only for a parsed message: interpreted without one (kex = pkm = None) it must reach no section and return GOOD
    for json_mode in (False, True):
        for res in _sections.run_output(repo, 0, json_mode):
            rep.evals()
            rep.check('incomplete', 'no algorithm section without a parsed message%s' % (' (JSON)' if json_mode else ''), not res['sections'] and res['returned'] == good and type(res['returned']) is int, outf,
                      'output() without a parsed message renders sections %s and returns %r' % ([x['alg_type'] for x in res['sections']], res['returned']), stmt='output() without a parsed message')
    # the handler of the parse try returns CONNECTION_ERROR
    for t in walk_no_nested(au):
        if isinstance(t, ast.Try) and any(has_parse(s) for s in t.body if isinstance(s, ast.stmt)):
            for h in t.handlers:
                last = h.body[-1] if h.body else None
                ok = isinstance(last, ast.Return) and last.value is not None and unparse(last.value) == 'exitcodes.CONNECTION_ERROR'
                rep.check('incomplete', 'parse-failure handler returns CONNECTION_ERROR', ok, h, 'handler of the algorithm-message parse does not return CONNECTION_ERROR')
    # the parse is only reached when no handshake error was recorded: guarded by `err is None`
    from sa.logic import path_condition as _pc
    for pn in pnodes:
        conds = _pc(pn.stmt)
        ok = False
        for t, pol, k in conds:
            txt = unparse(t)
            if pol is False and (txt == 'err is not None' or (isinstance(t, ast.BoolOp) and isinstance(t.op, ast.Or) and any(unparse(v) == 'err is not None' for v in t.values))):
                ok = True
            if pol is True and txt == 'err is None':
                ok = True
        rep.check('incomplete', 'parse site is guarded by "no handshake error": %s' % stmt_text(pn.stmt)[:70], ok, pn.stmt,
                  'the algorithm-message parse is reachable although a handshake error was recorded (guards: %s)' % [(unparse(t)[:50], pol) for t, pol, k in conds])
    gate = [n for n in cfg.nodes if n.kind == 'test' and isinstance(n.stmt, ast.If) and any(isinstance(x, ast.Compare) and unparse(x) == 'err is not None' for x in ast.walk(n.stmt.test)) and n.stmt in au.body]
    rep.floor('incomplete', 'error gate `if err is not None` in audit', len(gate), 1)
    # a negative packet type always records an error (or returns) before the gate
    neg = [n for n in walk_no_nested(au) if isinstance(n, ast.If) and unparse(n.test) == 'packet_type < 0']
    rep.floor('incomplete', 'negative packet type test', len(neg), 1)

    def sets_err(st):
        return isinstance(st, ast.Assign) and any(unparse(t) == 'err' for t in st.targets) and not (isinstance(st.value, ast.Constant) and st.value.value is None)
    err_sets = cfg.stmts_matching(sets_err) + [n for n in cfg.nodes if n.kind == 'return']
    for n in neg:
        p = cfg.find_path(cfg.branch(n, True), gate, avoid=err_sets)
        rep.check('incomplete', 'read error (packet_type < 0) always records an error before the gate', p is None, n,
                  'a failed packet read can reach the error gate without an error recorded', witness=describe_path(p) if p else None)
    # a packet of the wrong type records an error: abstract evaluation of the else-branch over sshv x packet type
    protos = {'Protocol.' + k: ce.lookup('protocol', 'Protocol.' + k) for k in ('SMSG_PUBLIC_KEY', 'MSG_KEXINIT')}
    for n in neg:
        for sv in sorted(vs):
            for pt in (protos['Protocol.SMSG_PUBLIC_KEY'], protos['Protocol.MSG_KEXINIT'], 99):
                env = dict(protos)
                env.update({'sshv': sv, 'packet_type': pt, 'err': None, 'payload': b'x'})
                from sa.listinterp import Interp as _I2b
                from sa.abseval import Unknown as _U2b
                try:
                    fin_ = _I2b().run(n.orelse, env)
                except _U2b as ex:
                    raise AnalysisError('message-type test of audit() cannot be interpreted: %s' % ex)
                if len(fin_) != 1 or fin_[0].get('<forks>'):
                    raise AnalysisError('message-type test of audit() depends on a condition the analysis does not model: %s' % [f_.get('<forks>') for f_ in fin_][:1])
                rep.evals()
                expected = protos['Protocol.SMSG_PUBLIC_KEY'] if sv == 1 else protos['Protocol.MSG_KEXINIT']
                want_err = pt != expected
                got_err = fin_[0].get('err') is not None
                rep.check('incomplete', 'sshv=%s packet_type=%s: error recorded iff wrong type' % (sv, pt), want_err == got_err, n,
                          'with protocol %s a first packet of type %s %s' % (sv, pt, 'is accepted as the algorithm message' if want_err else 'is rejected although it is the expected message'))
    from props import _truncation
    _truncation.check_truncation(repo, rep, 'incomplete')
    # SSH-1 parse: is it protected?  (crash clause belongs to C09; recorded as a note here)
    # ---- rule 5: policy mapping ----------------------------------------------------------------------
    # the statements of audit() from the evaluate_policy call to the end of its block are interpreted with the policy passing / failing: the status variable
    # audit() returns must end up GOOD / FAILURE (conditional expression, if/else, temporary + negated test alike)
    from sa.listinterp import Interp as _I2
    from sa.abseval import Unknown as _U2, Opaque as _O2
    found = 0
    retnames = {x for x in returned_name(au) if x}
    for n in walk_no_nested(au):
        if isinstance(n, ast.Call) and call_name(n) == 'evaluate_policy':
            st_ = n
            while not isinstance(st_, ast.stmt):
                st_ = st_._parent
            blk = None
            for fld in ('body', 'orelse', 'finalbody'):
                b_ = getattr(st_._parent, fld, None)
                if isinstance(b_, list) and st_ in b_:
                    blk = b_[b_.index(st_):]
            if blk is None:
                continue
            found += 1
            got = {}
            for passed in (True, False):
                def hook_ep(call, e, interp, passed=passed):
                    if call_name(call) == 'evaluate_policy':
                        return (True, passed)
                    return None
                env = dict(cenv)
                try:
                    fin = _I2(call_hook=hook_ep).run(blk, env)
                except _U2 as ex:
                    raise AnalysisError('policy verdict mapping in audit() cannot be interpreted: %s' % ex)
                vals = set()
                for fe in fin:
                    if fe.get('<outcome>') == 'return':
                        vals.add(repr(fe.get('<return>')))
                    else:
                        for nm in retnames:
                            if nm in fe and not isinstance(fe[nm], _O2):
                                vals.add(repr(fe[nm]))
                got[passed] = vals
            rep.evals(2)
            ok = got == {True: {repr(codes['GOOD'])}, False: {repr(codes['FAILURE'])}}
            rep.check('policy-map', 'policy verdict mapped passed->GOOD, failed->FAILURE', ok, st_, 'policy verdict mapping is passed -> %s, failed -> %s' % (sorted(got[True]), sorted(got[False])), stmt='policy verdict mapping')
    rep.floor('policy-map', 'policy verdict mapping site', found, 1)
    ep = repo.func('ssh_audit', 'evaluate_policy')
    rep.saw(ep)
    rn = returned_name(ep)
    ok = len(rn) == 1 and None not in rn
    pv = list(rn)[0] if ok else None
    rep.check('policy-map', 'evaluate_policy returns a single variable', ok, ep, 'evaluate_policy returns %s' % rn)
    if pv:
        defs = [n for n in walk_no_nested(ep) if isinstance(n, ast.Assign) and any(pv in [x.id for x in ast.walk(t) if isinstance(x, ast.Name)] for t in n.targets)]
        ok = len(defs) == 1 and isinstance(defs[0].targets[0], ast.Tuple) and isinstance(defs[0].targets[0].elts[0], ast.Name) and defs[0].targets[0].elts[0].id == pv \
            and isinstance(defs[0].value, ast.Call) and unparse(defs[0].value.func) == 'aconf.policy.evaluate'
        rep.check('policy-map', 'returned verdict is the first component of Policy.evaluate', ok, defs[0] if defs else ep, 'evaluate_policy\'s verdict is not the first component of aconf.policy.evaluate(...)')
    pe = repo.func('policy', 'Policy.evaluate')
    rep.saw(pe)
    # the first component of what Policy.evaluate returns is its verdict: interpreted (props/_policy.py) on a conforming peer it is True, on a peer with one
    # cipher removed False -- whichever way the verdict is computed (a flag, the emptiness of the error list)
    from props import _policy as _P
    from sa.consteval import ConstEnv as _CEp
    _consts = _P.class_consts(repo, _CEp(repo))
    _pol = _P.policies()[0][1]
    _peers = dict(_P.peers(_pol))
    for _desc, _want in (('the conforming peer', True), ('Ciphers: last name removed', False)):
        _res = _P.run(repo, _consts, _pol, _peers[_desc], False, False)
        rep.evals()
        if any(f for v, e, r, f in _res) and len({v for v, e, r, f in _res}) > 1:
            raise AnalysisError('Policy.evaluate: the verdict for %s depends on a condition the analysis does not model: %s' % (_desc, [f for v, e, r, f in _res][:2]))
        rep.check('policy-map', 'Policy.evaluate returns its verdict first (%s -> %s)' % (_desc, _want), all(v is _want for v, e, r, f in _res), pe, 'Policy.evaluate returns %s for %s' % ([r for v, e, r, f in _res][:1], _desc), stmt='evaluate verdict: %s' % _desc)

    # ---- rule 6: wrappers ---------------------------------------------------------------------------
    def wrapper(modname):
        m = repo.mod(modname)
        tree = m.tree
        tries = [n for n in ast.walk(tree) if isinstance(n, ast.Try) and n._func is None and any(isinstance(c, ast.Call) and call_name(c) == 'main' for c in ast.walk(n))]
        if not tries:
            raise AnalysisError('anchor vanished: try around main() in %s' % m.relpath)
        t = tries[-1]
        asg = [s for s in t.body if isinstance(s, ast.Assign) and isinstance(s.value, ast.Call) and call_name(s.value) == 'main']
        ok = len(asg) == 1
        v = unparse(asg[0].targets[0]) if ok else None
        rep.check('wrapper', '%s: exit value is assigned from main()' % m.relpath, ok, t, 'main() result not captured')
        hs = [unparse(h.type) if h.type is not None else None for h in t.handlers]
        rep.check('wrapper', '%s: only Exception is mapped to UNKNOWN_ERROR' % m.relpath, hs == ['Exception'], t, 'wrapper handlers are %s' % hs)
        for h in t.handlers:
            a = [s for s in h.body if isinstance(s, ast.Assign) and unparse(s.targets[0]) == v]
            rep.check('wrapper', '%s: handler sets UNKNOWN_ERROR' % m.relpath, len(a) == 1 and unparse(a[0].value) == 'exitcodes.UNKNOWN_ERROR', h, 'handler does not set UNKNOWN_ERROR')
        # the statement after the try in the same block is sys.exit(v)
        par = t._parent
        blk = par.body if t in par.body else par.orelse
        after = blk[blk.index(t) + 1:]
        ok = bool(after) and isinstance(after[-1], ast.Expr) and isinstance(after[-1].value, ast.Call) and unparse(after[-1].value) == 'sys.exit(%s)' % v
        rep.check('wrapper', '%s: sys.exit(%s) follows' % (m.relpath, v), ok, t, 'wrapper does not exit with the captured status')
    wrapper('<wrapper>')
    wrapper('__main__')
    wrapper('ssh_audit')
    # main(): the single-target branch returns audit()'s value
    mn = repo.func('ssh_audit', 'main')
    rep.saw(mn)
    rets = [r for r in walk_no_nested(mn) if isinstance(r, ast.Return)]
    rv = {unparse(r.value) for r in rets if r.value is not None}
    ok = len(rv) == 1
    rep.check('wrapper', 'main returns one status variable', ok, mn, 'main returns %s' % rv)
    if ok:
        v = rv.pop()
        single = [n for n in walk_no_nested(mn) if isinstance(n, ast.Assign) and unparse(n.targets[0]) == v and isinstance(n.value, ast.Call) and call_name(n.value) == 'audit']
        rep.check('wrapper', 'single-target status is audit()\'s return value', len(single) == 1, mn, 'main does not return audit()\'s status for a single target')


class _Opaque:
    def __repr__(self):
        return '<opaque>'


def track_block(rep, body, env, tracked):
    """Abstractly interpret a statement list, tracking assignments to the `tracked` names; values the
    evaluator cannot compute become an opaque non-None token."""
    for st in body:
        if isinstance(st, ast.If):
            try:
                c = ev(st.test, env)
            except Unknown:
                raise AnalysisError('guard not decidable by abstract evaluation: %s' % stmt_text(st))
            rep.evals()
            track_block(rep, st.body if c else st.orelse, env, tracked)
        elif isinstance(st, ast.Assign):
            for t in st.targets:
                if isinstance(t, ast.Name) and t.id in tracked:
                    try:
                        env[t.id] = ev(st.value, env)
                    except Unknown:
                        env[t.id] = _Opaque()
        elif isinstance(st, (ast.For, ast.While, ast.Try, ast.With)):
            for n in ast.walk(st):
                if isinstance(n, ast.Assign) and any(isinstance(t, ast.Name) and t.id in tracked for t in n.targets):
                    raise AnalysisError('tracked variable assigned inside a compound statement: %s' % stmt_text(st))


def sshv_values(repo, au):
    """Closed-world value set of audit()'s sshv at the protocol dispatch (idiom 1)."""
    vals = set()
    d = param_default(au, 'sshv')
    if d is None or not isinstance(d, ast.Constant):
        raise AnalysisError('audit(sshv) default is not a constant')
    vals.add(d.value)
    for (m, q), f in repo.all_funcs().items():
        for n in walk_no_nested(f):
            if isinstance(n, ast.Call) and call_name(n) == 'audit' and n._module.name == 'ssh_audit':
                b = bind_args(n, au)
                a = b.get('sshv')
                if a is not None:
                    if not isinstance(a, ast.Constant):
                        raise AnalysisError('audit() called with a non-literal sshv: %s' % unparse(n))
                    vals.add(a.value)
    asg = [n for n in walk_no_nested(au) if isinstance(n, ast.Assign) and any(unparse(t) == 'sshv' for t in n.targets)]
    for a in asg:
        par = a._parent
        if not (isinstance(par, ast.If) and unparse(par.test) == 'sshv is None' and par in au.body):
            raise AnalysisError('unrecognised assignment to sshv: %s' % stmt_text(a))
        v = a.value
        if isinstance(v, ast.IfExp) and isinstance(v.body, ast.Constant) and isinstance(v.orelse, ast.Constant):
            vals.discard(None)
            vals |= {v.body.value, v.orelse.value}
        elif isinstance(v, ast.Constant):
            vals.discard(None)
            vals.add(v.value)
        else:
            raise AnalysisError('unrecognised value assigned to sshv: %s' % unparse(v))
    return vals
