"""C11 -- host-key sizes, CA details and fingerprints are rated and plumbed correctly (structural clauses)."""
import ast
import itertools

from sa.core import AnalysisError, unparse, walk_no_nested, stmt_text, call_name, bind_args, attr_chain, func_id
from sa.logic import path_condition
from sa.abseval import ev, Unknown, track_block, Opaque
from sa.consteval import ConstEnv

EXPL = ('Decides the rating and record-plumbing clauses: (1) the guard block of HostKeyTest.perform_test that turns measured sizes into notes is abstractly interpreted by the checker over the interval partition the code itself induces '
        '(boundary sizes t-1, t, t+1 for every threshold) for {plain, certificate} x {RSA family, ECC} x CA {absent, RSA, ECC}: RSA keys and RSA CAs below 2048 bits fail, from 2048 below 3072 warn, from 3072 carry no size note, never both, and the severity '
        'never rises as a key grows; (2) fail notes go to row 1 and warn notes to row 2 of the probed type, for an RSA-family type to every family member; (3) the record keys written by SSH2_Kex.set_host_key are exactly those read by the text renderer, the JSON '
        'renderer, the fingerprint code and the policy code, the probe passes the values of the key-exchange object that just parsed the reply, and recv_reply resets its fields first; (4) text and JSON fingerprints hash the same blob, collapse the RSA family to ssh-rsa, '
        'skip certificates, and use SHA-256/base64 and MD5/hex with the documented prefixes; (5) size suffixes and JSON size fields are shown under the same conditions. The measurement itself (size in the blob, fingerprint values) is NOT decided.')

RSA_T = (2048, 3072)
ECC_T = (224, 256)


def rate(size, thr):
    if size < thr[0]:
        return 'fail'
    if size < thr[1]:
        return 'warn'
    return None


def run(repo, rep, tier):
    rep.explanation = EXPL
    ce = ConstEnv(repo)
    pt = repo.func('hostkeytest', 'HostKeyTest.perform_test')
    rep.saw(pt)
    from props import _hostkey_rating
    consts = _hostkey_rating.class_consts(repo, ce, 'hostkeytest', 'HostKeyTest')
    for need in ('HostKeyTest.TWO2K_MODULUS_WARNING', 'HostKeyTest.SMALL_ECC_MODULUS_WARNING', 'HostKeyTest.RSA_FAMILY'):
        if need not in consts:
            raise AnalysisError('anchor vanished: %s' % need)
    rep.check('thresholds', 'the 2048-bit warning text names 2048 bits', '2048-bit' in consts['HostKeyTest.TWO2K_MODULUS_WARNING'], repo.cls('hostkeytest', 'HostKeyTest'), 'TWO2K warning text changed')

    # ---- rule 1: threshold partition ------------------------------------------------------------------------------------
    # The whole probe (HostKeyTest.perform_test) is interpreted along its no-exception path (props/_hostkey_rating.probe): the server offers one key type,
    # the key-exchange object reports (size, CA type, CA size), and the notes that land in the rating table are compared with the documented thresholds.
    # Helper methods, threshold tables, merged family loops etc. are all interpreted; nothing depends on how the rating code is laid out.
    blk = pt
    rsa_sizes = [1, 1023, 1024, 2047, 2048, 2049, 3071, 3072, 3073, 4096, 16384]
    ecc_sizes = [1, 223, 224, 225, 255, 256, 257, 448, 521]
    if tier == 'quick':
        rsa_sizes = [1024, 2047, 2048, 3071, 3072, 4096]
        ecc_sizes = [223, 224, 255, 256, 448]
    host_kinds = [('ssh-rsa', False, 'rsa'), ('rsa-sha2-512', False, 'rsa'), ('ssh-ed25519', False, 'ecc'), ('ssh-ed448', False, 'ecc'), ('ecdsa-sha2-nistp256', False, 'ecc'), ('ssh-dss', False, 'rsa'),
                  ('ssh-rsa-cert-v01@openssh.com', True, 'rsa'), ('ssh-ed25519-cert-v01@openssh.com', True, 'ecc')]
    ca_kinds = [('', None), ('ssh-rsa', 'rsa'), ('ssh-ed25519', 'ecc'), ('ecdsa-sha2-nistp384', 'ecc')]
    ncases = 0
    bad = []
    severity = {}

    def rows(table, t):
        r = table.get(t, [])
        return (list(r[1]) if len(r) > 1 else []), (list(r[2]) if len(r) > 2 else [])
    for (hkt, cert, hkind), (cat, ckind) in itertools.product(host_kinds, ca_kinds):
        if not cert and ckind is not None:
            continue
        hsizes = rsa_sizes if hkind == 'rsa' else ecc_sizes
        csizes = [0] if ckind is None else (rsa_sizes if ckind == 'rsa' else ecc_sizes)
        for hs, cs in itertools.product(hsizes, csizes):
            ev_ = _hostkey_rating.probe(repo, consts, [(hkt, cert, hs, cat, cs)])
            rep.evals()
            if ev_['crash']:
                bad.append(((hkt, hs, cat, cs), 'the probe raises: ' + ev_['crash'], [], None, None))
                continue
            all_fails, warns = rows(ev_['table'], hkt)
            env = {'key_fail_comments': all_fails, 'key_warn_comments': warns}
            ncases += 1
            fails = [c for c in all_fails if 'backdoored' not in str(c)]
            hthr = RSA_T if hkind == 'rsa' else ECC_T
            exp_f, exp_w = 0, set()
            hr = rate(hs, hthr)
            if not cert:
                if hkt != 'ssh-dss':
                    if hr == 'fail':
                        exp_f += 1
                    elif hr == 'warn':
                        exp_w.add(consts['HostKeyTest.TWO2K_MODULUS_WARNING'] if hkind == 'rsa' else consts['HostKeyTest.SMALL_ECC_MODULUS_WARNING'])
            else:
                if hr == 'fail':
                    exp_f += 1
                elif hr == 'warn':
                    exp_w.add(consts['HostKeyTest.TWO2K_MODULUS_WARNING'] if hkind == 'rsa' else consts['HostKeyTest.SMALL_ECC_MODULUS_WARNING'])
                if cs > 0:
                    cr_ = rate(cs, RSA_T if ckind == 'rsa' else ECC_T)
                    if cr_ == 'fail':
                        exp_f += 1
                    elif cr_ == 'warn':
                        exp_w.add(consts['HostKeyTest.TWO2K_MODULUS_WARNING'] if ckind == 'rsa' else consts['HostKeyTest.SMALL_ECC_MODULUS_WARNING'])
            ok = len(fails) == exp_f and set(warns) == exp_w and len(warns) == len(set(warns))
            if not ok:
                bad.append(((hkt, hs, cat, cs), fails, warns, exp_f, sorted(exp_w)))
            # the fail text names the measured size
            for f in fails:
                if str(hs) not in str(f) and str(cs) not in str(f):
                    bad.append(((hkt, hs, cat, cs), 'fail text does not name the size', f, None, None))
            nist = [c for c in env['key_fail_comments'] if 'backdoored' in str(c)]
            if (len(nist) == 1) != cat.startswith('ecdsa-sha2-nistp'):
                bad.append(((hkt, hs, cat, cs), 'NIST CA note', nist, None, None))
            sev = 2 if fails else (1 if warns else 0)
            severity.setdefault((hkt, cat, cs), []).append((hs, sev))
            severity.setdefault((hkt, cat, 'ca', hs), []).append((cs, sev))
    # CA key types outside the documented families (a FIDO or Ed448 CA, an unknown name): the certificate's CA type and size must still be recorded (the probe
    # does not raise); which thresholds they get is not documented and not demanded
    for (hkt, cert, hkind), cat in itertools.product([h for h in host_kinds if h[1]], ['sk-ssh-ed25519@openssh.com', 'ssh-ed448', 'unknown-ca-type']):
        for hs, cs in ((256 if hkind == 'ecc' else 4096, 256), (256 if hkind == 'ecc' else 4096, 4096)):
            ev_ = _hostkey_rating.probe(repo, consts, [(hkt, cert, hs, cat, cs)])
            rep.evals()
            ncases += 1
            if ev_['crash']:
                bad.append(((hkt, hs, cat, cs), 'the probe raises: ' + ev_['crash'], [], None, None))
            elif (hkt, hs, cat, cs) not in ev_['records']:
                bad.append(((hkt, hs, cat, cs), 'the CA type and size are not recorded: %s' % (ev_['records'],), [], None, None))
    rep.check('thresholds', 'size rating of host keys and CA keys over %d boundary cases: fail < 2048 <= warn < 3072 <= none (ECC 224/256), never both, CA rated only for certificates with a CA' % ncases, not bad, blk,
              'size rating differs from the documented thresholds, e.g. (type, size, CA type, CA size)=%s gives fails=%s warns=%s, expected %s failure(s) and warnings %s' % (bad[0] if bad else (None,) * 5),
              sample={'rule': 'thresholds', 'cases': ncases, 'example': {'type': 'ssh-rsa', 'size': 2048, 'expected': 'warn'}})
    mono_bad = []
    for key, seq in severity.items():
        seq = sorted(seq)
        for (s1, v1), (s2, v2) in zip(seq, seq[1:]):
            if s2 > s1 and v2 > v1 and s1 > 0:
                mono_bad.append((key, (s1, v1), (s2, v2)))
    rep.check('thresholds', 'the rating never gets worse as a key grows', not mono_bad, blk, 'severity increases with size: %s' % (mono_bad[0],) if mono_bad else '')
    rep.extra['abstract_cases'] = ncases
    # nothing is probed, recorded or rated for a key type the server does not advertise
    ev_ = _hostkey_rating.probe(repo, consts, [('ssh-rsa', False, 1024, '', 0)], offered=[])
    untouched = all(len(r) == 1 for r in ev_['table'].values())
    rep.check('thresholds', 'rating happens only for key types the server advertises', untouched and not ev_['records'] and not ev_['connects'], blk,
              'a key type the server does not offer is probed / rated: connections %d, records %s, table %s' % (ev_['connects'], ev_['records'], {k: v for k, v in ev_['table'].items() if len(v) > 1}))

    # ---- rule 2: where the rating lands (same model) -------------------------------------------------------------------------
    fam = list(consts['HostKeyTest.RSA_FAMILY'])
    ev_ = _hostkey_rating.probe(repo, consts, [('ssh-ed25519', False, 200, '', 0)])
    f_, w_ = rows(ev_['table'], 'ssh-ed25519')
    others = {k: v for k, v in ev_['table'].items() if k != 'ssh-ed25519' and len(v) > 1 and (v[1] or (len(v) > 2 and v[2]))}
    rep.check('landing', 'fail notes land in row 1 of the probed key type, and only there', len(f_) == 1 and not w_ and not others, pt, 'table edits for a 200-bit ssh-ed25519 key: own rows %s / %s, other entries %s' % (f_, w_, others), sample={'rule': 'landing', 'edits': {'ssh-ed25519': [f_, w_]}})
    ev_ = _hostkey_rating.probe(repo, consts, [('ssh-ed25519', False, 224, '', 0)])
    f_, w_ = rows(ev_['table'], 'ssh-ed25519')
    rep.check('landing', 'warn notes land in row 2 of the probed key type', not f_ and len(w_) == 1, pt, 'table edits for a 224-bit ssh-ed25519 key: rows %s / %s' % (f_, w_))
    for probe_type in fam[:1] + fam[-1:]:
        ev_ = _hostkey_rating.probe(repo, consts, [(probe_type, False, 1024, '', 0)])
        got = {t: rows(ev_['table'], t) for t in fam}
        rep.check('landing', 'RSA-family result (probed as %s) is written to every family member, once' % probe_type, all(len(got[t][0]) == 1 and not got[t][1] for t in fam) and len({repr(v) for v in got.values()}) == 1, pt,
                  'RSA family propagation changed: probing %s with a 1024-bit key leaves %s' % (probe_type, got), stmt='family propagation from %s' % probe_type)
        rec_types = sorted({r[0] for r in ev_['records']})
        rep.check('landing', 'the measured RSA key is recorded for every family member (probed as %s)' % probe_type, rec_types == sorted(fam), pt, 'host key records after probing %s: %s' % (probe_type, rec_types), stmt='family records from %s' % probe_type)
    ev_ = _hostkey_rating.probe(repo, consts, [(fam[0], False, 1024, '', 0), (fam[-1], False, 1024, '', 0)])
    got = {t: rows(ev_['table'], t) for t in fam}
    rep.check('landing', 'already parsed types are skipped (the family is probed once)', ev_['connects'] == 1 and ev_['inits'] == 1 and all(len(got[t][0]) == 1 for t in fam), pt,
              'two offered RSA-family types cause %d connection(s) / %d key exchange(s) and leave %s' % (ev_['connects'], ev_['inits'], got))
    # what is written for a key type does not depend on the type probed before it (fresh comment lists, fresh measurements)
    for first, second in ((('ssh-rsa-cert-v01@openssh.com', True, 1024, 'ecdsa-sha2-nistp256', 200), ('ssh-ed25519', False, 256, '', 0)), (('ssh-dss', False, 1024, '', 0), ('ecdsa-sha2-nistp256', False, 224, '', 0)),
                          (('ssh-ed25519', False, 200, '', 0), ('ssh-rsa', False, 4096, '', 0))):
        both = _hostkey_rating.probe(repo, consts, [first, second])
        alone = _hostkey_rating.probe(repo, consts, [second])
        rep.evals(2)
        rep.check('landing', 'comment lists are fresh for every key type (%s after %s)' % (second[0], first[0]), rows(both['table'], second[0]) == rows(alone['table'], second[0]), pt,
                  'comment lists are not reset per type: probed after %s, %s is rated %s; probed alone %s -- notes of one key type are attached to the next' % (first[0], second[0], rows(both['table'], second[0]), rows(alone['table'], second[0])),
                  stmt='fresh lists: %s after %s' % (second[0], first[0]))
        r2 = [r for r in both['records'] if r[0] == second[0]]
        rep.check('record', 'the record of %s carries its own measurement (probed after %s)' % (second[0], first[0]), bool(r2) and all(r == (second[0], second[2], second[3], second[4]) for r in r2), pt,
                  'set_host_key for %s receives %s, measured was %s: a key type probed later in the loop inherits a value measured for an earlier one' % (second[0], r2, (second[2], second[3], second[4])), stmt='record of %s after %s' % (second[0], first[0]))

    # ---- rule 3: record-field agreement -------------------------------------------------------------------------------------
    sh = repo.func('ssh2_kex', 'SSH2_Kex.set_host_key')
    rep.saw(sh)
    rec = [n for n in walk_no_nested(sh) if isinstance(n, ast.Assign) and isinstance(n.value, ast.Dict) and unparse(n.targets[0]) == 'self.__host_keys[key_type]']
    if len(rec) != 1:
        raise AnalysisError('host key record literal not found in set_host_key')
    written = {k.value: unparse(v) for k, v in zip(rec[0].value.keys, rec[0].value.values)}
    rep.check('record', 'record fields are filled from the like-named parameters', written == {'raw_hostkey_bytes': 'raw_hostkey_bytes', 'hostkey_size': 'hostkey_size', 'ca_key_type': 'ca_key_type', 'ca_key_size': 'ca_key_size'}, rec[0], 'record literal: %s' % written)
    KEYS = set(written)
    readers = [('ssh_audit', 'output_algorithm', 'host_keys'), ('ssh_audit', 'build_struct', 'host_keys'), ('ssh_audit', 'build_struct', 'hostkey_info'), ('ssh_audit', 'output_fingerprints', 'host_keys'), ('policy', 'Policy.create', 'host_keys_trimmed'),
               ('policy', 'Policy.evaluate', 'server_host_keys'), ('policy', 'Policy._normalize_hostkey_sizes', 'self._hostkey_sizes')]
    nread = 0
    for m, q, var in readers:
        f = repo.func(m, q)
        rep.saw(f)
        for n in ast.walk(f):
            if isinstance(n, ast.Subscript) and isinstance(n.slice, ast.Constant) and isinstance(n.slice.value, str):
                base = n.value
                if isinstance(base, ast.Subscript) and unparse(base.value) == var or (var == 'hostkey_info' and unparse(base) == var):
                    nread += 1
                    rep.check('record', '%s.%s reads record field %r that set_host_key writes' % (m, q, n.slice.value), n.slice.value in KEYS, n, '%s reads host key record field %r, which set_host_key never writes' % (q, n.slice.value))
            if isinstance(n, ast.Compare) and isinstance(n.left, ast.Constant) and isinstance(n.left.value, str) and isinstance(n.ops[0], (ast.In, ast.NotIn)) and (unparse(n.comparators[0]) == var or unparse(n.comparators[0]).startswith(var + '[')):
                if n.left.value.endswith(('_size', '_type', '_bytes')):
                    rep.check('record', '%s.%s tests record field %r that set_host_key writes' % (m, q, n.left.value), n.left.value in KEYS, n, '%s tests unknown record field %r' % (q, n.left.value))
    rep.floor('record', 'record field reads', nread, 12)
    # every recorded value is re-read from the key-exchange object on EVERY path from the reply to the record (no value may
    # survive from the previous key type of the loop)
    from sa.cfg import CFG, describe_path
    cpt = CFG(pt, exc_edges=False)
    recv_nodes = cpt.stmts_matching(lambda st: isinstance(st, ast.Assign) and 'kex_group.recv_reply(' in unparse(st.value))
    rec_nodes = cpt.stmts_matching(lambda st: isinstance(st, ast.Expr) and 'server_kex.set_host_key(' in unparse(st))
    rep.floor('record', 'reply / record statements in perform_test', min(len(recv_nodes), len(rec_nodes)), 1)
    for var, getter in (('hostkey_modulus_size', 'kex_group.get_hostkey_size()'), ('ca_key_type', 'kex_group.get_ca_type()'), ('ca_modulus_size', 'kex_group.get_ca_size()')):
        gates = cpt.stmts_matching(lambda st, var=var, getter=getter: isinstance(st, ast.Assign) and unparse(st.targets[0]) == var and unparse(st.value) == getter)
        starts = set()
        for r in recv_nodes:
            starts |= r.succ
        pth = cpt.find_path(list(starts), rec_nodes, avoid=gates)
        rep.check('record', '%s is re-read from the key-exchange object on every path from the reply to the record' % var, pth is None and bool(gates), rec_nodes[0].stmt if rec_nodes else pt,
                  '%s can reach set_host_key() without being refreshed from %s: a key type probed later in the loop inherits the value measured for an earlier one (e.g. a plain key shown with the previous certificate\'s CA)' % (var, getter),
                  witness=describe_path(pth) if pth else None, stmt='refresh %s' % var)
    rr = repo.func('kexdh', 'KexDH.recv_reply')
    rep.saw(rr)
    first = [unparse(s) for s in rr.body[:8] if isinstance(s, ast.Assign)]
    # no measurement survives from the previous key type inside the reused key-exchange object: must-assignment of the fields the getters read
    # (props/_hostkey_rating.stale_measurement_fields: CFG must-analysis of recv_reply, falling back to every send_init implementation)
    _rr, _fields, _stale = _hostkey_rating.stale_measurement_fields(repo)
    rep.floor('record', 'measurement fields read by the getters', len(_fields), 3)
    for _fld, _why in _stale:
        rep.check('record', 'field %s is assigned afresh in every exchange' % _fld, False, _rr,
                  'KexDH.%s is %s: the key-exchange object is reused for every probed host-key type, so a later type is reported with the value parsed for an earlier one (e.g. a plain key with the previous certificate\'s CA)' % (_fld, _why),
                  stmt='stale measurement field %s' % _fld)
    if not _stale:
        rep.ob('record', 'every measurement field (%s) is assigned on all paths of each exchange' % ', '.join(_fields), True)
    # the walk over the presented blob: key length = length of the key field of that type; certificates: CA parser entered at the serial number
    _rr2, _ncases, _probs = _hostkey_rating.blob_layout_problems(repo)
    rep.floor('record', 'host key blob layouts interpreted', _ncases, 5)
    for _kt, _msg in _probs:
        rep.check('record', 'blob walk for %s' % _kt, False, _rr2, 'host key blob of type %s is mis-parsed: %s' % (_kt, _msg), stmt='blob layout %s' % _kt)
    if not _probs:
        rep.ob('record', 'blob walk: key field length recorded and CA parser entered at the serial number for %d layouts' % _ncases, True)
    getters = {'get_hostkey_size': 'KexDH.__adjust_key_size(self.__hostkey_n_len)', 'get_ca_type': 'self.__ca_key_type', 'get_ca_size': 'KexDH.__adjust_key_size(self.__ca_n_len)', 'get_hostkey_type': 'self.__hostkey_type'}
    for g, want_v in getters.items():
        f = repo.func('kexdh', 'KexDH.' + g)
        r = [x for x in walk_no_nested(f) if isinstance(x, ast.Return)]
        rep.check('record', 'KexDH.%s returns %s' % (g, want_v), len(r) == 1 and unparse(r[0].value) == want_v, f, 'KexDH.%s returns %s' % (g, unparse(r[0].value) if r else '?'))

    # a probe that gets no reply (the peer closes after the key-exchange request: recv_reply() returns None) presents no key: nothing may be recorded for
    # that type -- a record with empty bytes is reported with the fingerprint of the empty string
    for kt_, cert_ in (('ssh-ed25519', False), ('rsa-sha2-512', False), ('ssh-ed25519-cert-v01@openssh.com', True)):
        ev_n = _hostkey_rating.probe(repo, consts, [(kt_, cert_, 256, '', 0)], no_reply=(kt_,))
        rep.evals()
        recs_ = [r_ for r_ in ev_n.get('record_blobs', []) if r_[1] in (b'', None)] if not ev_n['crash'] else []
        rep.check('record', 'no host key is recorded for %s when the probe got no reply' % kt_, not recs_ and not ev_n['crash'], pt,
                  'the peer hangs up instead of answering the %s probe (recv_reply() returns None), yet a host key with %s is recorded for %s: the report shows a 0-bit key and the fingerprint of the empty string (SHA256:47DEQpj8HBSa+/TImW+5JCeuQeRkm5NMpJWZG3hSuFU) for a key the peer never presented' % (
                      kt_, 'empty bytes' if recs_ else 'a crash (%s)' % ev_n['crash'], sorted({r_[0] for r_ in recs_})),
                  func='hostkeytest:HostKeyTest.perform_test', stmt='host key recorded although the probe got no reply (%s)' % ('certificate' if cert_ else ('RSA family' if kt_.startswith('rsa') else 'plain key')))
    # ---- rule 4: fingerprints --------------------------------------------------------------------------------------------------
    ofp = repo.func('ssh_audit', 'output_fingerprints')
    bs = repo.func('ssh_audit', 'build_struct')
    for f, what in ((ofp, 'text'), (bs, 'JSON')):
        fp = [n for n in walk_no_nested(f) if isinstance(n, ast.Call) and call_name(n) == 'Fingerprint' and 'raw_hostkey_bytes' in unparse(n)]
        rep.check('fingerprints', '%s fingerprints hash the recorded raw host key blob' % what, len(fp) == 1 and "['raw_hostkey_bytes']" in unparse(fp[0].args[0]), fp[0] if fp else f, '%s fingerprint source changed' % what)
        t = unparse(f)
        rep.check('fingerprints', '%s: RSA family collapses to ssh-rsa' % what, 'in HostKeyTest.RSA_FAMILY' in t and "'ssh-rsa'" in t, f, '%s RSA family collapse changed' % what)
        rep.check('fingerprints', '%s: certificate types are skipped' % what, "'-cert-' not in host_key_type" in t or "'-cert-' in host_key_type" in t, f, '%s certificate skip changed' % what)
    fpc = repo.cls('fingerprint', 'Fingerprint')
    sha = repo.func('fingerprint', 'Fingerprint.sha256')
    md5 = repo.func('fingerprint', 'Fingerprint.md5')
    t = unparse(sha)
    rep.check('fingerprints', 'SHA256 fingerprint = "SHA256:" + base64(sha256(blob)) without padding', "hashlib.sha256(self.__fpd).digest()" in t and 'base64.b64encode' in t and "rstrip('=')" in t and "'SHA256:{}'.format(r)" in t, sha, 'sha256 fingerprint computation changed')
    t = unparse(md5)
    rep.check('fingerprints', 'MD5 fingerprint = "MD5:" + colon-separated hex of md5(blob)', 'hashlib.md5(self.__fpd).hexdigest()' in t and "':'.join(" in t and 'range(0, len(h), 2)' in t and "'MD5:{}'.format(r)" in t, md5, 'md5 fingerprint computation changed')
    t = unparse(bs)
    rep.check('fingerprints', 'JSON strips exactly the prefixes (7 = len("SHA256:"), 4 = len("MD5:"))', 'fp.sha256[7:]' in t and 'fp.md5[4:]' in t and len('SHA256:') == 7 and len('MD5:') == 4, bs, 'JSON fingerprint prefix slices changed')
    fi = repo.func('fingerprint', 'Fingerprint.__init__')
    rep.check('fingerprints', 'Fingerprint hashes the bytes it was given', 'self.__fpd = fpd' in unparse(fi), fi, 'Fingerprint.__init__ changed')

    # ---- rule 5: size suffix guards -----------------------------------------------------------------------------------------------
    oa = repo.func('ssh_audit', 'output_algorithm')
    sz = [n for n in walk_no_nested(oa) if isinstance(n, ast.Assign) and unparse(n.targets[0]) == 'alg_name_with_size' and isinstance(n.value, ast.BinOp)]
    entries = [(n.value.left.value, [(unparse(t), p) for t, p, k in path_condition(n) if k == 'if'], unparse(n.value.right), n) for n in sz]
    ca_e = [e for e in entries if 'CA' in e[0]]
    plain_e = [e for e in entries if 'CA' not in e[0] and any('host_keys' in t for t, p in e[1])]
    ok = len(ca_e) == 1 and ('len(ca_key_type) > 0 and ca_key_size > 0', True) in ca_e[0][1]
    rep.check('suffix', 'text: "(N-bit cert/M-bit T CA)" iff a CA type and size were recorded', ok, ca_e[0][3] if ca_e else oa, 'CA suffix guard changed: %s' % [e[1] for e in ca_e])
    ok = len(plain_e) == 1 and ('alg_name in HostKeyTest.RSA_FAMILY', True) in plain_e[0][1] and ('len(ca_key_type) > 0 and ca_key_size > 0', False) in plain_e[0][1]
    rep.check('suffix', 'text: "(N-bit)" for RSA-family keys without CA', ok, plain_e[0][3] if plain_e else oa, 'plain size suffix guard changed: %s' % [e[1] for e in plain_e])
    ok = bool(ca_e) and ca_e[0][2] == '(alg_name, hostkey_size, ca_key_size, ca_key_type)' and bool(plain_e) and plain_e[0][2] == '(alg_name, hostkey_size)'
    rep.check('suffix', 'suffix prints host key size, CA size, CA type in that order', ok, oa, 'suffix arguments: %s' % [e[2] for e in entries])
    hs_defs = {unparse(n.targets[0]): unparse(n.value) for n in walk_no_nested(oa) if isinstance(n, ast.Assign) and unparse(n.targets[0]) in ('hostkey_size', 'ca_key_type', 'ca_key_size') and 'host_keys' in unparse(n.value)}
    want_d = {'hostkey_size': "cast(int, host_keys[alg_name]['hostkey_size'])", 'ca_key_type': "cast(str, host_keys[alg_name]['ca_key_type'])", 'ca_key_size': "cast(int, host_keys[alg_name]['ca_key_size'])"}
    rep.check('suffix', 'suffix values are read from the like-named record fields of this algorithm', hs_defs == want_d, oa, 'suffix value sources: %s' % hs_defs)
    # JSON size fields by interpretation (props/_sections.run_build_struct): build_struct on a key list with recorded host keys of every kind
    from props import _sections as _sec11
    names_ = ['rsa-sha2-512', 'ssh-rsa', 'ssh-ed25519', 'ssh-rsa-cert-v01@openssh.com', 'ssh-ed25519-cert-v01@openssh.com', 'ecdsa-sha2-nistp256', 'ssh-dss']
    hk_ = {'rsa-sha2-512': {'raw_hostkey_bytes': b'k1', 'hostkey_size': 3072, 'ca_key_type': '', 'ca_key_size': 0}, 'ssh-rsa': {'raw_hostkey_bytes': b'k1', 'hostkey_size': 3072, 'ca_key_type': '', 'ca_key_size': 0},
           'ssh-ed25519': {'raw_hostkey_bytes': b'k2', 'hostkey_size': 256, 'ca_key_type': '', 'ca_key_size': 0},
           'ssh-rsa-cert-v01@openssh.com': {'raw_hostkey_bytes': b'k3', 'hostkey_size': 4096, 'ca_key_type': 'ssh-ed25519', 'ca_key_size': 256},
           'ssh-ed25519-cert-v01@openssh.com': {'raw_hostkey_bytes': b'k4', 'hostkey_size': 256, 'ca_key_type': 'ssh-rsa', 'ca_key_size': 2048}}
    try:
        res_, _lists = _sec11.run_build_struct(repo, 2, key_names=names_, host_keys=hk_)
    except AnalysisError as ex:
        raise AnalysisError('JSON size fields: %s' % ex)
    ents = {e_.get('algorithm'): e_ for e_ in res_.get('key', []) if isinstance(e_, dict)}
    badj = []
    for nm_ in names_:
        e_ = ents.get(nm_)
        if e_ is None:
            badj.append('%s has no JSON entry' % nm_)
            continue
        rec_ = hk_.get(nm_)
        want_ks = rec_['hostkey_size'] if rec_ is not None and (nm_ in ('ssh-rsa', 'rsa-sha2-256', 'rsa-sha2-512') or nm_.startswith('ssh-rsa-cert-v0')) else None
        want_ca = (rec_['ca_key_type'], rec_['ca_key_size']) if rec_ is not None and rec_['ca_key_size'] > 0 else None
        if e_.get('keysize') != want_ks:
            badj.append('%s: keysize is %r, expected %r' % (nm_, e_.get('keysize'), want_ks))
        got_ca = (e_.get('ca_algorithm'), e_.get('casize')) if ('casize' in e_ or 'ca_algorithm' in e_) else None
        if got_ca != want_ca:
            badj.append('%s: CA fields are %r, the record says %r' % (nm_, got_ca, want_ca))
    rep.check('suffix', 'JSON: keysize for RSA-family keys and RSA certificates, casize / ca_algorithm iff a CA size was recorded, each from the record of that very algorithm (%d key types)' % len(names_), not badj, bs,
              'JSON size fields differ from the recorded host keys: %s' % '; '.join(badj[:3]), stmt='JSON size fields')
