"""C12 -- group-exchange modulus size is rated and recorded correctly (structural clauses)."""
import ast
import itertools

from sa.core import AnalysisError, unparse, walk_no_nested, stmt_text, call_name, bind_args, attr_chain, func_id
from sa.logic import path_condition, eval_prop, text_atomizer
from sa.abseval import ev, Unknown
from sa.cfg import CFG, describe_path
from sa.consteval import ConstEnv

EXPL = ('Decides: (1) the rating guards of GEXTest.run evaluated by the ordering evaluator at 2047/2048/2049/3071/3072/3073 (and far values): below 2048 a failure text goes into row 1 of the algorithm\'s table entry, from 2048 below 3072 the '
        '2048-bit warning is placed in row 2 exactly once, from 3072 no size note; the branches are exclusive; (2) "no size rather than a wrong one": kex.set_dh_modulus_size has one call site, dominated by smallest_modulus > 0; in _send_init the returned '
        'size starts at a non-positive sentinel and its only other definition reads the key-exchange object after send_init_gex and recv_reply succeeded inside the same try; the handler and the reconnect-failure branch leave the sentinel and finally closes; '
        'send_init_gex raises for any other message type and sets the modulus only from the parsed group; (3) the probe sizes are the documented literal sequences with the early exit, the second pass is made iff the first result is 2048 on an OpenSSH banner and the '
        'explanatory note is added iff it changed the result; (4) the OpenSSH-2048 note and suppression fire exactly under the documented conjunction. (5) GEXTest.run is abstractly interpreted against every monotone server moduli policy over subsets of {512..8192} (all 512 subsets) in the strict and OpenSSH-fallback styles x banner x algorithm with _send_init summarised by the policy: the recorded size equals the smallest modulus handed out over the fixed probe sequence (follow-up answer for OpenSSH at 2048) and the table row is rated by the thresholds. Not decided: the bit length arithmetic and servers outside these policy families.')


class _StructError(Exception):
    pass


class _ValueErr(Exception):
    pass


def run(repo, rep, tier):
    rep.explanation = EXPL
    gr = repo.func('gextest', 'GEXTest.run')
    si = repo.func('gextest', 'GEXTest._send_init')
    rep.saw(gr), rep.saw(si)

    # ---- rule 5: the measuring procedure against server moduli policies (abstract interpretation) --------------------------------------
    # GEXTest.run is interpreted (sa/listinterp.py) with _send_init summarised as "the size the policy hands out for (min, pref, max), -1 when it
    # refuses" -- what rule `measured` establishes for _send_init -- for every monotone moduli policy over subsets of the documented sizes, in the
    # strict and the OpenSSH-fallback selection styles, OpenSSH and non-OpenSSH banners, both group-exchange algorithms.  The recorded size must be the
    # smallest modulus the policy hands out over the fixed probe sequence (OpenSSH ending at 2048: the answer to the 2048-4096 follow-up), the notes in
    # the algorithm's table row must follow the thresholds, and a policy that never answers records nothing.
    import copy as _copy
    from sa.listinterp import Interp
    from sa.abseval import Opaque
    SIZES = [512, 768, 1024, 1536, 2048, 3072, 4096, 6144, 8192]
    FIXED = [(512, 1024, 1536)] + [(b, b, b) for b in (512, 768, 1024, 1536, 2048, 3072, 4096)]

    def pick(moduli, lo, pref, hi):
        c = sorted(m for m in moduli if lo <= m <= hi)
        if not c:
            return None
        for m in c:
            if m >= pref:
                return m
        return c[-1]

    def strict(moduli):
        return lambda lo, pref, hi: pick(moduli, lo, pref, hi)

    def fallback(moduli):
        def f(lo, pref, hi):
            m = pick(moduli, lo, pref, hi)
            if m is not None:
                return m
            return 2048 if hi < 3072 else (4096 if hi < 6144 else 8192)
        return f
    db2 = ConstEnv(repo).lookup('ssh2_kexdb', 'SSH2_KexDB.MASTER_DB')
    subsets = [c for r in range(0, 10) for c in itertools.combinations(SIZES, r)]
    nmodels = 0
    bad = []

    def fixed(moduli):
        return lambda lo, pref, hi: moduli[0]
    # servers that hand out one modulus whatever is requested exercise the rating thresholds at their boundaries
    boundary = [((m,), 'fixed-modulus', fixed) for m in (1, 512, 1024, 2047, 2048, 2049, 3071, 3072, 3073, 4096, 8192)]
    for moduli, style_name, style in [(mo, sn, st) for mo in subsets for sn, st in (('strict', strict), ('openssh-fallback', fallback))] + boundary:
        for _once in (0,):
            policy = style(moduli)
            answers = [policy(*p) for p in FIXED]
            pos = [a for a in answers if a is not None]
            for banner_sw in ('OpenSSH_9.6', 'dropbear_2022.83'):
                want = min(pos) if pos else None
                want_note = False
                if want == 2048 and banner_sw.startswith('OpenSSH'):
                    second = policy(2048, 3072, 4096)
                    want_note = second is not None and second != 2048
                    want = second
                for gex_alg in ('diffie-hellman-group-exchange-sha1', 'diffie-hellman-group-exchange-sha256'):
                    nmodels += 1
                    row = _copy.deepcopy(db2['kex'][gex_alg])
                    table = {'kex': {gex_alg: row}}

                    def hook(call, env, interp, policy=policy):
                        nm = call_name(call) or ''
                        if nm.endswith('_send_init'):
                            a = [interp.value(x, env) for x in call.args[5:8]]
                            r = policy(*a)
                            return (True, (r if r is not None else -1, False))
                        return None
                    env = {'kex.kex_algorithms': [gex_alg], 'GEX_ALGS.items()': [(gex_alg, Opaque())], 'SSH2_KexDB.get_db()': table, 'banner': Opaque(), 'banner.software': banner_sw,
                           'banner is not None': True, 'banner.software is not None': True, 's.is_connected()': False}
                    it = Interp(call_hook=hook, effect_names=('set_dh_modulus_size',))
                    try:
                        finals = it.run(gr.body, env)
                    except Unknown as ex:
                        raise AnalysisError('GEXTest.run cannot be interpreted against a moduli policy: %s' % ex)
                    if len(finals) != 1 or finals[0].get('<forks>'):
                        raise AnalysisError('GEXTest.run: outcome depends on a condition the analysis does not model: %s' % [f.get('<forks>') for f in finals][:2])
                    fe = finals[0]
                    rep.evals()
                    rec = [a for nm, a, k in fe['<effects>']]
                    got = rec[-1][1] if rec else None
                    desc = '%s policy with moduli %s, %s banner, %s' % (style_name, list(moduli), banner_sw.split('_')[0], gex_alg.rsplit('-', 1)[1])
                    if want is None or (want is not None and want <= 0):
                        if rec:
                            bad.append((desc, 'records %s bits although the server never hands out a modulus' % got))
                        continue
                    if len(rec) != 1 or rec[0][0] != gex_alg or got != want:
                        bad.append((desc, 'reports %s bits, the smallest modulus handed out over the probe sequence is %s (answers %s)' % (got, want, answers)))
                        continue
                    fails = [t for t in (row[1] if len(row) > 1 else []) if 'modulus' in str(t)]
                    warns = [t for t in (row[2] if len(row) > 2 else []) if 'modulus' in str(t)]
                    infos = [t for t in (row[3] if len(row) > 3 else []) if 'fallback' in str(t)]
                    if want < 2048 and not (len(fails) == 1 and str(want) in fails[0] and not warns):
                        bad.append((desc, '%d-bit modulus is not rated a failure naming the size (row %s)' % (want, row[1:])))
                    elif 2048 <= want < 3072 and not (len(warns) == 1 and not fails):
                        bad.append((desc, '%d-bit modulus is not rated a single warning (row %s)' % (want, row[1:])))
                    elif want >= 3072 and (fails or warns):
                        bad.append((desc, '%d-bit modulus carries a size note (row %s)' % (want, row[1:])))
                    if bool(infos) != want_note:
                        bad.append((desc, 'fallback note %s although the follow-up probe %s the result' % ('present' if infos else 'absent', 'changed' if want_note else 'did not change')))
    from props import _gexmodel
    _n2, _bad2 = _gexmodel.both_methods_problems(repo, rep)
    nmodels += _n2
    bad.extend(_bad2)
    rep.floor('policies', 'server moduli policies interpreted', nmodels, 4096)
    rep.check('policies', 'the recorded modulus is the smallest the server hands out, rated by the thresholds, for %d policy x banner x algorithm models' % nmodels, not bad, gr,
              'group-exchange measurement wrong for a %s: %s [%d models deviate]' % ((bad[0][0], bad[0][1], len(bad)) if bad else ('', '', 0)), stmt='moduli policy models', sample={'rule': 'policies', 'models': nmodels})

    # ---- rule 1: threshold partition: decided by the policy models above (fixed-modulus servers at 1, 512, 1024, 2047, 2048, 2049, 3071, 3072, 3073, 4096,
    # 8192 bits: failure naming the size below 2048, the single 2048-bit warning below 3072, nothing from 3072 on; row 1 replaced / appended, row 2 created) ----

    # ---- rule 2: size only when measured -----------------------------------------------------------------------------------
    # (when and with what set_dh_modulus_size is called is decided by the policy models above: for every server policy the size recorded for each algorithm is
    #  the smallest modulus handed out, and nothing is recorded for a server that refuses every probe -- however the guard and the arguments are spelled)
    sets = [n for m in repo.modules.values() for n in ast.walk(m.tree) if isinstance(n, ast.Call) and isinstance(n.func, ast.Attribute) and n.func.attr == 'set_dh_modulus_size']
    rep.ob('measured', 'set_dh_modulus_size call sites: %d (their effect is compared with the server policy by the models)' % len(sets), True)
    # _send_init, interpreted along its no-exception path: with a successful reconnect it requests the group, parses the reply, THEN reads the modulus size and
    # returns (size, False); with a failed reconnect it requests and measures nothing and returns (non-positive sentinel, True).  Exception paths: handlers set no size.
    for reconnect_ok in (True, False):
        order = []

        def hook_si(call, e, interp, reconnect_ok=reconnect_ok, order=order):
            t = call_name(call) or unparse(call.func)
            if t.endswith('reconnect'):
                return (True, reconnect_ok)
            if t in ('kex_group.send_init_gex', 'kex_group.recv_reply', 's.close'):
                order.append(t.split('.')[1])
                return (True, None)
            if t == 'kex_group.get_dh_modulus_size':
                order.append('measure')
                return (True, 2048)
            return None
        params = [a.arg for a in si.args.args]
        env = {p_: Opaque() for p_ in params}
        env.update({'gex_alg': 'g', 'gex_min': 2048, 'gex_nbits': 2048, 'gex_max': 2048, 'out.debug': False})
        try:
            finals = Interp(call_hook=hook_si, try_normal_path=True).run(si.body, env)
        except Unknown as ex:
            raise AnalysisError('GEXTest._send_init cannot be interpreted: %s' % ex)
        rets = {repr(f.get('<return>')) for f in finals if f.get('<outcome>') == 'return'}
        rep.evals()
        if reconnect_ok:
            ok = rets == {'(2048, False)'} and [o for o in order if o != 'close'] == ['send_init_gex', 'recv_reply', 'measure']
            rep.check('measured', '_send_init: request, reply, then the size is read; returns (size, False)', ok, si, '_send_init with a working connection performs %s and returns %s' % (order, sorted(rets)), stmt='_send_init normal path')
            rep.check('measured', 'the connection is closed after the probe', 'close' in order, si, '_send_init leaves the probe connection open (%s)' % order, stmt='_send_init close')
        else:
            vals = [f.get('<return>') for f in finals if f.get('<outcome>') == 'return']
            ok = len(vals) == 1 and isinstance(vals[0], tuple) and len(vals[0]) == 2 and isinstance(vals[0][0], int) and vals[0][0] <= 0 and vals[0][1] is True and not [o for o in order if o != 'close']
            rep.check('measured', 'a failed reconnect sets the flag and measures nothing', ok, si, '_send_init after a failed reconnect performs %s and returns %s' % (order, sorted(rets)), stmt='_send_init reconnect failure')
    for tr_ in [n for n in walk_no_nested(si) if isinstance(n, ast.Try)]:
        for h in tr_.handlers:
            assigns = [n for n in ast.walk(h) if isinstance(n, (ast.Assign, ast.AugAssign)) and any('modulus' in unparse(t) for t in (n.targets if isinstance(n, ast.Assign) else [n.target]))]
            rep.check('measured', 'the exception handler leaves the sentinel', not assigns, h, 'handler sets a size: %s' % [unparse(a) for a in assigns])
    sg = repo.func('kexdh', 'KexGroupExchange.send_init_gex')
    rep.saw(sg)
    # send_init_gex by interpretation: a scripted reply (group message with a modulus of k bits / another message type / debug messages first / a short
    # payload) -> what reaches set_params and send_init, or the exception.  The server may hand out a group outside the requested range (RFC 4419 lets it
    # round up to the nearest group it has): that is a measurement, not a refusal.
    import binascii as _binascii
    import struct as _struct
    from sa.consteval import ConstEnv as _CE3
    from props import _hostkey_rating as _hk
    from sa.abseval import Opaque as _Opq
    proto = _hk.class_consts(repo, _CE3(repo), 'protocol', 'Protocol')
    for need in ('Protocol.MSG_KEXDH_GEX_GROUP', 'Protocol.MSG_DEBUG', 'Protocol.MSG_KEXDH_GEX_REQUEST'):
        if need not in proto:
            raise AnalysisError('anchor vanished: %s' % need)
    sgp = [a_.arg for a_ in sg.args.args]
    if sgp[:2] != ['self', 's'] or len(sgp) != 5:
        raise AnalysisError('send_init_gex: parameters are %s' % sgp)

    def gex_run(script, rng):
        """script = [(message type, payload)] answered by read_packet in order -> (outcome, [events])"""
        pending = list(script)
        events = []

        def hook(call, e, interp):
            t = call_name(call) or unparse(call.func)
            if t == 's.read_packet':
                if not pending:
                    return (True, (-1, b''))
                return (True, pending.pop(0))
            if t in ('s.write_byte', 's.write_int', 's.send_packet', 's.write_mpint2', 's.write'):
                if t != 's.send_packet' and call.args:
                    events.append((t, interp.value(call.args[0], e)))
                return (True, None)
            if t == 'struct.unpack':
                args = [interp.value(a_, e) for a_ in call.args]
                try:
                    return (True, _struct.unpack(*args))
                except _struct.error as ex:
                    raise _StructError(str(ex))
            if t == 'binascii.hexlify' and len(call.args) == 1:
                v = interp.value(call.args[0], e)
                if isinstance(v, bytes):
                    return (True, _binascii.hexlify(v))
            if t == 'int' and len(call.args) == 2:
                a_, b_ = [interp.value(x, e) for x in call.args]
                if isinstance(a_, (bytes, str)) and isinstance(b_, int):
                    try:
                        return (True, int(a_, b_))
                    except ValueError:
                        raise _ValueErr('int() of an empty field')
            if isinstance(call.func, ast.Attribute) and call.func.attr in ('set_params', 'send_init') and isinstance(call.func.value, (ast.Call, ast.Name)) and 'super' in unparse(call.func.value) + 'super' * (unparse(call.func.value) in ('self', 'KexDH')):
                events.append((call.func.attr, tuple(interp.value(a_, e) for a_ in call.args)))
                return (True, None)
            if isinstance(call.func, ast.Attribute) and call.func.attr == 'bit_length' and not call.args:
                v = interp.value(call.func.value, e)
                if isinstance(v, int):
                    return (True, v.bit_length())
            if t in ('traceback.format_exc', 'str'):
                return (True, '')
            if t.endswith('out.d') or t.endswith('out.v'):
                return (True, None)
            return None
        env = dict(proto)
        for cn_ in ('KexDH', 'KexGroupExchange'):
            for k_, v_ in _hk.class_consts(repo, _CE3(repo), 'kexdh', cn_).items():
                env[k_] = v_
                env['self.' + k_.split('.', 1)[1]] = v_
                env['cls.' + k_.split('.', 1)[1]] = v_
        env.update({'self': _Opq(), 's': _Opq()})
        env.update(dict(zip(sgp[2:], rng)))
        try:
            finals = Interp(call_hook=hook, try_normal_path=True, budget=50000).run(sg.body, env)
        except _StructError as ex:
            return 'struct.error', events
        except _ValueErr as ex:
            return 'ValueError', events
        except Unknown as ex:
            raise AnalysisError('send_init_gex cannot be interpreted: %s' % ex)
        if len(finals) != 1 or finals[0].get('<forks>'):
            raise AnalysisError('send_init_gex does not evaluate on a single path (forks %s)' % [f_.get('<forks>') for f_ in finals][:2])
        fe = finals[0]
        if fe.get('<crash>'):
            return 'crash: %s' % fe['<crash>'], events
        return ('raise' if fe.get('<outcome>') == 'raise' else 'return'), events

    def group_msg(bits, g=2):
        pb = ((1 << (bits - 1)) | 0x0f3b).to_bytes((bits + 7) // 8 + 1, 'big')       # leading zero byte as in an mpint with the top bit set
        gb = bytes([g])
        return _struct.pack('>I', len(pb)) + pb + _struct.pack('>I', len(gb)) + gb
    GROUP, DEBUG = proto['Protocol.MSG_KEXDH_GEX_GROUP'], proto['Protocol.MSG_DEBUG']
    ranges = [(512, 512, 512), (2048, 2048, 2048), (4096, 4096, 4096), (2048, 3072, 4096), (1024, 2048, 8192)]
    badm = []
    ncase = 0
    for rng in ranges:
        for bits in (512, 1024, 2048, 3072, 4096, 6144, 8192):
            for pre in (0, 2):
                outcome, evs = gex_run([(DEBUG, b'dbg')] * pre + [(GROUP, group_msg(bits))], rng)
                ncase += 1
                req = [v for t_, v in evs if t_ == 's.write_int'][:3]
                sets = [v for t_, v in evs if t_ == 'set_params']
                want_p = (1 << (bits - 1)) | 0x0f3b
                inits = [v for t_, v in evs if t_ == 'send_init']
                if outcome != 'return' or sets != [(2, want_p)] or len(inits) != 1 or req != list(rng):
                    badm.append((rng, bits, pre, outcome, 'set_params%s' % ([(g_, p_.bit_length()) for g_, p_ in sets if isinstance(p_, int)],), req))
    rep.check('measured', 'send_init_gex requests the given range and measures every group the server hands out (%d range x modulus x debug-prefix cases, moduli inside and outside the requested range)' % ncase, not badm, sg,
              'send_init_gex does not measure the group it was handed: requested (min, preferred, max) = %s, server answers a %d-bit group after %d debug message(s): outcome %s, %s, request sent %s -- a server that rounds the request up to the groups it has (RFC 4419) is reported without a modulus size, or with a wrong one' % (badm[0] if badm else ((), 0, 0, None, None, None)),
              stmt='send_init_gex measures the group', sample={'rule': 'measured', 'cases': ncase})
    refused = []
    for script, what in (([(1, b'\x00\x00\x00\x02')], 'a disconnect message'), ([(-1, b'')], 'a closed connection'), ([(20, group_msg(2048))], 'a message of another type (20)'), ([(DEBUG, b'd'), (-1, b'')], 'a debug message, then a closed connection'),
                         ([(GROUP, b'\x00\x00')], 'a group message cut inside the length field'), ([(GROUP, b'')], 'an empty group message')):
        outcome, evs = gex_run(script, (2048, 3072, 4096))
        ncase += 1
        if outcome == 'return' or [1 for t_, v in evs if t_ == 'set_params' and isinstance(v[1], int) and v[1] > 0 and outcome == 'return']:
            refused.append((what, outcome, [t_ for t_, v in evs if t_ in ('set_params', 'send_init')]))
    rep.check('measured', 'send_init_gex leaves through an exception when the reply is not a complete group message', not refused, sg,
              'send_init_gex returns normally on %s (outcome %s, calls %s): _send_init then reads a modulus that was not handed out in this probe' % (refused[0] if refused else (None,) * 3),
              stmt='send_init_gex refusals')
    gm = repo.func('kexdh', 'KexDH.get_dh_modulus_size')
    r = [x for x in walk_no_nested(gm) if isinstance(x, ast.Return)]
    rep.check('measured', 'get_dh_modulus_size is the bit length of the stored modulus', len(r) == 1 and unparse(r[0].value) in ('len(bin(self.__p)) - 2', 'self.__p.bit_length()'), gm, 'get_dh_modulus_size returns %s' % (unparse(r[0].value) if r else '?'))
    spf = repo.func('kexdh', 'KexDH.set_params')
    rep.check('measured', 'set_params stores p', 'self.__p = p' in unparse(spf), spf, 'set_params changed')

    # ---- rule 3: probe sequence ------------------------------------------------------------------------------------------------
    # (the probe sizes, their order, the early exit, the OpenSSH follow-up and the fallback note are decided semantically by rule 5 below -- the
    #  earlier text rules on the literal list and the spelling of the early-exit test were removed: they alarmed on equivalent respellings)
    calls = sorted([n for n in walk_no_nested(gr) if isinstance(n, ast.Call) and call_name(n) == 'GEXTest._send_init'], key=lambda n: n.lineno)
    rep.floor('probes', 'probe call sites in GEXTest.run', len(calls), 2)
    for c in calls:
        rep.check('probes', 'probe uses the audit socket, the probed algorithm and its key-exchange object', [unparse(a) for a in c.args[:5]] == ['out', 's', 'kex_group', 'kex', 'gex_alg'], c, 'probe call arguments changed')
    kg = [n for n in walk_no_nested(gr) if isinstance(n, ast.Assign) and unparse(n.targets[0]) == 'kex_group']
    rep.check('probes', 'a fresh key-exchange object per algorithm', len(kg) == 1 and unparse(kg[0].value) == 'kex_group_class(out)', kg[0] if kg else gr, 'kex_group construction changed')

    # ---- rule 4: OpenSSH 2048 note and suppression -----------------------------------------------------------------------------
    ppf = repo.func('ssh_audit', 'post_process_findings')
    rep.saw(ppf)
    # post_process_findings is interpreted (props/_terrapin.py) over {GEX-SHA256 offered} x {modulus recorded: none, 2048, 3072} x {banner: none, no software,
    # OpenSSH, other}: the explanatory note lands in row 3 of that algorithm and the algorithm is suppressed from the recommendations exactly when it is
    # offered, was measured at 2048 bits and the banner says OpenSSH
    from props import _terrapin as T
    A = T.GEXN
    bad = []
    nrows = 0
    for kexp, gexin, size, ban in itertools.product([True, False], [True, False], [None, 2048, 3072], ['none', 'nosoft', 'OpenSSH_8.9p1', 'dropbear_2022.83']):
        if not kexp and (gexin or size is not None):
            continue
        nrows += 1
        val = {'kexp': kexp, 'client': False, 'c': False, 's': False, 'chacha': False, 'cbc': False, 'etm': False}
        extra = {'algs.ssh2kex.dh_modulus_sizes()': ({A: size} if size is not None else {}), 'banner': None if ban == 'none' else Opaque(), 'banner.software': None if ban in ('none', 'nosoft') else ban}
        finals, it, _t = T.interpret(repo, ppf, val, extra_env=extra, kex_extra=([A] if gexin else []))
        want = kexp and gexin and size == 2048 and ban.startswith('OpenSSH')
        for fe in finals:
            rep.evals()
            r = fe.get('<return>')
            if fe.get('<outcome>') != 'return' or not isinstance(r, tuple) or not isinstance(r[0], list):
                raise AnalysisError('post_process_findings: suppression list not computable (forks: %s)' % fe.get('<forks>'))
            rows_ = fe['<table>']['kex'][A]
            noted = len(rows_) > 3 and any('OpenSSH' in str(t) or 'bugzilla' in str(t) or 'fallback' in str(t) for t in rows_[3])
            if noted != want:       # (whether the algorithm is also kept out of the recommendations is property C13's clause, decided there)
                bad.append(({'offered': gexin, 'modulus': size, 'banner': ban}, A in r[0], noted))
    rep.floor('openssh-note', 'fallback-note rows interpreted', nrows, 20)
    rep.check('openssh-note', 'the explanatory note is attached exactly when the algorithm is offered, measured at 2048 and the banner says OpenSSH (%d rows)' % nrows, not bad, ppf,
              'OpenSSH fallback handling wrong for %s: suppressed=%s, note in row 3=%s' % (bad[0] if bad else ({}, None, None)), stmt='openssh fallback note table')

    # ---- the table the notes are written to is private to the scan (shared rule, props/_dbcopy.py) ----------------------------------------
    from props import _dbcopy
    from sa.consteval import ConstEnv as _CE2
    _dbcopy.check_private_copy(repo, rep, 'private-table', _CE2(repo), 'the 2048-bit modulus warning appended for one target stays on the master table and is shown for every later target whatever modulus it hands out')
