"""C12 -- group-exchange modulus size is rated and recorded correctly (structural clauses)."""
import ast
import itertools

from sa.core import AnalysisError, unparse, walk_no_nested, stmt_text, call_name, bind_args, attr_chain, func_id
from sa.logic import path_condition, eval_prop, text_atomizer
from sa.abseval import ev, Unknown
from sa.cfg import CFG, describe_path
from sa.consteval import ConstEnv

EXPL = ('Decides: (1) the rating guards of GEXTest.run evaluated by the ordering evaluator at 2047/2048/2049/3071/3072/3073 (and far values): below 2048 a failure text goes into row 1 of the algorithm\'s table entry, from 2048 below 3072 the '
        '2048-bit warning is placed in row 2 exactly once, from 3072 no size note; the branches are exclusive; (2) "no size rather than a wrong one": kex.set_dh_modulus_size has one call site, dominated by smallest_modulus > 0; in _send_init the returned '
        'size starts at a non-positive sentinel and its only other definition reads the key-exchange object after send_init_gex and recv_reply succeeded inside the same try; the handler and the reconnect-failure branch leave the sentinel and finally closes; '
        'send_init_gex raises for any other message type and sets the modulus only from the parsed group; (3) the probe sizes are the documented literal sequences with the early exit, the second pass is made iff the first result is 2048 on an OpenSSH banner and the '
        'explanatory note is added iff it changed the result; (4) the OpenSSH-2048 note and suppression fire exactly under the documented conjunction. (5) GEXTest.run is abstractly interpreted against every monotone server moduli policy over subsets of {512..8192} (all 512 subsets) in the strict and OpenSSH-fallback styles x banner x algorithm with _send_init summarised by the policy: the recorded size equals the smallest modulus handed out over the fixed probe sequence (follow-up answer for OpenSSH at 2048) and the table row is rated by the thresholds. Not decided: the bit length arithmetic and servers outside these policy families.')


def run(repo, rep, tier):
    rep.explanation = EXPL
    gr = repo.func('gextest', 'GEXTest.run')
    si = repo.func('gextest', 'GEXTest._send_init')
    rep.saw(gr), rep.saw(si)

    # ---- rule 5: the measuring procedure against server moduli policies (abstract interpretation) --------------------------------------
    # GEXTest.run is interpreted (sa/listinterp.py) with _send_init summarised as "the size the policy hands out for (min, pref, max), -1 when it
    # refuses" -- what rule `measured` establishes for _send_init -- for every monotone moduli policy over subsets of the documented sizes, in the
    # strict and the OpenSSH-fallback selection styles, OpenSSH and non-OpenSSH banners, both group-exchange algorithms.  The recorded size must be the
    # smallest modulus the policy hands out over the fixed probe sequence (OpenSSH ending at 2048: the answer to the 2048-4096 follow-up), the notes in
    # the algorithm's table row must follow the thresholds, and a policy that never answers records nothing.
    import copy as _copy
    from sa.listinterp import Interp
    from sa.abseval import Opaque
    SIZES = [512, 768, 1024, 1536, 2048, 3072, 4096, 6144, 8192]
    FIXED = [(512, 1024, 1536)] + [(b, b, b) for b in (512, 768, 1024, 1536, 2048, 3072, 4096)]

    def pick(moduli, lo, pref, hi):
        c = sorted(m for m in moduli if lo <= m <= hi)
        if not c:
            return None
        for m in c:
            if m >= pref:
                return m
        return c[-1]

    def strict(moduli):
        return lambda lo, pref, hi: pick(moduli, lo, pref, hi)

    def fallback(moduli):
        def f(lo, pref, hi):
            m = pick(moduli, lo, pref, hi)
            if m is not None:
                return m
            return 2048 if hi < 3072 else (4096 if hi < 6144 else 8192)
        return f
    db2 = ConstEnv(repo).lookup('ssh2_kexdb', 'SSH2_KexDB.MASTER_DB')
    subsets = [c for r in range(0, 10) for c in itertools.combinations(SIZES, r)]
    nmodels = 0
    bad = []
    for moduli in subsets:
        for style_name, style in (('strict', strict), ('openssh-fallback', fallback)):
            policy = style(moduli)
            answers = [policy(*p) for p in FIXED]
            pos = [a for a in answers if a is not None]
            for banner_sw in ('OpenSSH_9.6', 'dropbear_2022.83'):
                want = min(pos) if pos else None
                want_note = False
                if want == 2048 and banner_sw.startswith('OpenSSH'):
                    second = policy(2048, 3072, 4096)
                    want_note = second is not None and second != 2048
                    want = second
                for gex_alg in ('diffie-hellman-group-exchange-sha1', 'diffie-hellman-group-exchange-sha256'):
                    nmodels += 1
                    row = _copy.deepcopy(db2['kex'][gex_alg])
                    table = {'kex': {gex_alg: row}}

                    def hook(call, env, interp, policy=policy):
                        nm = call_name(call) or ''
                        if nm.endswith('_send_init'):
                            a = [interp.value(x, env) for x in call.args[5:8]]
                            r = policy(*a)
                            return (True, (r if r is not None else -1, False))
                        return None
                    env = {'kex.kex_algorithms': [gex_alg], 'GEX_ALGS.items()': [(gex_alg, Opaque())], 'SSH2_KexDB.get_db()': table, 'banner': Opaque(), 'banner.software': banner_sw,
                           'banner is not None': True, 'banner.software is not None': True, 's.is_connected()': False}
                    it = Interp(call_hook=hook, effect_names=('set_dh_modulus_size',))
                    try:
                        finals = it.run(gr.body, env)
                    except Unknown as ex:
                        raise AnalysisError('GEXTest.run cannot be interpreted against a moduli policy: %s' % ex)
                    if len(finals) != 1 or finals[0].get('<forks>'):
                        raise AnalysisError('GEXTest.run: outcome depends on a condition the analysis does not model: %s' % [f.get('<forks>') for f in finals][:2])
                    fe = finals[0]
                    rep.evals()
                    rec = [a for nm, a, k in fe['<effects>']]
                    got = rec[-1][1] if rec else None
                    desc = '%s policy with moduli %s, %s banner, %s' % (style_name, list(moduli), banner_sw.split('_')[0], gex_alg.rsplit('-', 1)[1])
                    if want is None or (want is not None and want <= 0):
                        if rec:
                            bad.append((desc, 'records %s bits although the server never hands out a modulus' % got))
                        continue
                    if len(rec) != 1 or rec[0][0] != gex_alg or got != want:
                        bad.append((desc, 'reports %s bits, the smallest modulus handed out over the probe sequence is %s (answers %s)' % (got, want, answers)))
                        continue
                    fails = [t for t in (row[1] if len(row) > 1 else []) if 'modulus' in str(t)]
                    warns = [t for t in (row[2] if len(row) > 2 else []) if 'modulus' in str(t)]
                    infos = [t for t in (row[3] if len(row) > 3 else []) if 'fallback' in str(t)]
                    if want < 2048 and not (len(fails) == 1 and str(want) in fails[0] and not warns):
                        bad.append((desc, '%d-bit modulus is not rated a failure naming the size (row %s)' % (want, row[1:])))
                    elif 2048 <= want < 3072 and not (len(warns) == 1 and not fails):
                        bad.append((desc, '%d-bit modulus is not rated a single warning (row %s)' % (want, row[1:])))
                    elif want >= 3072 and (fails or warns):
                        bad.append((desc, '%d-bit modulus carries a size note (row %s)' % (want, row[1:])))
                    if bool(infos) != want_note:
                        bad.append((desc, 'fallback note %s although the follow-up probe %s the result' % ('present' if infos else 'absent', 'changed' if want_note else 'did not change')))
    rep.floor('policies', 'server moduli policies interpreted', nmodels, 4096)
    rep.check('policies', 'the recorded modulus is the smallest the server hands out, rated by the thresholds, for %d policy x banner x algorithm models' % nmodels, not bad, gr,
              'group-exchange measurement wrong for a %s: %s [%d models deviate]' % ((bad[0][0], bad[0][1], len(bad)) if bad else ('', '', 0)), stmt='moduli policy models', sample={'rule': 'policies', 'models': nmodels})

    # ---- rule 1: threshold partition ------------------------------------------------------------------------------------
    outer = [n for n in walk_no_nested(gr) if isinstance(n, ast.If) and unparse(n.test) == 'smallest_modulus > 0' and any(isinstance(x, ast.Call) and isinstance(x.func, ast.Attribute) and x.func.attr == 'set_dh_modulus_size' for x in ast.walk(n))]
    if len(outer) != 1:
        raise AnalysisError('`if smallest_modulus > 0` block not found in GEXTest.run')
    ob = outer[0]
    chain = [n for n in ob.body if isinstance(n, ast.If) and 'smallest_modulus' in unparse(n.test) and 'openssh' not in unparse(n.test)]
    rep.check('thresholds', 'one if/elif chain rates the measured size', len(chain) == 1 and len(chain[0].orelse) == 1 and isinstance(chain[0].orelse[0], ast.If) and not chain[0].orelse[0].orelse, chain[0] if chain else ob, 'rating chain structure changed')
    if chain:
        c0, c1 = chain[0], chain[0].orelse[0] if chain[0].orelse and isinstance(chain[0].orelse[0], ast.If) else None
        sizes = [1, 512, 1024, 2047, 2048, 2049, 3071, 3072, 3073, 4096, 8192]
        for m in sizes:
            env = {'smallest_modulus': m}
            b0 = bool(ev(c0.test, env))
            b1 = (not b0) and c1 is not None and bool(ev(c1.test, env))
            rep.evals(2)
            want = 'fail' if m < 2048 else 'warn' if m < 3072 else 'none'
            got = 'fail-branch' if b0 else 'warn-branch' if b1 else 'none'
            rep.check('thresholds', 'modulus %d selects %s' % (m, want), got.startswith(want), c0, 'a %d-bit modulus takes the %s (documented: %s)' % (m, got, want))
        # branch contents
        t0 = unparse(c0)
        fail_text = [n for n in walk_no_nested(c0) if isinstance(n, ast.Assign) and unparse(n.targets[0]) == 'text' and n in c0.body]
        ok = len(fail_text) == 1 and unparse(fail_text[0].value) == "'using small %d-bit modulus' % smallest_modulus"
        rep.check('thresholds', 'failure text names the measured size', ok, fail_text[0] if fail_text else c0, 'failure text changed')
        inner = [n for n in c0.body if isinstance(n, ast.If)]
        ok = len(inner) == 1 and unparse(inner[0].test) == 'len(lst) == 1' and [unparse(s) for s in inner[0].body] == ['lst.append([text])'] and [unparse(s) for s in inner[0].orelse] == ['del lst[1]', 'lst.insert(1, [text])']
        rep.check('thresholds', 'failure text becomes row 1 (appended when the entry has only its version row, else it replaces row 1)', ok, inner[0] if inner else c0, 'row-1 edit changed: %s' % ([unparse(s) for s in inner[0].body + inner[0].orelse] if inner else '?'))
        if c1 is not None:
            grow = [n for n in c1.body if isinstance(n, ast.While)]
            okg = len(grow) == 1 and unparse(grow[0].test) == 'len(lst) < 3' and [unparse(s) for s in grow[0].body] == ['lst.append([])']
            wt = [n for n in c1.body if isinstance(n, ast.Assign) and unparse(n.targets[0]) == 'text']
            okw = len(wt) == 1 and isinstance(wt[0].value, ast.Constant) and '2048-bit modulus' in wt[0].value.value
            once = [n for n in c1.body if isinstance(n, ast.If) and unparse(n.test) == 'text not in lst[2]' and [unparse(s) for s in n.body] == ['lst[2].append(text)']]
            rep.check('thresholds', 'the 2048-bit warning is placed in row 2 exactly once (row created first)', okg and okw and len(once) == 1 and grow[0].lineno < once[0].lineno, c1, 'row-2 warning edit changed')
    lst = [n for n in walk_no_nested(gr) if isinstance(n, ast.Assign) and unparse(n.targets[0]) == 'lst']
    rep.check('thresholds', 'the entry edited is the per-thread table row of the probed algorithm', len(lst) == 1 and unparse(lst[0].value) == "SSH2_KexDB.get_db()['kex'][gex_alg]" and lst[0] in ob.body, lst[0] if lst else gr, 'edited row: %s' % (unparse(lst[0].value) if lst else '?'))

    # ---- rule 2: size only when measured -----------------------------------------------------------------------------------
    sets = [n for m in repo.modules.values() for n in ast.walk(m.tree) if isinstance(n, ast.Call) and isinstance(n.func, ast.Attribute) and n.func.attr == 'set_dh_modulus_size']
    rep.check('measured', 'set_dh_modulus_size has exactly one call site', len(sets) == 1 and sets[0]._func is gr, sets[0] if sets else gr, 'set_dh_modulus_size call sites: %d' % len(sets))
    if sets:
        pcs = [(unparse(t), p) for t, p, k in path_condition(sets[0]) if k == 'if']
        rep.check('measured', 'the size is recorded only when smallest_modulus > 0', ('smallest_modulus > 0', True) in pcs, sets[0], 'size recorded under %s' % pcs)
        rep.check('measured', 'the recorded size is the measured one, for the probed algorithm', [unparse(a) for a in sets[0].args] == ['gex_alg', 'smallest_modulus'], sets[0], 'set_dh_modulus_size arguments: %s' % [unparse(a) for a in sets[0].args])
    sm = [n for n in walk_no_nested(si) if isinstance(n, ast.Assign) and unparse(n.targets[0]) == 'smallest_modulus']
    vals = sorted(unparse(n.value) for n in sm)
    rep.check('measured', '_send_init: size starts at the sentinel -1 and is only set from get_dh_modulus_size()', vals == ['-1', 'kex_group.get_dh_modulus_size()'], sm[0] if sm else si, 'definitions of the returned size: %s' % vals)
    init = [n for n in sm if unparse(n.value) == '-1']
    rep.check('measured', 'the sentinel is non-positive and assigned before the try', bool(init) and init[0] in si.body, si, 'sentinel initialisation moved')
    tr = [n for n in si.body if isinstance(n, ast.Try)]
    ok = len(tr) == 1
    if ok:
        c = CFG(si)
        meas = c.stmts_matching(lambda st: isinstance(st, ast.Assign) and unparse(st.targets[0]) == 'smallest_modulus' and 'get_dh_modulus_size' in unparse(st.value))
        send = c.stmts_matching(lambda st: isinstance(st, ast.Expr) and 'kex_group.send_init_gex(' in unparse(st))
        recv = c.stmts_matching(lambda st: isinstance(st, ast.Expr) and 'kex_group.recv_reply(' in unparse(st))
        rep.floor('measured', 'measurement statement', len(meas), 1)
        ok1 = c.always_before(meas, send) and c.always_before(meas, recv)
        rep.check('measured', 'the size is read only after the GEX request and the reply parse succeeded', ok1, meas[0].stmt, 'modulus size read before the exchange completed')
        in_try = all(any(m.stmt is x for x in ast.walk(tr[0])) for m in meas + send + recv)
        rep.check('measured', 'request, reply and measurement are inside the try block', in_try, tr[0], 'measurement outside the try')
        hs = tr[0].handlers
        for h in hs:
            assigns = [n for n in ast.walk(h) if isinstance(n, ast.Assign) and unparse(n.targets[0]) == 'smallest_modulus']
            rep.check('measured', 'the exception handler leaves the sentinel', not assigns, h, 'handler sets a size: %s' % [unparse(a) for a in assigns])
        fin = [unparse(s) for s in tr[0].finalbody]
        rep.check('measured', 'the connection is closed in finally', fin == ['s.close()'], tr[0], 'finally body: %s' % fin)
        rf = [n for n in walk_no_nested(si) if isinstance(n, ast.Assign) and unparse(n) == 'reconnect_failed = True']
        okr = len(rf) == 1 and any('GEXTest.reconnect(' in unparse(t) and 'is False' in unparse(t) and p for t, p, k in path_condition(rf[0]))
        rep.check('measured', 'a failed reconnect sets the flag and measures nothing', okr and not any(m.stmt in rf[0]._parent.body for m in meas), rf[0] if rf else si, 'reconnect-failure branch changed')
    rets = [r for r in walk_no_nested(si) if isinstance(r, ast.Return)]
    rep.check('measured', '_send_init returns (size, reconnect_failed)', len(rets) == 1 and unparse(rets[0].value) == '(smallest_modulus, reconnect_failed)', si, '_send_init return changed')
    sg = repo.func('kexdh', 'KexGroupExchange.send_init_gex')
    rep.saw(sg)
    chk = [n for n in walk_no_nested(sg) if isinstance(n, ast.If) and 'packet_type not in' in unparse(n.test)]
    ok = len(chk) == 1 and unparse(chk[0].test) == 'packet_type not in [Protocol.MSG_KEXDH_GEX_GROUP, Protocol.MSG_DEBUG]' and isinstance(chk[0].body[-1], ast.Raise) and 'KexDHException' in unparse(chk[0].body[-1])
    rep.check('measured', 'send_init_gex raises KexDHException unless the reply is the group message (or a debug message)', ok, chk[0] if chk else sg, 'message type check changed')
    sp = [n for n in walk_no_nested(sg) if isinstance(n, ast.Call) and 'set_params' in unparse(n.func)]
    ok = len(sp) == 1 and [unparse(a) for a in sp[0].args] == ['g', 'p']
    pd = [n for n in walk_no_nested(sg) if isinstance(n, ast.Assign) and unparse(n.targets[0]) == 'p']
    ok = ok and len(pd) == 1 and 'payload[ptr:ptr + p_len]' in unparse(pd[0].value)
    rep.check('measured', 'the modulus is set only from the parsed group message', ok, sp[0] if sp else sg, 'set_params source changed')
    gm = repo.func('kexdh', 'KexDH.get_dh_modulus_size')
    r = [x for x in walk_no_nested(gm) if isinstance(x, ast.Return)]
    rep.check('measured', 'get_dh_modulus_size is the bit length of the stored modulus', len(r) == 1 and unparse(r[0].value) in ('len(bin(self.__p)) - 2', 'self.__p.bit_length()'), gm, 'get_dh_modulus_size returns %s' % (unparse(r[0].value) if r else '?'))
    # every NORMAL return of send_init_gex has passed set_params(g, p) with the freshly parsed group: a probe that got no
    # group must leave through an exception, otherwise _send_init reads the modulus of the previous probe
    csg = CFG(sg, exc_edges=False)
    gates = csg.stmts_matching(lambda st: isinstance(st, ast.Expr) and 'set_params(g, p)' in unparse(st))
    pth = csg.find_path([csg.entry], [csg.exit], avoid=gates)
    rep.check('measured', 'send_init_gex returns normally only after setting the modulus from the group it just parsed', pth is None and bool(gates), sg,
              'send_init_gex can return without a freshly parsed group (e.g. when the peer hangs up after the request): the key-exchange object keeps the previous probe\'s modulus and _send_init reports it as measured',
              witness=describe_path(pth) if pth else None)
    spf = repo.func('kexdh', 'KexDH.set_params')
    rep.check('measured', 'set_params stores p', 'self.__p = p' in unparse(spf), spf, 'set_params changed')

    # ---- rule 3: probe sequence ------------------------------------------------------------------------------------------------
    # (the probe sizes, their order, the early exit, the OpenSSH follow-up and the fallback note are decided semantically by rule 5 below -- the
    #  earlier text rules on the literal list and the spelling of the early-exit test were removed: they alarmed on equivalent respellings)
    calls = sorted([n for n in walk_no_nested(gr) if isinstance(n, ast.Call) and call_name(n) == 'GEXTest._send_init'], key=lambda n: n.lineno)
    rep.floor('probes', 'probe call sites in GEXTest.run', len(calls), 2)
    for c in calls:
        rep.check('probes', 'probe uses the audit socket, the probed algorithm and its key-exchange object', [unparse(a) for a in c.args[:5]] == ['out', 's', 'kex_group', 'kex', 'gex_alg'], c, 'probe call arguments changed')
    kg = [n for n in walk_no_nested(gr) if isinstance(n, ast.Assign) and unparse(n.targets[0]) == 'kex_group']
    rep.check('probes', 'a fresh key-exchange object per algorithm', len(kg) == 1 and unparse(kg[0].value) == 'kex_group_class(out)', kg[0] if kg else gr, 'kex_group construction changed')

    # ---- rule 4: OpenSSH 2048 note and suppression -----------------------------------------------------------------------------
    ppf = repo.func('ssh_audit', 'post_process_findings')
    rep.saw(ppf)
    sup = [n for n in walk_no_nested(ppf) if isinstance(n, ast.Call) and unparse(n.func) == 'algorithm_recommendation_suppress_list.append']
    rep.check('openssh-note', 'one suppression site for the GEX fallback', len(sup) == 1 and unparse(sup[0].args[0]) == "'diffie-hellman-group-exchange-sha256'", sup[0] if sup else ppf, 'suppression site changed')
    if sup:
        conds = [(t, p) for t, p, k in path_condition(sup[0]) if k == 'if']
        A = 'diffie-hellman-group-exchange-sha256'
        table = {
            'algs.ssh2kex is not None': 'kexp', "'%s' in algs.ssh2kex.kex_algorithms" % A: 'offered', "'%s' in algs.ssh2kex.dh_modulus_sizes()" % A: 'recorded',
            "algs.ssh2kex.dh_modulus_sizes()['%s'] == 2048" % A: 'is2048', 'banner is not None': 'banner', 'banner.software is not None': 'software', "banner.software.find('OpenSSH') != -1": 'openssh',
        }
        atz = text_atomizer(table)
        atoms = ['kexp', 'offered', 'recorded', 'is2048', 'banner', 'software', 'openssh']
        bad = []
        for bits in itertools.product([False, True], repeat=len(atoms)):
            v = dict(zip(atoms, bits))
            got = all(eval_prop(t, atz, v) == p for t, p in conds)
            rep.evals()
            if got != all(bits):
                bad.append(v)
        rep.check('openssh-note', 'note + suppression fire exactly when the algorithm is offered, measured at 2048 and the banner says OpenSSH (128 rows)', not bad, sup[0], 'OpenSSH fallback note fires under %s' % (bad[0] if bad else ''))
        blk = sup[0]._parent._parent.body
        noted = any("db['kex']['%s'][3].append(" % A in unparse(s) for s in blk)
        rep.check('openssh-note', 'the bugzilla note is an info note (row 3) of the same algorithm, added in the same block', noted, sup[0], 'note placement changed')

    # ---- the table the notes are written to is private to the scan (shared rule, props/_dbcopy.py) ----------------------------------------
    from props import _dbcopy
    from sa.consteval import ConstEnv as _CE2
    _dbcopy.check_private_copy(repo, rep, 'private-table', _CE2(repo), 'the 2048-bit modulus warning appended for one target stays on the master table and is shown for every later target whatever modulus it hands out')
