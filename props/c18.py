"""C18 -- the tool connects to, and reports on, exactly the target that was named."""
import ast
import itertools

from sa.core import AnalysisError, unparse, walk_no_nested, stmt_text, call_name, bind_args, attr_chain, func_id, get_kw
from sa.logic import path_condition
from sa.abseval import ev, Unknown, track_block, Opaque
from sa.callgraph import CallGraph

EXPL = ('Decides the provenance chain from the written target to the dialled endpoint and to the labels: (1) (host, port) from Utils.parse_host_and_port or the host argument + -p reach the configuration object, the SSH_Socket '
        'constructor, its private fields, getaddrinfo() and the connect() of the yielded address; no other connect exists on the audit path except the rate test, which dials (resolve(aconf.host), aconf.port); probes reuse the same socket object; '
        '(2) the text/JSON/policy labels are built from the same aconf.host/aconf.port (bracket form iff IPv6, port suffix iff port != 22 -- abstractly evaluated over the 4 cases); (3) the three port guards reject exactly port < 1 or > 65535 '
        '(evaluated at 0, 1, 65535, 65536) and no store bypasses the validating setter; (4) targets-file entries are filtered and parsed on the same normalised value, with -p as default port; (5) the address-family selection table of '
        'SSH_Socket._resolve over the five legal preference lists, and agreement of the rate test\'s resolver with it. Not decided: string-level splitting of every target spelling and the OS resolver.')


def assigned(func, name):
    out = []
    for n in walk_no_nested(func):
        if isinstance(n, ast.Assign) and any(unparse(t) == name or (isinstance(t, ast.Tuple) and name in [unparse(e) for e in t.elts]) for t in n.targets):
            out.append(n)
        elif isinstance(n, ast.AnnAssign) and n.value is not None and unparse(n.target) == name:
            out.append(n)
    return out


def run(repo, rep, tier):
    rep.explanation = EXPL
    au = repo.func('ssh_audit', 'audit')
    mn = repo.func('ssh_audit', 'main')
    tw = repo.func('ssh_audit', 'target_worker_thread')
    pc = repo.func('ssh_audit', 'process_commandline')
    sinit = repo.func('ssh_socket', 'SSH_Socket.__init__')
    res = repo.func('ssh_socket', 'SSH_Socket._resolve')
    conn = repo.func('ssh_socket', 'SSH_Socket.connect')
    for f in (au, mn, tw, pc, sinit, res, conn):
        rep.saw(f)

    # ---- rule 1: dial provenance --------------------------------------------------------------------------------------
    socks = [n for n in walk_no_nested(au) if isinstance(n, ast.Call) and call_name(n) == 'SSH_Socket']
    rep.floor('dial', 'SSH_Socket construction in audit', len(socks), 1)
    for c in socks:
        b = bind_args(c, sinit, skip_self=True)
        rep.check('dial', 'audit dials aconf.host:aconf.port', unparse(b.get('host')) == 'aconf.host' and unparse(b.get('port')) == 'aconf.port', c, 'socket constructed for %s:%s' % (unparse(b.get('host')), unparse(b.get('port'))),
                  sample={'rule': 'dial', 'step': 'audit -> SSH_Socket', 'host': unparse(b.get('host')), 'port': unparse(b.get('port'))})
        rep.check('dial', 'audit passes the IP-version preference', unparse(b.get('ip_version_preference')) == 'aconf.ip_version_preference', c, 'ip_version_preference not forwarded')
    hf = [n for n in walk_no_nested(sinit) if isinstance(n, ast.Assign) and unparse(n.targets[0]) == 'self.__host']
    pf = [n for n in walk_no_nested(sinit) if isinstance(n, ast.Assign) and unparse(n.targets[0]) == 'self.__port']
    npd = [n for n in walk_no_nested(sinit) if isinstance(n, ast.Assign) and unparse(n.targets[0]) == 'nport']
    ok = len(hf) == 1 and unparse(hf[0].value) == 'host' and len(pf) == 1 and unparse(pf[0].value) == 'nport' and len(npd) == 1 and unparse(npd[0].value) == 'Utils.parse_int(port)'
    rep.check('dial', 'constructor stores host and validated port in its private fields', ok, sinit, 'SSH_Socket.__init__ field stores changed')
    ipf = [n for n in walk_no_nested(sinit) if isinstance(n, ast.Assign) and unparse(n.targets[0]) == 'self.__ip_version_preference']
    rep.check('dial', 'constructor stores the preference list', len(ipf) == 1 and unparse(ipf[0].value) == 'ip_version_preference', sinit, 'preference list store changed')
    # no other writer of the private host/port
    scls = repo.cls('ssh_socket', 'SSH_Socket')
    for n in ast.walk(scls):
        if isinstance(n, ast.Attribute) and n.attr in ('__host', '__port') and isinstance(n.ctx, ast.Store) and n._func is not sinit:
            rep.check('dial', 'host/port fields are only set by the constructor', False, n, 'SSH_Socket.%s rebound in %s' % (n.attr, n._func.name))
    gai = [n for n in walk_no_nested(res) if isinstance(n, ast.Call) and unparse(n.func) == 'socket.getaddrinfo']
    ok = len(gai) == 1 and [unparse(a) for a in gai[0].args[:2]] == ['self.__host', 'self.__port']
    rep.check('dial', 'resolution asks for exactly the stored host and port', ok, gai[0] if gai else res, 'getaddrinfo called with %s' % ([unparse(a) for a in gai[0].args] if gai else '?'))
    if ok:
        rv = [n for n in walk_no_nested(res) if isinstance(n, ast.Assign) and unparse(n.value) == unparse(gai[0])]
        rname = unparse(rv[0].targets[0]) if rv else None
        from sa.logic import implied_atoms as _ia18
        # every yield of the resolver: (family, sockaddr) of one 5-tuple of the result list, under "socket type is SOCK_STREAM" -- written as a loop with an if,
        # a loop with a `continue` guard, or `yield from` a generator expression
        found = []
        for y in walk_no_nested(res):
            if isinstance(y, ast.Yield):
                lp_ = y
                while lp_ is not None and not (isinstance(lp_, ast.For) and unparse(lp_.iter) == rname):
                    lp_ = getattr(lp_, '_parent', None)
                if lp_ is None or not (isinstance(lp_.target, ast.Tuple) and len(lp_.target.elts) == 5):
                    found.append((y, False))
                    continue
                names = [unparse(e) for e in lp_.target.elts]
                atoms = {(unparse(t), p) for t, p in _ia18(path_condition(y, stop=lp_))}
                stream = bool(atoms & {('%s == socket.SOCK_STREAM' % names[1], True), ('%s != socket.SOCK_STREAM' % names[1], False)})
                found.append((y, y.value is not None and unparse(y.value) == '(%s, %s)' % (names[0], names[4]) and stream))
            elif isinstance(y, ast.YieldFrom):
                g = y.value
                okg = isinstance(g, ast.GeneratorExp) and len(g.generators) == 1 and unparse(g.generators[0].iter) == rname and isinstance(g.generators[0].target, ast.Tuple) and len(g.generators[0].target.elts) == 5
                if okg:
                    names = [unparse(e) for e in g.generators[0].target.elts]
                    atoms = {(unparse(t), p) for t, p in _ia18([(c_, True, 'comp') for c_ in g.generators[0].ifs])}
                    okg = unparse(g.elt) == '(%s, %s)' % (names[0], names[4]) and bool(atoms & {('%s == socket.SOCK_STREAM' % names[1], True), ('%s != socket.SOCK_STREAM' % names[1], False)})
                found.append((y, okg))
        ok2 = len(found) == 1 and found[0][1]
        rep.check('dial', 'the resolver yields (family, sockaddr) of stream results only, in result order', ok2, found[0][0] if found else res, 'yield of _resolve changed')
        others = [n for n in walk_no_nested(res) if isinstance(n, ast.Assign) and unparse(n.targets[0]) == rname and n not in rv]
        for o in others:
            v = o.value
            okk = isinstance(v, ast.Call) and isinstance(v.func, ast.Name) and v.func.id == 'sorted' and unparse(v.args[0]) == rname
            rep.check('dial', 'the result list is only re-ordered, never replaced or filtered', okk, o, 'resolver results rewritten by %s' % unparse(v)[:60])
    lp = [n for n in walk_no_nested(conn) if isinstance(n, ast.For) and unparse(n.iter) == 'self._resolve()']
    ok = len(lp) == 1 and isinstance(lp[0].target, ast.Tuple) and len(lp[0].target.elts) == 2
    if ok:
        af, addr = [unparse(e) for e in lp[0].target.elts]
        cs = [n for n in walk_no_nested(lp[0]) if isinstance(n, ast.Call) and isinstance(n.func, ast.Attribute) and n.func.attr in ('connect', 'connect_ex')]
        ok = len(cs) == 1 and unparse(cs[0].args[0]) == addr
        sk = [n for n in walk_no_nested(lp[0]) if isinstance(n, ast.Call) and unparse(n.func) == 'socket.socket']
        ok = ok and len(sk) == 1 and unparse(sk[0].args[0]) == af
    rep.check('dial', 'connect() dials the yielded sockaddr with a socket of the yielded family', ok, lp[0] if lp else conn, 'connect loop changed')
    # every connect-like call in the package
    cg = CallGraph(repo)
    reach = cg.reachable([au])
    dialers = []
    for f in reach:
        for n in walk_no_nested(f):
            if isinstance(n, ast.Call) and isinstance(n.func, ast.Attribute) and n.func.attr in ('connect', 'connect_ex', 'create_connection') and cg.sym.type_of(n.func.value, f) != 'SSH_Socket':
                dialers.append((f, n))
    allowed = {'ssh_socket:SSH_Socket.connect', 'dheat:DHEat._dh_rate_test', 'dheat:DHEat._worker_process'}
    for f, n in dialers:
        fid = func_id(f)
        rep.check('dial', 'connect call in %s is a known dial site' % fid, fid in allowed, n, 'new connection site %s in %s' % (unparse(n)[:60], fid))
        if fid == 'dheat:DHEat._dh_rate_test':
            ok = unparse(n.args[0]) == '(target_ip_address, aconf.port)'
            rep.check('dial', 'rate test dials (resolved aconf.host, aconf.port)', ok, n, 'rate test dials %s' % unparse(n.args[0]))
    rt = repo.func('dheat', 'DHEat._dh_rate_test')
    rs = [n for n in walk_no_nested(rt) if isinstance(n, ast.Assign) and isinstance(n.value, ast.Call) and unparse(n.value.func) == 'DHEat._resolve_hostname']
    ok = len(rs) == 1 and [unparse(a) for a in rs[0].value.args] == ['aconf.host', 'aconf.ip_version_preference'] and unparse(rs[0].targets[0]) == '(target_address_family, target_ip_address)'
    rep.check('dial', 'rate test resolves aconf.host with the same preference', ok, rs[0] if rs else rt, 'rate test resolution changed')
    # probes reuse the audit's socket: no SSH_Socket construction in the probe modules
    for modname in ('hostkeytest', 'gextest', 'kexdh'):
        for n in ast.walk(repo.mod(modname).tree):
            if isinstance(n, ast.Call) and call_name(n) == 'SSH_Socket':
                rep.check('dial', 'probes reuse the audit socket', False, n, 'probe module %s constructs its own SSH_Socket' % modname)
    for call, fq in (('HostKeyTest.run', 'audit'), ('GEXTest.run', 'audit')):
        cs = [n for n in walk_no_nested(au) if isinstance(n, ast.Call) and call_name(n) == call]
        rep.check('dial', '%s receives the audit socket' % call, len(cs) == 1 and unparse(cs[0].args[1]) == 's', cs[0] if cs else au, '%s not called with the audit socket' % call)
    # worker / main / command line
    hs = [n for n in walk_no_nested(tw) if isinstance(n, ast.Assign) and unparse(n.targets[0]) in ('my_aconf.host', 'my_aconf.port')]
    ok = sorted((unparse(n.targets[0]), unparse(n.value)) for n in hs) == [('my_aconf.host', 'host'), ('my_aconf.port', 'port')]
    rep.check('dial', 'worker configures its copy with the task\'s host and port', ok, tw, 'worker host/port stores: %s' % [(unparse(n.targets[0]), unparse(n.value)) for n in hs])
    # main() interpreted for a targets file of three entries (props/_mainloop.py): every entry is parsed by Utils.parse_host_and_port with the -p value as the
    # default port, and the task submitted for it receives exactly the (host, port) that parse returned, in that order -- loops, comprehensions, unpacking alike
    from props import _mainloop
    entries = ['alpha.example', '[::1]:2200', 'beta.example:2022']
    r = _mainloop.run(repo, [0, 0, 0], False, targets=entries, parse=lambda v, dp: ('H<%s>' % v, 'P<%s|%s>' % (v, dp)), port=2222)
    rep.evals()
    rep.check('dial', 'every entry of the target list is parsed', [v for v, dp in r['parsed']] == entries, mn, 'target entries parsed: %s (listed: %s)' % ([v for v, dp in r['parsed']], entries), stmt='targets parsed')
    rep.check('targets-file', 'the -p value is the default port for entries without one', all(dp == 2222 for v, dp in r['parsed']) and bool(r['parsed']), mn, 'default_port passed to parse_host_and_port: %s (the -p value is 2222)' % [dp for v, dp in r['parsed']], stmt='default port')
    want = [('H<%s>' % v, 'P<%s|%s>' % (v, 2222)) for v in entries]
    # the same host listed with two ports (and twice with the same port) is scanned once per entry
    ent2 = ['alpha.example:22', 'alpha.example:2222', 'beta.example', 'beta.example']
    r2 = _mainloop.run(repo, [0, 0, 0, 0], False, targets=ent2, parse=lambda v, dp: (v.split(':')[0], int(v.split(':')[1]) if ':' in v else dp), port=22)
    rep.evals()
    rep.check('dial', 'every listed entry gets its own scan, also when a host is listed with several ports', r2['submitted'] == [('alpha.example', 22), ('alpha.example', 2222), ('beta.example', 22), ('beta.example', 22)], mn,
              'for the entries %s the tasks submitted are %s' % (ent2, r2['submitted']), stmt='one scan per entry')
    rep.check('dial', 'each task receives the host and the port of the parsed pair it stands for, in that order', r['submitted'] == want, mn, 'tasks submitted with (host, port) = %s, the parsed pairs are %s' % (r['submitted'], want), stmt='tasks per parsed pair')
    # command line: the statements aconf.host / aconf.port depend on are sliced out of process_commandline and interpreted (props/_cmdline.py) for every
    # combination of positional target, -p, client audit: the target is split by Utils.parse_host_and_port with the -p value (else 22) as the default port
    # and both parts are stored -- a port written in the target itself wins over -p, as in a targets file; the -p value must lie in 1..65535; a client audit
    # listens on 2222 unless -p says otherwise; a missing host is rejected
    from props import _cmdline
    P_ = lambda v, dp: (('H<%s>' % v) if v else '', 'P<%s|default %s>' % (v, dp))       # noqa: E731 -- marker for "what parse_host_and_port returned for v with that default port"
    cases = [(('h', None, False), ('H<h>', 'P<h|default 22>')), (('h:2022', None, False), ('H<h:2022>', 'P<h:2022|default 22>')), (('[::1]:2022', None, False), ('H<[::1]:2022>', 'P<[::1]:2022|default 22>')),
             (('h', '2222', False), ('H<h>', 'P<h|default 2222>')), (('h:1', '2', False), ('H<h:1>', 'P<h:1|default 2>')), (('[::1]:2022', '2222', False), ('H<[::1]:2022>', 'P<[::1]:2022|default 2222>')),
             (('h', '65535', False), ('H<h>', 'P<h|default 65535>')),
             (('', None, False), ('exit', None)), (('h', '0', False), ('exit', None)), (('h', '65536', False), ('exit', None)), (('h', '-5', False), ('exit', None)), (('', '2222', False), ('exit', None)),
             (('', None, True), ('', 2222)), (('', '2200', True), ('', 2200)), (('', '0', True), ('exit', None))]
    badc = []
    for (host_arg, oport, client), want in cases:
        got = _cmdline.hostport(repo, host_arg, oport, client_audit=client, parse=P_)
        rep.evals()
        if got != want:
            badc.append('target %r%s%s -> host/port %r, expected %r' % (host_arg, ' -p %s' % oport if oport is not None else '', ' (client audit)' if client else '', got, want))
    rep.check('dial', 'command line: host and port stored are the target parsed with the -p value (1..65535, else 22) as default port; client audits default to 2222 (%d cases)' % len(cases), not badc, pc,
              'command-line target selection changed -- %s' % (badc[0] if badc else ''), stmt='command line host/port')

    # ---- rule 2: labels --------------------------------------------------------------------------------------------------
    # output() (with the target line requested) and evaluate_policy() interpreted for host H, ports 22 / 2222, IPv4-style and IPv6 host (props/_sections.py):
    # the target / Host line shows H for the default port, H:2222 otherwise, [H]:2222 for an IPv6 literal
    from props import _sections as _sec
    outf = repo.func('ssh_audit', 'output')
    ep = repo.func('ssh_audit', 'evaluate_policy')
    for funcname, marker, what, fnode in (('output', 'target', 'text target', outf), ('evaluate_policy', 'Host', 'policy Host', ep)):
        for ipv6, port in itertools.product([False, True], [22, 2222]):
            lines = [l for l in _sec.printed_lines(repo, funcname, 'H', port, ipv6) if isinstance(l, str) and marker in l]
            rep.evals()
            want = 'H' if port == 22 else ('[H]:2222' if ipv6 else 'H:2222')
            got = lines[0].split(':', 1)[1].strip() if lines else None
            rep.check('label', '%s: ipv6=%s port=%d -> %s' % (what, ipv6, port, want), len(lines) == 1 and got == want, fnode, '%s label for ipv6=%s port=%d is %r, expected %r' % (what, ipv6, port, got, want), stmt='%s label ipv6=%s port=%d' % (what, ipv6, port))
    js = [n for n in walk_no_nested(ep) if isinstance(n, ast.Assign) and unparse(n.targets[0]) == 'json_struct' and isinstance(n.value, ast.Dict)]
    ok = False
    if js:
        d = dict(zip([k.value for k in js[0].value.keys], [unparse(v) for v in js[0].value.values]))
        ok = d.get('host') == 'aconf.host' and d.get('port') == 'aconf.port'
    rep.check('label', 'policy JSON carries aconf.host and aconf.port', ok, js[0] if js else ep, 'policy JSON host/port changed')
    # JSON target label, by interpretation (props/_sections.py): output() in JSON mode for host 'h', port 22 hands build_struct the label 'h:22', and build_struct
    # stores the label it is given under 'target' (server audits)
    from props import _sections
    for port_ in (22, 2222, 1, 65535):
        res_ = _sections.run_output(repo, 2, True, port=port_)
        lab = [j_.get('target_host') for r_ in res_ for j_ in r_['json']]
        rep.evals()
        rep.check('label', 'JSON target is aconf.host:aconf.port (port %d)' % port_, lab == ['h:%d' % port_], outf, 'JSON target label is %s for host h port %d' % (lab, port_), stmt='json target label')
    bs = repo.func('ssh_audit', 'build_struct')
    st_, _l = _sections.run_build_struct(repo, 2)
    rep.check('label', 'JSON target field is that label', st_.get('target') == 'h:22' and 'client_ip' not in st_, bs, 'res[target] is %r for the label h:22' % (st_.get('target'),), stmt='json target field')

    # ---- rule 3: port range -------------------------------------------------------------------------------------------------
    def port_guard(func, var, what):
        gs = [n for n in walk_no_nested(func) if isinstance(n, ast.If) and var in [x.id for x in ast.walk(n.test) if isinstance(x, ast.Name)] and '65535' in unparse(n.test)]
        rep.check('port', '%s has a port range guard' % what, len(gs) == 1, gs[0] if gs else func, '%s: %d port range guards' % (what, len(gs)))
        for g in gs:
            rej = isinstance(g.body[-1], ast.Raise) or (isinstance(g.body[-1], ast.Expr) and unparse(g.body[-1].value.func) == 'sys.exit')
            rep.check('port', '%s: out-of-range port is rejected (raise / exit)' % what, rej, g, '%s: range guard does not reject' % what)
            for v in (0, 1, 65535, 65536, -5):
                got = bool(ev(g.test, {var: v}))
                rep.evals()
                rep.check('port', '%s: port %d %s' % (what, v, 'rejected' if (v < 1 or v > 65535) else 'accepted'), got == (v < 1 or v > 65535), g, '%s: port %d is %s' % (what, v, 'rejected' if got else 'accepted'))
        return gs
    gpc = port_guard(pc, 'port', 'process_commandline')
    # the -p range check (and the use of the -p value) must be reached for EVERY value given with -p, including 0:
    # conditions over the option value are evaluated for oport in {None, 0, 22, 70000}
    from sa.slicer import uses as _uses
    for g in gpc:
        for v in (None, 0, 22, 70000):
            reach_ = True
            for t, p, k in path_condition(g):
                if k in ('if', 'guard') and _uses(t) <= {'oport'}:
                    try:
                        if bool(ev(t, {'oport': v})) != p:
                            reach_ = False
                    except Unknown:
                        raise AnalysisError('condition on the -p value not interpretable: %s' % unparse(t))
            rep.evals()
            rep.check('port', 'command line: the range check is %s for -p %r' % ('reached' if v is not None else 'skipped (no -p)', v), reach_ == (v is not None), g,
                      'with -p %r the port range check is %s: the option value is tested for truthiness, so -p 0 is silently treated as "no port given" and the default port is dialled' % (v, 'reached' if reach_ else 'skipped'))
        # the value checked is the -p value
        pdefs = [n for n in walk_no_nested(pc) if isinstance(n, ast.Assign) and unparse(n.targets[0]) == 'port' and unparse(n.value) == 'Utils.parse_int(oport)']
        rep.check('port', 'the checked port is the -p value', len(pdefs) == 1 and pdefs[0].lineno < g.lineno and pdefs[0]._parent is g._parent, g, 'range check no longer applies to the -p value')
    hsel = [n for n in walk_no_nested(pc) if isinstance(n, ast.If) and _uses(n.test) <= {'oport'} and any(isinstance(x, ast.Assign) and unparse(x) == 'host = argument.host' for x in n.body)]
    for n in hsel:
        for v in (None, 0, 22):
            got = bool(ev(n.test, {'oport': v}))
            rep.check('port', 'with -p %r the positional argument is %s' % (v, 'taken as the host alone' if v is not None else 'split into host and port'), got == (v is not None), n, 'host/port split decision for -p %r is wrong (truthiness test on the option value)' % v)
    sa_ = repo.func('auditconf', 'AuditConf.__setattr__')
    gsa = port_guard(sa_, 'port', 'AuditConf.__setattr__')
    if gsa:
        conds = [(unparse(t), p) for t, p, k in path_condition(gsa[0]) if k == 'if']
        rep.check('port', 'the setter validates every store to `port`', ("name == 'port'", True) in conds, gsa[0], 'setter guard is under %s' % conds)
        pdef = [n for n in walk_no_nested(sa_) if isinstance(n, ast.Assign) and 'port' in [unparse(e) for e in (n.targets[0].elts if isinstance(n.targets[0], ast.Tuple) else [n.targets[0]])]]
        rep.check('port', 'setter parses the value with Utils.parse_int', any('Utils.parse_int(value)' in unparse(n.value) for n in pdef), sa_, 'setter no longer parses the port')
    port_guard(sinit, 'nport', 'SSH_Socket.__init__')
    for m in repo.modules.values():
        for n in ast.walk(m.tree):
            if isinstance(n, ast.Call) and unparse(n.func) == 'object.__setattr__' and n._func is not sa_:
                # a copy-protocol hook that transfers the attributes of an existing (already validated) configuration attribute by attribute is not a bypass:
                # the stored values come from iterating self.__dict__ (possibly through copy.deepcopy)
                f0 = n._func
                in_copy_hook = f0 is not None and f0.name in ('__deepcopy__', '__copy__', '__setstate__') and any(isinstance(x, ast.For) and '__dict__' in unparse(x.iter) for x in ast.walk(f0))
                if in_copy_hook:
                    continue
                rep.check('port', 'no store bypasses the validating setter', False, n, 'object.__setattr__ used outside AuditConf.__setattr__')
            if isinstance(n, ast.Attribute) and n.attr == '__dict__' and n._cls is not None and n._cls.name == 'AuditConf' and not (n._func is not None and n._func.name in ('__deepcopy__', '__copy__', '__getstate__', '__setstate__', '__reduce__', '__reduce_ex__')):
                rep.check('port', 'no store bypasses the validating setter', False, n, 'AuditConf.__dict__ manipulated directly')
    # (that an out-of-range -p value is rejected before anything is stored is decided by the command-line model above: -p 0 / 65536 / -5 end in sys.exit)

    # ---- rule 4: targets file ---------------------------------------------------------------------------------------------------
    # the statement(s) that normalise the lines read from the targets file, interpreted on a file with padded, blank and whitespace-only lines: the entries
    # parsed later are the stripped non-empty lines, in order
    from sa.listinterp import Interp as _I18
    from sa.abseval import Unknown as _U18
    # the statement of process_commandline that opens the targets file is interpreted as a whole (the file object is a token that iterates over / reads the
    # raw lines), so reading and normalising may be one statement or several
    class _FileLines(list):
        def __deepcopy__(self, memo):
            return self
    opens = [n for n in walk_no_nested(pc) if isinstance(n, ast.Call) and unparse(n.func) == 'open' and n.args and unparse(n.args[0]) == 'aconf.target_file']
    rep.floor('targets-file', 'open(aconf.target_file) sites', len(opens), 1)
    blk = opens[0]
    while getattr(blk, '_parent', None) is not None and getattr(blk, '_parent', None) is not pc:
        blk = blk._parent
    tls = [blk]
    raw = ['alpha\n', '  beta:2222  \n', '\n', '   \t \n', 'gamma', '\r\n', ' [::1]:22\r\n']

    def hook_tl(call, e, interp):
        f_ = call.func
        if unparse(f_) == 'open':
            return (True, _FileLines(raw))
        if isinstance(f_, ast.Attribute) and f_.attr in ('readlines', 'read', 'close') and not call.args:
            try:
                b_ = interp.value(f_.value, e)
            except _U18:
                b_ = None
            if isinstance(b_, _FileLines):
                return (True, list(b_) if f_.attr == 'readlines' else (''.join(b_) if f_.attr == 'read' else None))
        if unparse(f_) == 'map' and len(call.args) == 2 and unparse(call.args[0]) in ('str.strip', 'str.rstrip', 'str.lstrip'):
            seq = interp.value(call.args[1], e)
            if isinstance(seq, list) and all(isinstance(x, str) for x in seq):
                return (True, [getattr(str, unparse(call.args[0]).split('.')[1])(x) for x in seq])
        if isinstance(f_, ast.Attribute) and f_.attr == 'splitlines' and not call.args:
            v_ = interp.value(f_.value, e)
            if isinstance(v_, str):
                return (True, v_.splitlines())
        return None
    try:
        fin = _I18(call_hook=hook_tl, with_targets=True, try_normal_path=True).run(tls, {'aconf': None, 'aconf.target_file': 'targets.txt', 'aconf.target_list': [], 'aconf.client_audit': False})
    except _U18 as ex:
        raise AnalysisError('targets-file normalisation cannot be interpreted: %s' % ex)
    fin = [f_ for f_ in fin if f_.get('<outcome>') not in ('raise',)]
    got_tl = fin[0].get('aconf.target_list') if len(fin) == 1 and not fin[0].get('<forks>') else None
    want_tl = ['alpha', 'beta:2222', 'gamma', '[::1]:22']
    if not isinstance(got_tl, list) or any(not isinstance(x_, str) for x_ in got_tl):
        raise AnalysisError('targets-file normalisation: the resulting target list is not computable (%r)' % (got_tl,))
    rep.check('targets-file', 'entries are whitespace-stripped, blank and whitespace-only lines are dropped, order kept', got_tl == want_tl, tls[0],
              'targets-file lines %r are normalised to %r, expected %r: a whitespace-only line survives as an empty target, or an entry keeps its padding' % (raw, got_tl, want_tl), stmt='aconf.target_list = [... if ...]')

    # ---- rule 5: address family ------------------------------------------------------------------------------------------------------
    AF = {'socket.AF_INET': 'AF_INET', 'socket.AF_INET6': 'AF_INET6', 'socket.AF_UNSPEC': 'AF_UNSPEC', 'socket.SOCK_STREAM': 'STREAM'}

    def family_table(func, prefname, what, node):
        # the statements in front of the getaddrinfo call are interpreted for every preference list; the family is what the call receives as third argument
        pre, gcall = [], None
        for st_ in func.body:
            calls_ = [x for x in ast.walk(st_) if isinstance(x, ast.Call) and unparse(x.func) == 'socket.getaddrinfo']
            if calls_:
                gcall = calls_[0]
                break
            if not (isinstance(st_, ast.Expr) and isinstance(st_.value, ast.Constant)):
                pre.append(st_)
        if gcall is None or len(gcall.args) < 3:
            raise AnalysisError('%s: getaddrinfo(host, port, family, ...) call not found' % what)

        def _res18(call):
            f_ = call.func
            if isinstance(f_, ast.Attribute) and isinstance(f_.value, ast.Name) and f_.value.id in ('self', 'cls', func._cls.name if getattr(func, '_cls', None) is not None else '') \
                    and getattr(func, '_cls', None) is not None and repo.has_func(func._module.name, '%s.%s' % (func._cls.name, f_.attr)):
                return repo.func(func._module.name, '%s.%s' % (func._cls.name, f_.attr))
            return None
        rows = {}
        for pref in ([], [4], [6], [4, 6], [6, 4]):
            env = dict(AF)
            env[prefname] = list(pref)
            env['self'] = None
            it_ = _I18(resolver=_res18)
            try:
                fin_ = it_.run(pre, env)
                if len(fin_) != 1 or fin_[0].get('<forks>'):
                    raise _U18('family selection forks on %s' % [f.get('<forks>') for f in fin_][:1])
                rows[tuple(pref)] = it_.value(gcall.args[2], fin_[0])
            except _U18 as ex:
                raise AnalysisError('%s: address family selection cannot be interpreted: %s' % (what, ex))
            rep.evals()
        want = {(): 'AF_UNSPEC', (4,): 'AF_INET', (6,): 'AF_INET6', (4, 6): 'AF_UNSPEC', (6, 4): 'AF_UNSPEC'}
        rep.check('family', '%s: address family per preference list' % what, rows == want, node, '%s family selection is %s' % (what, rows), sample={'rule': 'family', 'function': what, 'table': {str(k): v for k, v in rows.items()}})
        return rows
    family_table(res, 'self.__ip_version_preference', 'SSH_Socket._resolve', res)

    def sort_rule(func, prefname, what):
        """the statements between the getaddrinfo call and the first loop / yield, interpreted on a three-entry answer list (IPv6, IPv4, IPv6): with the two-entry
        preference [4, 6] IPv4 answers come first, with [6, 4] IPv6 answers, in both cases otherwise in the resolver's order; other preferences leave the list alone"""
        body = list(func.body)
        gi = [k for k, st_ in enumerate(body) if any(isinstance(x, ast.Call) and unparse(x.func) == 'socket.getaddrinfo' for x in ast.walk(st_))]
        if len(gi) != 1 or not isinstance(body[gi[0]], ast.Assign) or not isinstance(body[gi[0]].targets[0], ast.Name):
            return False, func
        rname_ = body[gi[0]].targets[0].id
        pre = [st_ for st_ in body[:gi[0]] if not (isinstance(st_, ast.Expr) and isinstance(st_.value, ast.Constant))]
        post = []
        for st_ in body[gi[0] + 1:]:
            if isinstance(st_, (ast.For, ast.While, ast.Return)) or any(isinstance(x, (ast.Yield, ast.YieldFrom)) for x in ast.walk(st_)):
                break
            post.append(st_)
        answers = [(10, 1, 6, '', ('::1', 22, 0, 0)), (2, 1, 6, '', ('127.0.0.1', 22)), (10, 1, 6, '', ('::2', 22, 0, 0))]
        want = {(): answers, (4,): answers, (6,): answers, (4, 6): [answers[1], answers[0], answers[2]], (6, 4): [answers[0], answers[2], answers[1]]}
        node_ = post[0] if post else func
        for pref in want:
            env = {'socket.AF_INET': 2, 'socket.AF_INET6': 10, 'socket.AF_UNSPEC': 0, 'socket.SOCK_STREAM': 1, prefname: list(pref), 'self': None}
            it_ = _I18()
            try:
                fin_ = it_.run(pre, env)
                if len(fin_) != 1 or fin_[0].get('<forks>'):
                    raise _U18('forks')
                e_ = fin_[0]
                e_[rname_] = list(answers)
                fin2 = it_.run(post, {k: v for k, v in e_.items() if not (isinstance(k, str) and k.startswith('<'))})
                if len(fin2) != 1 or fin2[0].get('<forks>'):
                    raise _U18('forks')
            except _U18 as ex:
                raise AnalysisError('%s: ordering of the resolver answers cannot be interpreted: %s' % (what, ex))
            rep.evals()
            if fin2[0].get(rname_) != want[pref]:
                return False, node_
        return True, node_
    ok, node = sort_rule(res, 'self.__ip_version_preference', '_resolve')
    rep.check('family', '_resolve: with two preferences results are ordered by family, IPv6 first iff the first preference is 6', ok, node, 'two-entry preference ordering changed in SSH_Socket._resolve')
    rh = repo.func('dheat', 'DHEat._resolve_hostname')
    rep.saw(rh)
    family_table(rh, 'ip_version_preference', 'DHEat._resolve_hostname', rh)
    ok2, node2 = sort_rule(rh, 'ip_version_preference', '_resolve_hostname')
    rep.check('family', 'the rate test\'s resolver orders two-family results like SSH_Socket._resolve', ok2, rh,
              'DHEat._resolve_hostname ignores the -46/-64 order preference: the rate test of a standard audit may dial a different address family than the audit itself', stmt='sibling of SSH_Socket._resolve ordering')
    g2 = [n for n in walk_no_nested(rh) if isinstance(n, ast.Call) and unparse(n.func) == 'socket.getaddrinfo']
    rep.check('family', 'rate test resolves the given host for stream sockets', len(g2) == 1 and unparse(g2[0].args[0]) == 'host' and unparse(g2[0].args[2]) == 'family', g2[0] if g2 else rh, 'getaddrinfo arguments changed in _resolve_hostname')
    # ip_version_preference: built only by the ipv4/ipv6 setters, at most two entries
    ap2 = [n for n in walk_no_nested(sa_) if isinstance(n, ast.Call) and unparse(n.func) == 'self.ip_version_preference.append']
    ok = len(ap2) == 1 and unparse(ap2[0].args[0]) == "4 if name == 'ipv4' else 6"
    rep.check('family', 'preference list receives 4 for -4 and 6 for -6, in option order', ok, ap2[0] if ap2 else sa_, 'preference list construction changed')
    o46 = [(n.lineno, unparse(n.targets[0])) for n in walk_no_nested(pc) if isinstance(n, ast.Assign) and unparse(n.targets[0]) in ('aconf.ipv4', 'aconf.ipv6')]
    rep.check('family', 'command line sets ipv4/ipv6 from the options', sorted(t for l, t in o46) == ['aconf.ipv4', 'aconf.ipv6'], pc, 'ipv4/ipv6 option stores changed')
    rep.note('platform assumption: socket.AF_INET < socket.AF_INET6 (used by the family sort)')
    # ---- rule 5b: the requested order (-46 vs -64, any spelling) reaches the preference list -----------------------------------------
    # argparse is modelled for the four option spellings (store_true / store_const / append_const / a custom Action whose __call__ is
    # interpreted), then the statements of process_commandline that store aconf.ipv4 / aconf.ipv6 are interpreted on the resulting
    # namespace and the validating setter AuditConf.__setattr__ is interpreted for each store, in order (sa/listinterp.py).
    from sa.listinterp import Interp
    from sa.abseval import Opaque, Unknown
    specs = {}
    for n in walk_no_nested(pc):
        if isinstance(n, ast.Call) and isinstance(n.func, ast.Attribute) and n.func.attr == 'add_argument':
            opts = [a.value for a in n.args if isinstance(a, ast.Constant) and isinstance(a.value, str)]
            if any(o in ('-4', '--ipv4', '-6', '--ipv6') for o in opts):
                kw = {k.arg: k.value for k in n.keywords}
                for o in opts:
                    specs[o] = (n, kw)
    rep.floor('family', 'IP-version option spellings declared', len(specs), 4)

    class NS(dict):
        pass

    def parse(tokens):
        ns = NS()
        for o, (n, kw) in specs.items():
            d = kw.get('dest')
            dflt = kw.get('default')
            if d is not None and isinstance(d, ast.Constant):
                ns.setdefault(d.value, dflt.value if isinstance(dflt, ast.Constant) else None)
        for tok in tokens:
            n, kw = specs[tok]
            dest = kw['dest'].value if isinstance(kw.get('dest'), ast.Constant) else tok.lstrip('-')
            act = kw.get('action')
            if isinstance(act, ast.Constant) and act.value == 'store_true':
                ns[dest] = True
            elif isinstance(act, ast.Constant) and act.value == 'store_const':
                ns[dest] = kw['const'].value
            elif isinstance(act, ast.Constant) and act.value == 'append_const':
                ns[dest] = list(ns.get(dest) or []) + [kw['const'].value]
            elif isinstance(act, ast.Constant) and act.value == 'append' or act is None:
                raise AnalysisError('IP-version option %s takes a value (action %s): not modelled' % (tok, unparse(act) if act is not None else 'store'))
            elif isinstance(act, ast.Name):
                cls = [c for (m, q), c in repo.classes().items() if m == 'ssh_audit' and q == act.id]
                if not cls:
                    raise AnalysisError('argparse action class %s not found' % act.id)
                call = [f for f in cls[0].body if isinstance(f, ast.FunctionDef) and f.name == '__call__']
                if not call:
                    raise AnalysisError('argparse action class %s has no __call__' % act.id)
                params = [a.arg for a in call[0].args.args]

                def hook(c, env, interp, ns=ns):
                    fn = c.func
                    if isinstance(fn, ast.Name) and fn.id == 'getattr' and len(c.args) in (2, 3) and isinstance(interp.value(c.args[0], env), NS):
                        key = interp.value(c.args[1], env)
                        return (True, ns.get(key, interp.value(c.args[2], env) if len(c.args) == 3 else None))
                    if isinstance(fn, ast.Name) and fn.id == 'setattr' and len(c.args) == 3 and isinstance(interp.value(c.args[0], env), NS):
                        ns[interp.value(c.args[1], env)] = interp.value(c.args[2], env)
                        return (True, None)
                    return None
                env = {params[0]: Opaque(), 'self.dest': dest, 'self.const': kw['const'].value if isinstance(kw.get('const'), ast.Constant) else None, 'self.option_strings': [o for o in specs if specs[o][0] is n]}
                for pname, val in zip(params[1:], [Opaque(), ns, None, tok]):
                    env[pname] = val
                try:
                    fin = Interp(call_hook=hook).run(call[0].body, env)
                except Unknown as ex:
                    raise AnalysisError('argparse action %s.__call__ cannot be interpreted: %s' % (act.id, ex))
                if len(fin) != 1 or fin[0].get('<forks>'):
                    raise AnalysisError('argparse action %s.__call__ depends on a condition the analysis does not model' % act.id)
            else:
                raise AnalysisError('IP-version option %s uses an action the analysis does not model: %s' % (tok, unparse(act)))
        return ns
    # the statements of process_commandline that store the two flags (and what lies between them)
    def nstores(node):
        return sum(1 for x in ast.walk(node) if isinstance(x, ast.Attribute) and isinstance(x.ctx, ast.Store) and unparse(x) in ('aconf.ipv4', 'aconf.ipv6'))
    total = nstores(pc)
    rep.floor('family', 'stores of aconf.ipv4 / aconf.ipv6 in process_commandline', total, 1)
    tops = []

    def blocks(node, depth):
        for fld in ('body', 'orelse', 'finalbody'):
            b = getattr(node, fld, None)
            if isinstance(b, list) and b and isinstance(b[0], ast.stmt):
                idx = [i for i, st in enumerate(b) if nstores(st)]
                if idx and sum(nstores(b[i]) for i in idx) == total:
                    tops.append((depth, b[min(idx):max(idx) + 1]))
                for st in b:
                    if not isinstance(st, (ast.FunctionDef, ast.ClassDef, ast.For, ast.While)):     # a loop is interpreted as a whole
                        blocks(st, depth + 1)
        for h in getattr(node, 'handlers', []) or []:
            blocks(h, depth + 1)
    blocks(pc, 0)
    if not tops:
        raise AnalysisError('no single block of process_commandline holds all stores of aconf.ipv4 / aconf.ipv6')
    tops = [max(tops, key=lambda t: t[0])[1]]
    stores_block = tops[0]
    FAM = {'-4': 4, '--ipv4': 4, '-6': 6, '--ipv6': 6}
    cases = [[], ['-4'], ['-6'], ['--ipv4'], ['--ipv6'], ['-4', '-6'], ['-6', '-4'], ['--ipv4', '--ipv6'], ['--ipv6', '--ipv4'], ['-6', '--ipv4'], ['-4', '-4'], ['-6', '-4', '-6']]
    cases = [c for c in cases if all(t in specs for t in c)]
    order_bad = []
    for toks in cases:
        ns = parse(toks)
        env = {'aconf': Opaque(), 'aconf.ipv4': False, 'aconf.ipv6': False}      # AuditConf() starts with both flags off (checked below)
        for k, v in ns.items():
            env['argument.' + k] = v
        try:
            fin = Interp(store_effects=('aconf.ipv4', 'aconf.ipv6')).run(stores_block, env)
        except Unknown as ex:
            raise AnalysisError('the ipv4/ipv6 stores of process_commandline cannot be interpreted: %s' % ex)
        if len(fin) != 1 or fin[0].get('<forks>'):
            raise AnalysisError('the ipv4/ipv6 stores depend on a condition the analysis does not model: %s' % [f.get('<forks>') for f in fin][:2])
        pref = []
        for kind, (text, value), k in [e for e in fin[0]['<effects>'] if e[0] == 'store']:
            if isinstance(value, Opaque):
                raise AnalysisError('value stored into %s is not computable' % text)
            senv = {'self': Opaque(), 'self.ip_version_preference': pref, 'name': text.split('.')[1], 'value': value}
            try:
                sfin = Interp().run(sa_.body, senv)
            except Unknown as ex:
                raise AnalysisError('AuditConf.__setattr__ cannot be interpreted: %s' % ex)
            if len(sfin) != 1:
                raise AnalysisError('AuditConf.__setattr__ forks on %s' % [f.get('<forks>') for f in sfin][:2])
        want = []
        for t in toks:
            if FAM[t] not in want:
                want.append(FAM[t])
        rep.evals()
        if pref != want:
            order_bad.append((toks, pref, want))
    ainit = repo.func('auditconf', 'AuditConf.__init__')
    flags0 = sorted(unparse(n) for n in walk_no_nested(ainit) if isinstance(n, ast.Assign) and unparse(n.targets[0]) in ('self.ipv4', 'self.ipv6'))
    rep.check('family', 'a fresh configuration has both IP-version flags off and an empty preference list', flags0 == ['self.ipv4 = False', 'self.ipv6 = False'], ainit, 'AuditConf.__init__ flag defaults: %s' % flags0)
    rep.check('family', 'the address-family preference equals the families requested, in the order their options were given (%d command lines)' % len(cases), not order_bad, stores_block[0],
              'IP-version options %s give the preference list %s, requested %s: %s' % ((' '.join(order_bad[0][0]), order_bad[0][1], order_bad[0][2],
                                                                                          'the order of -4 and -6 on the command line is lost (the documented -64 behaves like -46)' if order_bad[0][1] and sorted(order_bad[0][1]) == sorted(order_bad[0][2]) else 'a requested family is replaced or dropped') if order_bad else ('', '', '', '')),
              stmt='ip version preference order', sample={'rule': 'family', 'command_lines': len(cases)})
