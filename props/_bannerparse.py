"""Model of Banner.parse by abstract interpretation (sa/listinterp.py).  The method is interpreted on concrete identification lines; the only things evaluated
outside the interpreter are applications of the repository's *constant* regular expressions (RX_BANNER, RX_PROTOCOL, literal patterns) to those lines with the
standard `re` module -- pure library functions on constants, like the string methods the interpreter already evaluates -- and the two sanitising helpers of
Utils, which are given their documented meaning (is_print_ascii: every character in 32..126; to_print_ascii: every other character replaced by '?'; that the
helpers implement it is the obligation of rule `sanitise`).  Result: the arguments parse() passes to the Banner constructor, or None.
"""
import ast
import re

from sa.core import AnalysisError, unparse, call_name
from sa.abseval import Unknown, Opaque
from sa.listinterp import Interp


def printable(s):
    return all(32 <= ord(c) <= 126 for c in s)


def sanitised(s):
    return ''.join(c if 32 <= ord(c) <= 126 else '?' for c in s)


def parse(repo, patterns, line):
    """patterns: {'cls.RX_BANNER': pattern text, 'cls.RX_PROTOCOL': pattern text (also under 'Banner.' keys)} -> dict(protocol, software, comments, valid_ascii) | None"""
    bp = repo.func('banner', 'Banner.parse')
    bcls = repo.cls('banner', 'Banner')
    init = [s for s in bcls.body if isinstance(s, ast.FunctionDef) and s.name == '__init__'][0]
    params = [a.arg for a in bp.args.args]
    if len(params) != 2:
        raise AnalysisError('Banner.parse: expected (cls, banner) parameters, found %s' % params)
    env = {params[0]: Opaque(), params[1]: line}
    compiled = {k: re.compile(v) for k, v in patterns.items()}
    sanit_seen = []

    def rx(node, e, interp):
        t = unparse(node)
        if t in compiled:
            return compiled[t]
        try:
            v = interp.value(node, e)
        except Unknown:
            return None
        if isinstance(v, str):
            return re.compile(v)
        return v if isinstance(v, re.Pattern) else None

    def hook(call, e, interp):
        fn = call.func
        t = call_name(call) or unparse(fn)
        if t == 'Utils.is_print_ascii' and len(call.args) == 1:
            v = interp.value(call.args[0], e)
            return (True, printable(v)) if isinstance(v, str) else None
        if t == 'Utils.to_print_ascii' and len(call.args) == 1:
            v = interp.value(call.args[0], e)
            sanit_seen.append(v)
            return (True, sanitised(v)) if isinstance(v, str) else None
        if isinstance(fn, ast.Attribute) and fn.attr in ('match', 'findall', 'search', 'fullmatch', 'sub') and unparse(fn.value) in compiled:
            args = [interp.value(a, e) for a in call.args]
            if all(isinstance(a, str) for a in args):
                return (True, getattr(compiled[unparse(fn.value)], fn.attr)(*args))
        if t in ('re.findall', 're.match', 're.search', 're.fullmatch', 're.sub') and len(call.args) >= 2:
            pat = rx(call.args[0], e, interp)
            args = [interp.value(a, e) for a in call.args[1:]]
            if pat is not None and all(isinstance(a, str) for a in args):
                return (True, getattr(pat, t.split('.')[1])(*args))
        if isinstance(fn, ast.Attribute) and fn.attr in ('group', 'groups', 'start', 'end', 'span'):
            try:
                base = interp.value(fn.value, e)
            except Unknown:
                base = None
            if isinstance(base, re.Match):
                return (True, getattr(base, fn.attr)(*[interp.value(a, e) for a in call.args]))
        if isinstance(fn, ast.Name) and fn.id == 'cls':
            b = interp.bind_values(call, init, e, skip_self=True)
            return (True, ('<Banner>', b))
        return None

    def resolver(call):
        f = call.func
        if isinstance(f, ast.Attribute) and isinstance(f.value, ast.Name) and f.value.id in ('cls', 'Banner') and f.attr not in ('parse',) and repo.has_func('banner', 'Banner.' + f.attr):
            return repo.func('banner', 'Banner.' + f.attr)
        return None
    try:
        finals = Interp(call_hook=hook, resolver=resolver, budget=20000).run(bp.body, env)
    except Unknown as ex:
        raise AnalysisError('Banner.parse cannot be interpreted for %r: %s' % (line, ex))
    if len(finals) == 1 and finals[0].get('<crash>'):
        return {'<crash>': finals[0]['<crash>']}
    if len(finals) != 1 or finals[0].get('<forks>') or finals[0].get('<outcome>') != 'return':
        raise AnalysisError('Banner.parse does not evaluate on a single path for %r (forks %s)' % (line, [f.get('<forks>') for f in finals][:2]))
    r = finals[0].get('<return>')
    if r is None:
        return None
    if isinstance(r, tuple) and len(r) == 2 and r[0] == '<Banner>':
        return dict(r[1])
    raise AnalysisError('Banner.parse returns %r for %r' % (r, line))


def expected(line):
    """documented reading of an identification line (RFC 4253 4.2 + the tool's conventions): SSH-<proto>[-software][ comments]; several protocol versions may be
    listed (SSH-1.99-SSH-2.0...), the smallest is reported; characters outside printable ASCII are replaced by '?' before matching and make the line non-conformant"""
    s = sanitised(line)
    m = re.match(r'^((?:SSH-\d\.\s*?\d+)(?:-(?:SSH-\d\.\s*?\d+))*)(-?)([^\s]*)(?:\s+(.*))?$', s)
    if m is None:
        return None
    protos = re.findall(r'SSH-(\d)\.\s*?(\d+)', m.group(1))
    proto = min((int(a), int(b)) for a, b in [(x[0], x[1]) for x in protos]) if protos else None
    smallest = min(protos)
    proto = (int(smallest[0]), int(smallest[1]))
    software = (m.group(3) or '').strip() or None
    if software is None and m.group(2).startswith('-'):
        software = ''
    comments = (m.group(4) or '').strip() or None
    if comments is not None:
        comments = re.sub(r'\s+', ' ', comments)
    return {'protocol': proto, 'software': software, 'comments': comments, 'valid_ascii': printable(line)}


LINES = ['SSH-2.0-OpenSSH_8.9p1 Ubuntu-3ubuntu0.6', 'SSH-2.0-OpenSSH_9.6', 'SSH-1.99-OpenSSH_3.9p1', 'SSH-1.5-1.2.27', 'SSH-2.0-dropbear_2022.83', 'SSH-2.0', 'SSH-2.0-', 'SSH-2.0-libssh_0.10.6',
         'SSH-1.99-SSH-2.0-Cisco-1.25', 'SSH-2.0-OpenSSH_7.4   FreeBSD-20170903   extra  words ', 'SSH-2.0-Open\x01SSH_8.9', 'SSH-2.0-OpenSSH_8.9 caf\xe9', 'SSH-2.0-X SSH-1.5-y', 'SSH-2.0-X comment SSH-1.0 inside',
         'SSH-2. 0-odd', 'HTTP/1.1 400 Bad Request', 'ssh-2.0-lowercase', '', 'SSH-2', 'SSH-10.0-x', 'Welcome to SSH-2.0-OpenSSH', ' SSH-2.0-leading-space', 'SSH-2.0-a\tb tab']

def check_print_helpers(repo, rep, rule):
    """Utils.is_print_ascii / to_print_ascii by interpretation on boundary strings: printable <=> every character in 32..126, everything else replaced by '?'"""
    from sa.listinterp import Interp as _I16
    from sa.abseval import Unknown as _U16

    def _ures(call):
        f = call.func
        if isinstance(f, ast.Attribute) and isinstance(f.value, ast.Name) and f.value.id in ('cls', 'Utils', 'self') and repo.has_func('utils', 'Utils.' + f.attr):
            return repo.func('utils', 'Utils.' + f.attr)
        if isinstance(f, ast.Name) and repo.has_func('utils', f.id):
            return repo.func('utils', f.id)           # a module-level helper of utils (a named predicate instead of a lambda)
        return None
    ipa = repo.func('utils', 'Utils.is_print_ascii')
    tpa = repo.func('utils', 'Utils.to_print_ascii')
    rep.saw(ipa), rep.saw(tpa)
    uconsts = {}
    bare_ = {}
    for st_ in repo.cls('utils', 'Utils').body:
        tgt_ = st_.targets[0] if isinstance(st_, ast.Assign) and len(st_.targets) == 1 else (st_.target if isinstance(st_, ast.AnnAssign) and st_.value is not None else None)
        if isinstance(tgt_, ast.Name):
            try:
                v_ = _I16().value(st_.value, dict(bare_))
            except _U16:
                continue
            bare_[tgt_.id] = v_        # (class-level names are visible to later class-level expressions and to parameter defaults)
            for pre_ in ('cls.', 'Utils.', 'self.'):
                uconsts[pre_ + tgt_.id] = v_
    samples = ['SSH-2.0-x', '', ' ~', 'a\tb', 'a\x1fb', 'a\x7fb', 'caf\xe9', '\x00', 'tab\there \u20ac', '}~\x7f\x80']
    bads = []
    for smp in samples:
        for f, oracle in ((ipa, printable), (tpa, sanitised)):
            env = dict(uconsts)
            env.update({a.arg: None for a in f.args.args})
            nd = len(f.args.defaults)
            for a_, d_ in zip(f.args.args[len(f.args.args) - nd:], f.args.defaults):
                try:
                    env[a_.arg] = _I16().value(d_, dict(bare_))
                except _U16 as ex:
                    raise AnalysisError('Utils.%s: default of %s is not computable: %s' % (f.name, a_.arg, ex))
            env[f.args.args[1].arg] = smp
            try:
                fin = _I16(resolver=_ures, try_normal_path=True).run(f.body, env)
            except _U16 as ex:
                raise AnalysisError('Utils.%s cannot be interpreted: %s' % (f.name, ex))
            rep.evals()
            if len(fin) != 1 or fin[0].get('<forks>') or fin[0].get('<outcome>') != 'return':
                raise AnalysisError('Utils.%s does not evaluate on a single path for %r' % (f.name, smp))
            got = fin[0].get('<return>')
            if not isinstance(got, (str, bool)):
                raise AnalysisError('Utils.%s(%r): result not computable by the interpreter (%r)' % (f.name, smp, got))
            if got != oracle(smp):
                bads.append('Utils.%s(%r) is %r, documented: %r' % (f.name, smp, got, oracle(smp)))
    rep.check(rule, 'is_print_ascii <=> all characters in 32..126; to_print_ascii replaces every other character by "?" (%d strings)' % len(samples), not bads, tpa,
              'printable-ASCII helpers changed -- %s' % (bads[0] if bads else ''), stmt='printable ascii helpers')
