"""Models of the two algorithm-carrying messages (SSH2_Kex / SSH1_PublicKeyMessage) by abstract interpretation: parse() is interpreted on a stream of
read tokens (the k-th buffer read returns the token <k:op>), the constructor and the property getters of the message classes are interpreted, and
write() is interpreted on the object parse() built.  Callers compare
    which read token each accessor yields            (C01: the i-th name-list of the packet surfaces under the i-th RFC 4253 7.1 field)
    the sequence of buffer writes with the reads      (C10: writer and parser are inverse codecs, field by field)
independent of how parse / write are spelled (one statement per field, comprehension + slices, star arguments, private fields or accessors).
"""
import ast

from sa.core import AnalysisError, unparse
from sa.abseval import Unknown, Opaque
from sa.listinterp import Interp
from sa import objmodel

READS = ('read', 'read_byte', 'read_bool', 'read_int', 'read_list', 'read_string', 'read_mpint1', 'read_mpint2', 'read_line')
WRITES = ('write', 'write_byte', 'write_bool', 'write_int', 'write_list', 'write_string', 'write_mpint1', 'write_mpint2', 'write_line')
PAIR = {'write': 'read', 'write_byte': 'read_byte', 'write_bool': 'read_bool', 'write_int': 'read_int', 'write_list': 'read_list', 'write_string': 'read_string', 'write_mpint1': 'read_mpint1', 'write_mpint2': 'read_mpint2'}


def parse_model(repo, modname, clsname, other_classes=(), extra_env=None):
    """-> (object, reads) where reads = [(op, size argument or None, token)]"""
    cls = repo.cls(modname, clsname)
    parse = repo.func(modname, clsname + '.parse')
    classes = {clsname: cls}
    for m, c in other_classes:
        classes[c] = repo.cls(m, c)
    reads = []
    holder = {}

    def factory():
        return Interp(call_hook=hook, attr_hook=holder['attr'], budget=20000)

    def hook(call, e, interp):
        fn = call.func
        t = unparse(fn)
        if t == 'ReadBuf':
            return (True, Opaque())
        if t == 'Utils.to_text' and len(call.args) == 1:
            v = interp.value(call.args[0], e)       # identity on text (Utils.to_text decodes bytes, returns str unchanged)
            if isinstance(v, str):
                return (True, v)
        if isinstance(fn, ast.Attribute) and fn.attr in READS and isinstance(fn.value, ast.Name) and fn.value.id in ('buf', 'rbuf'):
            k = len(reads) + 1
            size = interp.value(call.args[0], e) if call.args else None
            tok = '<%d:%s>' % (k, fn.attr)
            val = [tok] if fn.attr == 'read_list' else tok
            reads.append((fn.attr, size, val))
            return (True, val)
        name = fn.id if isinstance(fn, ast.Name) else None
        target = classes.get(name) if name in classes else (cls if name == 'cls' else None)
        if target is not None:
            init = objmodel._method(target, '__init__')
            b = interp.bind_values(call, init, e, skip_self=True)
            return (True, holder['construct'](target, b))
        return None
    holder['construct'], holder['attr'] = objmodel.make(factory, extra_env)
    params = [a.arg for a in parse.args.args]
    env = {p: Opaque() for p in params}
    try:
        finals = factory().run(parse.body, env)
    except Unknown as ex:
        raise AnalysisError('%s.parse cannot be interpreted: %s' % (clsname, ex))
    finals = [f for f in finals if f.get('<outcome>') == 'return']
    if len(finals) != 1 or finals[0].get('<forks>') or not isinstance(finals[0].get('<return>'), objmodel.Obj):
        raise AnalysisError('%s.parse does not build one message object on a single path (forks %s)' % (clsname, [f.get('<forks>') for f in finals][:2]))
    return finals[0]['<return>'], reads, holder


def accessor(holder, obj, path):
    """value of obj.a.b (properties interpreted)"""
    cur = obj
    for part in path.split('.'):
        r = holder['attr'](cur, part, None)
        if r is None:
            raise AnalysisError('accessor %s: %r has no attribute %s' % (path, cur, part))
        cur = r[1]
    return cur


def write_model(repo, modname, clsname, obj, holder):
    """-> [(op, value)] the buffer writes of write(self, wbuf) on the given object"""
    wf = repo.func(modname, clsname + '.write')
    params = [a.arg for a in wf.args.args]
    if len(params) != 2:
        raise AnalysisError('%s.write: expected (self, buffer) parameters' % clsname)
    writes = []

    def hook(call, e, interp):
        fn = call.func
        if isinstance(fn, ast.Attribute) and fn.attr in WRITES:
            base = fn.value
            while isinstance(base, ast.Call) and isinstance(base.func, ast.Attribute) and base.func.attr in WRITES:
                interp.value(base, e)       # chained writes: wbuf.write_int(a).write_int(b)
                base = None
                break
            if base is None or (isinstance(base, ast.Name) and base.id == params[1]):
                if call.args:
                    writes.append((fn.attr, interp.value(call.args[0], e), call))
                return (True, Opaque())
        return None

    def factory():
        return Interp(call_hook=hook, attr_hook=holder['attr'], budget=20000)
    env = {params[0]: obj, params[1]: Opaque()}
    env.update({'%s.%s' % (params[0], k): v for k, v in obj.fields.items()})
    try:
        finals = factory().run(wf.body, env)
    except Unknown as ex:
        raise AnalysisError('%s.write cannot be interpreted: %s' % (clsname, ex))
    if len(finals) != 1 or finals[0].get('<forks>'):
        raise AnalysisError('%s.write does not evaluate on a single path' % clsname)
    return writes
