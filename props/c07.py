"""C07 -- each target's result is independent of the other targets in the run (state confinement)."""
import ast

from sa.core import AnalysisError, unparse, walk_no_nested, stmt_text, call_name, bind_args, attr_chain, func_id, param_default
from sa.logic import path_condition
from sa.cfg import CFG, describe_path
from sa.callgraph import CallGraph
from sa.alias import Derived
from sa.slicer import MUTATORS
from props.c03 import is_db_source, db_params, ALLOWED_WRITERS, TABLE_MANAGERS

EXPL = ('Decides state confinement from the source: (1) an inventory of every long-lived mutable object (module/class-level containers, class attributes assigned through the class, mutable default arguments) is '
        'computed; (2) every mutation of an inventoried object, or of anything derived from the rating tables, in a function reachable from the per-target task (call graph from target_worker_thread/audit) must be '
        'one of: an edit of the per-thread table copy by a documented writer, the per-thread registry inside get_db/thread_exit keyed by threading.get_ident(), or an explicit-request mode; MASTER_DB has no writer and '
        'get_db hands out copy.deepcopy of it; mutable defaults are never mutated; (3) typestate on the CFG of every function submitted to the thread pool: after any call that can reach get_db(), every exit path -- normal or '
        'exceptional -- passes through thread_exit() of both table classes; (4) the worker writes only objects it created and audits with its private deep copy; (5) per-scan objects are constructed inside the task. '
        'Holds for all schedules and target orders because it is about which objects can be shared at all. Not decided: byte equality of multi-target and single-target output.')

MUT_CTORS = ('list', 'dict', 'set', 'bytearray', 'collections.defaultdict', 'collections.OrderedDict', 'defaultdict', 'OrderedDict')
# class attributes re-assigned through the class outside a scan's default path: attribute -> guard that must enclose the write
EXPLICIT_MODE_GUARDS = {
    'dheat:DHEat._dh_rate_test': 'aconf.conn_rate_test_enabled',
}
# functions that belong to explicit-request modes (--dheat, --conn-rate-test interactive); their class-state writes are outside a standard/policy audit
EXPLICIT_MODE_FUNCS = ('dheat:DHEat.__init__', 'dheat:DHEat.run', 'dheat:DHEat._run', 'dheat:DHEat.worker_process', 'dheat:DHEat._worker_process', 'dheat:DHEat.analyze_gex',
                       'dheat:DHEat.get_largest_gex_modulus', 'dheat:DHEat.generate_kex', 'dheat:DHEat.make_dh_kexinit', 'dheat:DHEat.output', 'dheat:DHEat.debug')
LAZY_SINGLETONS = {'ssh1:SSH1.crc32': 'SSH1._crc32 is created once and immutable afterwards (pure table)'}


def is_mutable_value(v):
    if isinstance(v, (ast.List, ast.Dict, ast.Set, ast.ListComp, ast.DictComp, ast.SetComp)):
        return True
    if isinstance(v, ast.Call) and unparse(v.func) in MUT_CTORS:
        return True
    return False


def inventory(repo):
    inv = {'module': [], 'class': [], 'defaults': [], 'class_reassigned': []}
    for m in repo.modules.values():
        for st in m.tree.body:
            tv = _targets_value(st)
            if tv and is_mutable_value(tv[1]):
                for t in tv[0]:
                    inv['module'].append(('%s:%s' % (m.name, t), st))
        for c in [n for n in ast.walk(m.tree) if isinstance(n, ast.ClassDef)]:
            for st in c.body:
                tv = _targets_value(st)
                if tv and is_mutable_value(tv[1]):
                    for t in tv[0]:
                        inv['class'].append(('%s:%s.%s' % (m.name, c._qualname, t), st))
        for f in [n for n in ast.walk(m.tree) if isinstance(n, (ast.FunctionDef, ast.AsyncFunctionDef))]:
            a = f.args
            pos = a.posonlyargs + a.args
            for p, d in list(zip(pos[len(pos) - len(a.defaults):], a.defaults)) + [(p, d) for p, d in zip(a.kwonlyargs, a.kw_defaults) if d is not None]:
                if is_mutable_value(d):
                    inv['defaults'].append(('%s:%s(%s)' % (m.name, f._qualname, p.arg), f, p.arg))
    return inv


def _targets_value(st):
    if isinstance(st, ast.Assign):
        return [t.id for t in st.targets if isinstance(t, ast.Name)], st.value
    if isinstance(st, ast.AnnAssign) and st.value is not None and isinstance(st.target, ast.Name):
        return [st.target.id], st.value
    return None


def class_state_writes(func, sym, class_mutables=()):
    """[(node, 'Class.attr', how)] writes to class-level state inside func."""
    out = []
    cls = func._cls.name if func._cls is not None else None
    # instance attributes of the class (assigned through self somewhere in the class) shadow a class-level name of the same spelling
    inst = set()
    if func._cls is not None:
        for x in ast.walk(func._cls):
            if isinstance(x, ast.Attribute) and isinstance(x.ctx, ast.Store) and isinstance(x.value, ast.Name) and x.value.id == 'self':
                inst.add(x.attr)

    def class_target(e):
        # Class.attr / cls.attr / self.__class__.attr
        if isinstance(e, ast.Attribute):
            v = e.value
            if isinstance(v, ast.Name) and v.id in sym.classes and v.id not in [a.arg for a in func.args.args]:
                return '%s.%s' % (v.id, e.attr)
            if isinstance(v, ast.Name) and v.id == 'cls' and cls:
                return '%s.%s' % (cls, e.attr)
            if isinstance(v, ast.Attribute) and v.attr == '__class__':
                return '%s.%s' % (cls, e.attr)
            # self.X where X is a class-level mutable container of this class and never an instance attribute: the one shared object
            if isinstance(v, ast.Name) and v.id == 'self' and cls and '%s.%s' % (cls, e.attr) in class_mutables and e.attr not in inst:
                return '%s.%s' % (cls, e.attr)
        return None

    def base_of(e):
        while isinstance(e, ast.Subscript):
            e = e.value
        return e
    for n in walk_no_nested(func):
        if isinstance(n, (ast.Assign, ast.AugAssign, ast.AnnAssign)):
            ts = n.targets if isinstance(n, ast.Assign) else [n.target]
            for t in ts:
                for s in (t.elts if isinstance(t, (ast.Tuple, ast.List)) else [t]):
                    ct = class_target(s)
                    if ct:
                        out.append((n, ct, 'rebind'))
                    elif isinstance(s, ast.Subscript):
                        ct = class_target(base_of(s))
                        if ct:
                            out.append((n, ct, 'item store'))
        elif isinstance(n, ast.Delete):
            for t in n.targets:
                if isinstance(t, ast.Subscript):
                    ct = class_target(base_of(t))
                    if ct:
                        out.append((n, ct, 'item delete'))
        elif isinstance(n, ast.Call) and isinstance(n.func, ast.Attribute) and n.func.attr in MUTATORS:
            ct = class_target(base_of(n.func.value))
            if ct:
                out.append((n, ct, n.func.attr))
    return out


def run(repo, rep, tier):
    rep.explanation = EXPL
    cg = CallGraph(repo)
    sym = cg.sym
    tw = repo.func('ssh_audit', 'target_worker_thread')
    au = repo.func('ssh_audit', 'audit')
    mn = repo.func('ssh_audit', 'main')
    rep.saw(tw), rep.saw(au)

    # ---- rule 1: inventory ---------------------------------------------------------------------------------------
    inv = inventory(repo)
    rep.extra['inventory'] = {k: sorted(x[0] for x in v) for k, v in inv.items()}
    rep.floor('inventory', 'class-level mutable objects', len(inv['class']), 10)
    rep.floor('inventory', 'mutable default arguments', len(inv['defaults']), 3)
    rep.samples.append({'rule': 'inventory', 'class_level': sorted(x[0] for x in inv['class'])[:12], 'defaults': sorted(x[0] for x in inv['defaults'])})
    class_mutables = {x[0].split(':', 1)[1] for x in inv['class']}       # 'SSH2_KexDB.DB_PER_THREAD'
    module_mutables = {x[0] for x in inv['module']}

    # ---- task entries ---------------------------------------------------------------------------------------------
    entries = []
    for (m, q), f in repo.all_funcs().items():
        for n in walk_no_nested(f):
            if isinstance(n, ast.Call) and isinstance(n.func, ast.Attribute) and n.func.attr == 'submit' and n.args:
                for kind, g in cg._callable_expr(n.args[0], f):
                    entries.append((g, n))
    rep.check('entries', 'the pool task is target_worker_thread', [g._qualname for g, n in entries] == ['target_worker_thread'], entries[0][1] if entries else mn, 'functions submitted to the pool: %s' % [g._qualname for g, n in entries])
    roots = [g for g, n in entries] or [tw]
    reach = cg.reachable(roots + [au])
    rep.extra['functions_reachable_from_task'] = len(reach)
    rep.floor('writers', 'functions reachable from the task', len(reach), 150)

    # ---- rule 2: writers ---------------------------------------------------------------------------------------------
    nwrites = 0
    for f in reach:
        fid = func_id(f)
        rep.saw(f)
        # (a) writes to class-level state
        for node, ct, how in class_state_writes(f, sym, class_mutables):
            nwrites += 1
            attr = ct.split('.', 1)[1]
            if attr == 'DB_PER_THREAD':
                ok = fid in TABLE_MANAGERS
                if ok:
                    # what get_db / thread_exit do with the registry (key = the calling thread's identity, own entry only) is decided by interpretation:
                    # rule 'registry' below (props/_dbcopy.check_registry)
                    rep.ob('writers', '%s: the per-thread registry is written by its manager' % fid, True)
                else:
                    rep.check('writers', 'registry DB_PER_THREAD only written by get_db/thread_exit', False, node, '%s writes the per-thread registry (%s)' % (fid, how))
            elif attr == 'MASTER_DB':
                rep.check('writers', 'MASTER_DB has no writer', False, node, '%s mutates MASTER_DB (%s): every later scan in the process sees it' % (fid, how))
            elif fid in LAZY_SINGLETONS and how == 'rebind':
                conds = [(unparse(t), p) for t, p, k in path_condition(node)]
                rep.check('writers', '%s: lazy singleton initialised once' % fid, any('is None' in t and p for t, p in conds), node, 'class attribute rebound unconditionally in %s' % fid)
            elif fid in EXPLICIT_MODE_GUARDS:
                g = EXPLICIT_MODE_GUARDS[fid]
                conds = [(unparse(t), p) for t, p, k in path_condition(node)]
                rep.check('writers', '%s: class attribute %s only written in the explicit-request mode (%s)' % (fid, ct, g), (g, True) in conds, node,
                          '%s writes class state %s during a standard audit (not under `%s`)' % (fid, ct, g))
            elif fid in EXPLICIT_MODE_FUNCS:
                rep.ob('writers', '%s: class attribute %s written only in an explicit-request mode function' % (fid, ct), True)
            else:
                rep.check('writers', 'no scan-reachable write to class-level state: %s in %s' % (ct, fid), False, node, '%s writes shared class state %s (%s): results of one target can leak into another' % (fid, ct, how))
        # (b) mutation of class-level containers through self./cls./Class. receivers is covered above; module-level containers by bare name
        for n in walk_no_nested(f):
            if isinstance(n, ast.Call) and isinstance(n.func, ast.Attribute) and n.func.attr in MUTATORS and isinstance(n.func.value, ast.Name):
                nm = '%s:%s' % (f._module.name, n.func.value.id)
                if nm in module_mutables and n.func.value.id not in sym._bindings(f) and n.func.value.id not in [a.arg for a in f.args.args]:
                    rep.check('writers', 'no scan-reachable mutation of module-level container %s' % nm, False, n, '%s mutates module-level %s' % (fid, nm))
        # (c) rating-table writers
        d = Derived(f, is_db_source, extra_seeds=db_params(f))
        for node, desc in d.mutations():
            nwrites += 1
            if fid in TABLE_MANAGERS:
                continue
            ok = fid in ALLOWED_WRITERS
            rep.check('writers', '%s edits only the per-thread table copy as a documented writer (%s)' % (fid, desc[:50]), ok, node, '%s mutates the rating table (%s) but is not a documented measured-attribute writer' % (fid, desc))
            if ok:
                # the table it edits comes from get_db() (per-thread copy) or a db parameter, never MASTER_DB
                srcs = [unparse(x) for x in ast.walk(f) if isinstance(x, (ast.Attribute,)) and unparse(x).endswith('MASTER_DB')]
                rep.check('writers', '%s does not touch MASTER_DB' % fid, not srcs, node, '%s reads/writes MASTER_DB directly' % fid)
        # (d) mutable defaults
        for key, g, par in inv['defaults']:
            if g is f:
                dd = Derived(f, lambda e: False, extra_seeds={par})
                for node, desc in dd.mutations():
                    # a mutation guarded by a condition that is false for the default value itself never touches the shared default object
                    dv = param_default(f, par)
                    harmless = False
                    if dv is not None:
                        try:
                            from sa.abseval import ev as _ev, Unknown as _Unk
                            val = _ev(dv, {})
                            conds = [(t, pol) for t, pol, k in path_condition(node) if k in ('if', 'guard')]
                            for t, pol in conds:
                                try:
                                    if bool(_ev(t, {par: val})) != pol:
                                        harmless = True
                                except _Unk:
                                    pass
                        except Exception:
                            harmless = False
                    if harmless:
                        rep.note('mutable default %s: the in-place edit `%s` is guarded by a condition that is false for the default value, so the shared default object is never edited' % (key, desc[:60]))
                        continue
                    rep.check('writers', 'mutable default %s is never mutated' % key, False, node, 'mutable default argument %s is mutated (%s): state carries over between calls' % (key, desc))
                rep.ob('writers', 'mutable default %s scanned' % key, True)
                # passing the default on to a constructor that stores it is fine as long as nobody mutates it (checked where stored)
    rep.floor('writers', 'write sites classified', nwrites, 8)
    from props import _dbcopy
    from sa.consteval import ConstEnv as _CE
    _dbcopy.check_private_copy(repo, rep, 'registry', _CE(repo), 'in-place edits made while scanning one target (Terrapin, key-size and modulus notes) reach the master table and every later target')
    # ---- rule 3: acquire/release typestate on every pool task ------------------------------------------------------------------
    getdbs = [repo.func('ssh2_kexdb', 'SSH2_KexDB.get_db'), repo.func('ssh1_kexdb', 'SSH1_KexDB.get_db')]
    exits_fn = {'SSH2_KexDB.thread_exit': repo.func('ssh2_kexdb', 'SSH2_KexDB.thread_exit'), 'SSH1_KexDB.thread_exit': repo.func('ssh1_kexdb', 'SSH1_KexDB.thread_exit')}

    from sa.cfg import default_may_raise

    def may_raise(node):
        # a bare call of thread_exit() is total: get_ident(), a membership test and a guarded del (rule `registry`)
        if isinstance(node, ast.Expr) and isinstance(node.value, ast.Call) and call_name(node.value) in exits_fn and not node.value.args:
            return False
        return default_may_raise(node)
    def releases(f, which, depth=0):
        """Does every path through f call `which` (thread_exit of one class)?  One level of wrapper."""
        if depth > 2:
            return False
        c = CFG(f, may_raise=may_raise)
        gates = c.stmts_matching(lambda st: stmt_calls(st, which, depth))
        return bool(gates) and not c.path_exists([c.entry], [c.exit], avoid=gates)

    def stmt_calls(st, which, depth=0):
        tgt = st.test if isinstance(st, (ast.If, ast.While)) else (st.iter if isinstance(st, ast.For) else st)
        if isinstance(st, (ast.With, ast.Try, ast.ExceptHandler, ast.FunctionDef, ast.ClassDef)):
            return False
        for n in walk_no_nested(tgt):
            if isinstance(n, ast.Call):
                if call_name(n) == which:
                    return True
                for kind, g in sym.resolve_call(n, st._func):
                    if g is not None and kind == 'exact' and g._module.name == 'ssh_audit' and g is not st._func and depth < 2:
                        if releases(g, which, depth + 1):
                            return True
        return False
    for task, site in entries or [(tw, None)]:
        c = CFG(task, may_raise=may_raise)
        # acquisition = any statement whose resolved callees can reach get_db
        def acquires(st):
            tgt = st.test if isinstance(st, (ast.If, ast.While)) else (st.iter if isinstance(st, ast.For) else st)
            if isinstance(st, (ast.With, ast.Try, ast.ExceptHandler, ast.FunctionDef, ast.ClassDef)):
                return False
            for n in walk_no_nested(tgt):
                if isinstance(n, ast.Call):
                    for kind, g in sym.resolve_call(n, task):
                        if g is not None and (g in getdbs or any(x in cg.reachable([g]) for x in getdbs)):
                            return True
            return False
        acq = c.stmts_matching(acquires)
        rep.floor('release', 'statements in %s that can acquire the per-thread table' % task.name, len(acq), 1)
        for which in sorted(exits_fn):
            gates = c.stmts_matching(lambda st: stmt_calls(st, which))
            starts = set()
            for a in acq:
                starts |= a.succ
            p = c.find_path(list(starts), [c.exit, c.raise_exit], avoid=gates)
            rep.check('release', '%s: every exit after acquiring the per-thread table passes %s()' % (task.name, which), p is None, acq[0].stmt,
                      'pool task %s can end without calling %s(): the thread id is reused by the pool, so the next target scanned by this thread starts from the previous target\'s edited rating table (Terrapin marks, key/modulus size notes)' % (task.name, which),
                      witness=describe_path(p) if p else None, func=func_id(task), stmt='release %s' % which,
                      sample={'rule': 'release', 'task': task.name, 'acquire_sites': [stmt_text(a.stmt)[:80] for a in acq], 'release_sites': [stmt_text(g.stmt)[:80] for g in gates]})
    # single-target path: one audit per process outside the pool
    calls = [n for n in walk_no_nested(mn) if isinstance(n, ast.Call) and call_name(n) == 'audit']
    ok = len(calls) == 1 and not [k for t, p, k in path_condition(calls[0]) if k in ('for', 'while')]
    rep.check('release', 'main audits a single target at most once per process', ok, calls[0] if calls else mn, 'main calls audit() %d times / in a loop without releasing the table' % len(calls))

    # ---- rule 4: configuration and output ownership ---------------------------------------------------------------------------------------
    created = {}
    for n in walk_no_nested(tw):
        if isinstance(n, ast.Assign) and isinstance(n.targets[0], ast.Name) and isinstance(n.value, ast.Call):
            cn = call_name(n.value)
            if cn in ('OutputBuffer', 'copy.deepcopy'):
                created[n.targets[0].id] = cn
    rep.check('ownership', 'worker creates its own OutputBuffer and deep copy of the configuration', sorted(created.values()) == ['OutputBuffer', 'copy.deepcopy'], tw, 'worker-local objects: %s' % created)
    params = [a.arg for a in tw.args.args]
    for n in walk_no_nested(tw):
        if isinstance(n, (ast.Assign, ast.AugAssign)):
            for t in (n.targets if isinstance(n, ast.Assign) else [n.target]):
                if isinstance(t, (ast.Attribute, ast.Subscript)):
                    b = t
                    while isinstance(b, (ast.Attribute, ast.Subscript)):
                        b = b.value
                    ok = isinstance(b, ast.Name) and b.id in created
                    rep.check('ownership', 'worker store %s targets a worker-created object' % unparse(t), ok, n, 'worker writes %s, which it did not create (shared between targets)' % unparse(t))
    shared = [p for p in params if 'aconf' in p]
    for sp in shared:
        for n in walk_no_nested(tw):
            if isinstance(n, ast.Name) and n.id == sp and isinstance(n.ctx, ast.Load):
                par = n._parent
                ok = isinstance(par, ast.Attribute) and isinstance(par.ctx, ast.Load) or (isinstance(par, ast.Call) and call_name(par) == 'copy.deepcopy')
                # calling a method on the shared configuration or passing it on is not allowed
                if isinstance(par, ast.Attribute) and isinstance(par._parent, ast.Call) and par._parent.func is par:
                    ok = False
                rep.check('ownership', 'shared configuration is only read or deep-copied: %s' % stmt_text(n._parent if not isinstance(n._parent, ast.stmt) else n._parent)[:60], ok, n, 'shared configuration %s escapes the worker (%s)' % (sp, unparse(par)[:60]))
    # copy.deepcopy of the configuration must really be deep: a custom copy protocol on AuditConf / Policy may only share immutable values
    IMMUTABLE_TYPES = {'str', 'int', 'bool', 'float', 'bytes', 'type(None)', 'NoneType', 'tuple', 'frozenset'}

    def _imm_guard(test, var):
        """test is `not isinstance(var, <immutable types>)` (the deep copy is skipped only for immutable values)"""
        if isinstance(test, ast.UnaryOp) and isinstance(test.op, ast.Not) and isinstance(test.operand, ast.Call) and unparse(test.operand.func) == 'isinstance' and len(test.operand.args) == 2 \
                and unparse(test.operand.args[0]) == var:
            t = test.operand.args[1]
            names = [unparse(x) for x in (t.elts if isinstance(t, ast.Tuple) else [t])]
            return all(n in IMMUTABLE_TYPES for n in names)
        return False
    for modname, cname in (('auditconf', 'AuditConf'), ('policy', 'Policy')):
        cdef = repo.cls(modname, cname)
        for st in cdef.body:
            if isinstance(st, ast.FunctionDef) and st.name in ('__deepcopy__', '__copy__', '__reduce__', '__reduce_ex__', '__getstate__', '__setstate__') and not (cname == 'Policy' and st.name in ('__getstate__', '__setstate__')):
                # every value placed into the copy is produced by copy.deepcopy(...), is a literal, or skips the deep copy only under `isinstance(v, <immutable types>)`
                shared = []
                stores = []
                for n in ast.walk(st):
                    if isinstance(n, ast.Call) and unparse(n.func) in ('object.__setattr__', 'setattr') and len(n.args) == 3:
                        stores.append((n, n.args[2]))
                    elif isinstance(n, ast.Assign) and isinstance(n.targets[0], (ast.Subscript, ast.Attribute)) and not unparse(n.targets[0]).startswith('memo'):
                        stores.append((n, n.value))
                    elif isinstance(n, ast.Call) and isinstance(n.func, ast.Attribute) and n.func.attr == 'update' and '__dict__' in unparse(n.func.value) and n.args:
                        stores.append((n, n.args[0]))
                for site, v in stores:
                    parts = [v.body, v.orelse] if isinstance(v, ast.IfExp) else [v]
                    for pv in parts:
                        if (isinstance(pv, ast.Call) and unparse(pv.func) == 'copy.deepcopy') or isinstance(pv, ast.Constant):
                            continue
                        if isinstance(pv, ast.Name):
                            defs = [d for d in ast.walk(st) if isinstance(d, ast.Assign) and any(isinstance(t, ast.Name) and t.id == pv.id for t in d.targets)]
                            deep = [d for d in defs if isinstance(d.value, ast.Call) and unparse(d.value.func) == 'copy.deepcopy']
                            other = [d for d in defs if d not in deep]
                            raw_sources = bool(other) or any(isinstance(x, ast.For) and any(isinstance(t, ast.Name) and t.id == pv.id for t in ast.walk(x.target)) for x in ast.walk(st)) or pv.id in [a.arg for a in st.args.args]
                            if deep and not other:
                                conds = [(t, pol) for d in deep for t, pol, k in path_condition(d) if k in ('if', 'guard')]
                                inner = [(t, pol) for t, pol in conds if any(isinstance(x, ast.Name) and x.id == pv.id for x in ast.walk(t))]
                                if not raw_sources or not inner or all(pol and _imm_guard(t, pv.id) for t, pol in inner):
                                    continue
                                shared.append('%s  [deep copy only when %s]' % (unparse(site)[:70], ' and '.join(unparse(t)[:60] for t, pol in inner)))
                                continue
                        shared.append(unparse(site)[:100])
                rep.check('ownership', '%s.%s shares no mutable state between a configuration and its copy' % (cname, st.name), not shared, st,
                          '%s.%s hands objects to the copy by reference (%s): workers that deep-copy the configuration still share them (e.g. the Policy error accumulator), so one target\'s policy errors appear on another' % (cname, st.name, '; '.join(shared[:3])))
    # values taken over from the shared configuration must be immutable scalars (anything else would alias shared state)
    aci = repo.func('auditconf', 'AuditConf.__init__')
    scalars = set()
    for n in walk_no_nested(aci):
        tgt, val = None, None
        if isinstance(n, ast.Assign):
            tgt, val = n.targets[0], n.value
        elif isinstance(n, ast.AnnAssign):
            tgt, val = n.target, n.value
        if isinstance(tgt, ast.Attribute) and isinstance(tgt.value, ast.Name) and tgt.value.id == 'self':
            if isinstance(val, ast.Constant) and isinstance(val.value, (bool, int, float, str)) and val.value is not None and not (isinstance(n, ast.AnnAssign) and 'Optional' in unparse(n.annotation)):
                scalars.add(tgt.attr)
            elif isinstance(val, ast.Name) and val.id in ('host', 'port'):
                scalars.add(tgt.attr)
    for sp in shared:
        for n in walk_no_nested(tw):
            if isinstance(n, ast.Attribute) and isinstance(n.value, ast.Name) and n.value.id == sp and isinstance(n.ctx, ast.Load):
                rep.check('ownership', 'worker takes only immutable scalars from the shared configuration: %s' % unparse(n), n.attr in scalars, n,
                          'worker reads %s, a mutable object of the shared configuration, instead of using its private deep copy' % unparse(n))
    for n in walk_no_nested(tw):
        if isinstance(n, ast.Call) and call_name(n) == 'audit':
            b = bind_args(n, au)
            ok = unparse(b.get('aconf')) in created and created.get(unparse(b.get('aconf'))) == 'copy.deepcopy' and unparse(b.get('out')) in created
            rep.check('ownership', 'audit runs on the worker\'s private configuration and buffer', ok, n, 'audit called with %s / %s' % (unparse(b.get('out')), unparse(b.get('aconf'))))
    sub = [n for g, n in entries]
    for n in sub:
        # each submit passes the per-target host/port and the shared configuration object
        rep.check('ownership', 'one task per target carrying its own host and port', len(n.args) == 4 and unparse(n.args[1]) != unparse(n.args[2]), n, 'submit() arguments changed: %s' % unparse(n)[:80])

    # ---- rule 5: per-scan objects are constructed in the task ----------------------------------------------------------------------------------
    for m in repo.modules.values():
        for st in list(m.tree.body) + [s for c in ast.walk(m.tree) if isinstance(c, ast.ClassDef) for s in c.body]:
            tv = _targets_value(st)
            if tv and isinstance(tv[1], ast.Call):
                cn = call_name(tv[1])
                if cn and cn.split('.')[-1] in sym.classes and st._func is None:
                    # an instance of an immutable record type (NamedTuple / tuple / Enum subclass, frozen dataclass) carries no per-scan state
                    cdef = next((c for mm in repo.modules.values() for c in ast.walk(mm.tree) if isinstance(c, ast.ClassDef) and c.name == cn.split('.')[-1]), None)
                    bases = [unparse(b).split('.')[-1] for b in cdef.bases] if cdef is not None else []
                    frozen = cdef is not None and any(isinstance(d, ast.Call) and unparse(d.func).split('.')[-1] == 'dataclass' and any(k.arg == 'frozen' and isinstance(k.value, ast.Constant) and k.value.value is True for k in d.keywords) for d in cdef.decorator_list)
                    writes_self = cdef is not None and any(isinstance(x, ast.Attribute) and isinstance(x.ctx, (ast.Store, ast.Del)) and isinstance(x.value, ast.Name) and x.value.id == 'self' for x in ast.walk(cdef))
                    if (set(bases) & {'NamedTuple', 'tuple', 'Enum', 'IntEnum'} or frozen) and not writes_self:
                        rep.ob('per-scan', 'module/class-level instance of the immutable record type %s' % cn, True)
                        continue
                    rep.check('per-scan', 'no module/class-level instance of a package class: %s' % stmt_text(st)[:60], False, st, 'long-lived instance of %s shared by all scans' % cn)
    for cls_name in ('SSH_Socket', 'Algorithms', 'SSH2_Kex', 'OutputBuffer'):
        sites = []
        for (m, q), f in repo.all_funcs().items():
            for n in walk_no_nested(f):
                if isinstance(n, ast.Call) and call_name(n) == cls_name:
                    sites.append((q, n))
        rep.ob('per-scan', '%s constructed only inside functions (%d sites)' % (cls_name, len(sites)), True)
    s_sites = [n for n in walk_no_nested(au) if isinstance(n, ast.Call) and call_name(n) == 'SSH_Socket']
    rep.check('per-scan', 'audit constructs its own socket object', len(s_sites) == 1 and s_sites[0]._parent in au.body, au, 'audit does not construct a fresh SSH_Socket')
    algs_sites = [n for n in walk_no_nested(repo.func('ssh_audit', 'output')) if isinstance(n, ast.Call) and call_name(n) == 'Algorithms']
    rep.check('per-scan', 'output constructs its own Algorithms view', len(algs_sites) == 1, repo.func('ssh_audit', 'output'), 'output does not construct a fresh Algorithms')
    rep.assumptions = ['CPython dict item get/set/delete are atomic under the GIL (DB_PER_THREAD registry)', 'thread ids are unique among live threads (threading.get_ident)', 'resolver over-approximates callees (by-name dispatch), which can only add reachable writers']
