"""Shared rule (C03, C07): the per-thread rating table handed out by get_db() shares no mutable part with MASTER_DB.

`fresh_depth(expr, shared)` is an abstract "how many container levels of this value are freshly allocated" count:
copy.deepcopy(x) -> infinite; a dict/list/set comprehension or literal -> 1 + the minimum over its element expressions;
list(x) / dict(x) / x.copy() / x[:] / copy.copy(x) / sorted(x) -> 1 (elements still shared); names bound by iterating a
shared value, attribute reads and everything else -> 0.  The table needs as many fresh levels as MASTER_DB has mutable
container levels (computed from its literal)."""
import ast

from sa.core import AnalysisError, unparse, walk_no_nested

INF = 99


def mutable_depth(value):
    """Nesting depth of mutable containers in a constant-evaluated value."""
    if isinstance(value, dict):
        return 1 + max([mutable_depth(v) for v in value.values()] or [0])
    if isinstance(value, (list, set)):
        return 1 + max([mutable_depth(v) for v in value] or [0])
    if isinstance(value, tuple):
        return max([mutable_depth(v) for v in value] or [0])
    return 0


def fresh_depth(e):
    if isinstance(e, ast.Call):
        fn = unparse(e.func)
        if fn in ('copy.deepcopy', 'deepcopy'):
            return INF
        if fn in ('list', 'dict', 'set', 'sorted', 'copy.copy') and len(e.args) == 1:
            if isinstance(e.args[0], (ast.ListComp, ast.DictComp, ast.SetComp, ast.GeneratorExp)):
                return fresh_depth(e.args[0]) if not isinstance(e.args[0], ast.GeneratorExp) else 1 + fresh_depth(e.args[0].elt)
            return 1
        if isinstance(e.func, ast.Attribute) and e.func.attr == 'copy' and not e.args:
            return 1
        return 0
    if isinstance(e, ast.Subscript) and isinstance(e.slice, ast.Slice):
        return 1
    if isinstance(e, ast.DictComp):
        return 1 + fresh_depth(e.value)
    if isinstance(e, (ast.ListComp, ast.SetComp)):
        return 1 + fresh_depth(e.elt)
    if isinstance(e, ast.Dict):
        return 1 + min([fresh_depth(v) for v in e.values] or [INF])
    if isinstance(e, (ast.List, ast.Set)):
        return 1 + min([fresh_depth(v) for v in e.elts] or [INF])
    if isinstance(e, ast.Constant):
        return INF
    return 0


class _T:
    def __init__(self, name):
        self.name = name

    def __repr__(self):
        return self.name

    def __deepcopy__(self, memo):
        return self


def registry_run(repo, modname, cls_name, method, registry, ident='T1'):
    """Interpret get_db / thread_exit of a table class on a given registry content.  -> (registry afterwards, returned value)"""
    from sa.listinterp import Interp
    from sa.abseval import Unknown
    f = repo.func(modname, '%s.%s' % (cls_name, method))
    master = _T('<MASTER_DB>')
    reg = dict(registry)
    env = {'%s.DB_PER_THREAD' % cls_name: reg, 'cls.DB_PER_THREAD': reg, '%s.MASTER_DB' % cls_name: master, 'cls.MASTER_DB': master}

    def hook(call, e, interp):
        t = unparse(call.func)
        if t in ('threading.get_ident', 'get_ident') and not call.args:
            return (True, ident)
        if t in ('copy.deepcopy', 'deepcopy') and len(call.args) == 1:
            return (True, ('deepcopy', interp.value(call.args[0], e)))
        return None
    try:
        finals = Interp(call_hook=hook, try_normal_path=True).run(f.body, env)
    except Unknown as ex:
        raise AnalysisError('%s.%s cannot be interpreted: %s' % (cls_name, method, ex))
    if len(finals) != 1 or finals[0].get('<forks>') or finals[0].get('<outcome>') == 'raise':
        raise AnalysisError('%s.%s does not evaluate on a single path (forks %s)' % (cls_name, method, [x.get('<forks>') for x in finals][:2]))
    return finals[0]['%s.DB_PER_THREAD' % cls_name], finals[0].get('<return>'), master


def check_registry(repo, rep, rule, why_shared):
    """The per-thread registry, by interpretation: the first get_db() of a thread registers a deep copy of MASTER_DB under the thread's identity and returns
    that very object; later calls return it again without copying; another thread gets its own entry; thread_exit() removes the caller's entry only."""
    n = 0
    for cls_name, modname in (('SSH2_KexDB', 'ssh2_kexdb'), ('SSH1_KexDB', 'ssh1_kexdb')):
        gd = repo.func(modname, cls_name + '.get_db')
        te = repo.func(modname, cls_name + '.thread_exit')
        rep.saw(gd), rep.saw(te)
        reg, ret, master = registry_run(repo, modname, cls_name, 'get_db', {})
        ok = list(reg) == ['T1'] and reg['T1'] is ret
        rep.check(rule, '%s.get_db: first call registers one table under threading.get_ident() and returns it' % cls_name, ok, gd,
                  '%s.get_db on an empty registry leaves %r and returns %r: the table a scan edits is not the one registered for its thread (%s)' % (cls_name, reg, ret, why_shared), stmt='%s registry: first call' % cls_name)
        deep = ret == ('deepcopy', master)
        s1, s2 = _T('<table of T1>'), _T('<table of T2>')
        reg, ret, _m = registry_run(repo, modname, cls_name, 'get_db', {'T1': s1})
        rep.check(rule, '%s.get_db: later calls of the same thread return the registered table' % cls_name, reg == {'T1': s1} and ret is s1, gd,
                  '%s.get_db with a table already registered leaves %r and returns %r: measured notes written earlier in the scan are lost or another table is rated' % (cls_name, reg, ret), stmt='%s registry: second call' % cls_name)
        reg, ret, _m = registry_run(repo, modname, cls_name, 'get_db', {'T1': s1}, ident='T2')
        rep.check(rule, '%s.get_db: another thread gets its own entry' % cls_name, list(reg) == ['T1', 'T2'] and reg['T1'] is s1 and ret is reg['T2'] and ret is not s1, gd,
                  '%s.get_db called by a second thread leaves %r and returns %r: two scans share a table (%s)' % (cls_name, reg, ret, why_shared), stmt='%s registry: second thread' % cls_name)
        reg, ret, _m = registry_run(repo, modname, cls_name, 'thread_exit', {'T1': s1, 'T2': s2})
        rep.check(rule, '%s.thread_exit removes the calling thread\'s table only' % cls_name, reg == {'T2': s2}, te, '%s.thread_exit leaves %r of {T1, T2}: a re-used thread identity inherits the notes of a finished scan, or another scan loses its table' % (cls_name, reg), stmt='%s registry: exit' % cls_name)
        reg, ret, _m = registry_run(repo, modname, cls_name, 'thread_exit', {'T2': s2})
        rep.check(rule, '%s.thread_exit without a registered table is a no-op' % cls_name, reg == {'T2': s2}, te, '%s.thread_exit without an own table leaves %r' % (cls_name, reg), stmt='%s registry: exit without table' % cls_name)
        n += 5
        yield cls_name, modname, gd, deep


def check_private_copy(repo, rep, rule, ce, why):
    """get_db of both tables registers a value whose fresh depth covers every mutable level of MASTER_DB."""
    n = 0
    for cls_name, modname, gd, deep in check_registry(repo, rep, rule, why):
        need = mutable_depth(ce.lookup(modname, cls_name + '.MASTER_DB'))
        if deep:
            n += 1
            rep.ob(rule, '%s.get_db hands out copy.deepcopy(MASTER_DB): fresh on all %d mutable levels' % (cls_name, need), True, sample={'rule': rule, 'table': cls_name, 'mutable_levels': need, 'fresh_levels': 'all'})
            continue
        stores = [s for s in walk_no_nested(gd) if isinstance(s, ast.Assign) and isinstance(s.targets[0], ast.Subscript) and unparse(s.targets[0].value) == cls_name + '.DB_PER_THREAD']
        if len(stores) != 1:
            raise AnalysisError('%s.get_db: expected one store into the per-thread registry, found %d' % (cls_name, len(stores)))
        val = stores[0].value
        # a local assigned once may carry the copy
        if isinstance(val, ast.Name):
            defs = [d for d in walk_no_nested(gd) if isinstance(d, ast.Assign) and any(isinstance(t, ast.Name) and t.id == val.id for t in d.targets)]
            if len(defs) == 1:
                val = defs[0].value
        src_ok = (cls_name + '.MASTER_DB') in unparse(val) or 'cls.MASTER_DB' in unparse(val)
        got = fresh_depth(val)
        n += 1
        rep.check(rule, '%s.get_db hands out a copy of MASTER_DB that is fresh on all %d mutable levels' % (cls_name, need), src_ok and got >= need, stores[0],
                  '%s.get_db registers %s, which is fresh on %s of the %d mutable container levels of MASTER_DB: the inner note lists stay shared with the master table, so %s' % (cls_name, unparse(val)[:110], got if got < INF else 'all', need, why),
                  stmt='%s per-thread copy depth' % cls_name, sample={'rule': rule, 'table': cls_name, 'mutable_levels': need, 'fresh_levels': 'all' if got >= INF else got})
    return n
