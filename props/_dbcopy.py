"""Shared rule (C03, C07): the per-thread rating table handed out by get_db() shares no mutable part with MASTER_DB.

`fresh_depth(expr, shared)` is an abstract "how many container levels of this value are freshly allocated" count:
copy.deepcopy(x) -> infinite; a dict/list/set comprehension or literal -> 1 + the minimum over its element expressions;
list(x) / dict(x) / x.copy() / x[:] / copy.copy(x) / sorted(x) -> 1 (elements still shared); names bound by iterating a
shared value, attribute reads and everything else -> 0.  The table needs as many fresh levels as MASTER_DB has mutable
container levels (computed from its literal)."""
import ast

from sa.core import AnalysisError, unparse, walk_no_nested

INF = 99


def mutable_depth(value):
    """Nesting depth of mutable containers in a constant-evaluated value."""
    if isinstance(value, dict):
        return 1 + max([mutable_depth(v) for v in value.values()] or [0])
    if isinstance(value, (list, set)):
        return 1 + max([mutable_depth(v) for v in value] or [0])
    if isinstance(value, tuple):
        return max([mutable_depth(v) for v in value] or [0])
    return 0


def fresh_depth(e):
    if isinstance(e, ast.Call):
        fn = unparse(e.func)
        if fn in ('copy.deepcopy', 'deepcopy'):
            return INF
        if fn in ('list', 'dict', 'set', 'sorted', 'copy.copy') and len(e.args) == 1:
            if isinstance(e.args[0], (ast.ListComp, ast.DictComp, ast.SetComp, ast.GeneratorExp)):
                return fresh_depth(e.args[0]) if not isinstance(e.args[0], ast.GeneratorExp) else 1 + fresh_depth(e.args[0].elt)
            return 1
        if isinstance(e.func, ast.Attribute) and e.func.attr == 'copy' and not e.args:
            return 1
        return 0
    if isinstance(e, ast.Subscript) and isinstance(e.slice, ast.Slice):
        return 1
    if isinstance(e, ast.DictComp):
        return 1 + fresh_depth(e.value)
    if isinstance(e, (ast.ListComp, ast.SetComp)):
        return 1 + fresh_depth(e.elt)
    if isinstance(e, ast.Dict):
        return 1 + min([fresh_depth(v) for v in e.values] or [INF])
    if isinstance(e, (ast.List, ast.Set)):
        return 1 + min([fresh_depth(v) for v in e.elts] or [INF])
    if isinstance(e, ast.Constant):
        return INF
    return 0


class _T:
    def __init__(self, name):
        self.name = name

    def __repr__(self):
        return self.name

    def __deepcopy__(self, memo):
        return self


def synthetic_master():
    """a table with every mutable level the real MASTER_DB has: category -> name -> [versions, failures, warnings, infos] (rows of 1..4 lists)"""
    return {'kex': {'k1': [['1.0'], ['F1'], ['W1'], ['I1']], 'k2': [['2.0']], 'k3': [['3.0'], [], ['W3']]},
            'key': {'h1': [['1.0'], ['F1']]},
            'enc': {'e1': [['1.0'], [], ['W1']], 'e2': [['2.0']]},
            'mac': {'m1': [['1.0']]}}


def shared_parts(copy_, master, path=''):
    """paths of the mutable containers of `master` that `copy_` still shares (same object), or where the copy's content differs"""
    out = []
    if copy_ is master and isinstance(master, (dict, list, set)):
        out.append(path or '<the table itself>')
        return out
    if type(copy_) is not type(master):
        out.append('%s: content differs (%r)' % (path or '<table>', type(copy_).__name__))
        return out
    if isinstance(master, dict):
        if list(copy_) != list(master):
            out.append('%s: keys differ' % (path or '<table>'))
            return out
        for k in master:
            out.extend(shared_parts(copy_[k], master[k], '%s[%r]' % (path, k)))
    elif isinstance(master, list):
        if len(copy_) != len(master):
            out.append('%s: length differs' % (path or '<table>'))
            return out
        for i, v in enumerate(master):
            out.extend(shared_parts(copy_[i], v, '%s[%d]' % (path, i)))
    elif copy_ != master:
        out.append('%s: value differs' % path)
    return out


def registry_run(repo, modname, cls_name, method, registry, ident='T1', master=None):
    """Interpret get_db / thread_exit of a table class on a given registry content.  -> (registry afterwards, returned value, master table)"""
    import copy as _copy
    from sa.listinterp import Interp
    from sa.abseval import Unknown
    f = repo.func(modname, '%s.%s' % (cls_name, method))
    if master is None:
        master = synthetic_master()
    reg = dict(registry)
    env = {'%s.DB_PER_THREAD' % cls_name: reg, 'cls.DB_PER_THREAD': reg, '%s.MASTER_DB' % cls_name: master, 'cls.MASTER_DB': master}

    def hook(call, e, interp):
        t = unparse(call.func)
        if t in ('threading.get_ident', 'get_ident') and not call.args:
            return (True, ident)
        if t in ('copy.deepcopy', 'deepcopy', 'copy.copy') and len(call.args) == 1:
            v = interp.value(call.args[0], e)
            if isinstance(v, (dict, list)):
                return (True, _copy.deepcopy(v) if t != 'copy.copy' else _copy.copy(v))       # the standard library's copy, applied to the model's own synthetic table
        return None
    try:
        finals = Interp(call_hook=hook, try_normal_path=True).run(f.body, env)
    except Unknown as ex:
        raise AnalysisError('%s.%s cannot be interpreted: %s' % (cls_name, method, ex))
    if len(finals) != 1 or finals[0].get('<forks>') or finals[0].get('<outcome>') == 'raise':
        raise AnalysisError('%s.%s does not evaluate on a single path (forks %s)' % (cls_name, method, [x.get('<forks>') for x in finals][:2]))
    return finals[0]['%s.DB_PER_THREAD' % cls_name], finals[0].get('<return>'), master


def check_registry(repo, rep, rule, why_shared):
    """The per-thread registry, by interpretation: the first get_db() of a thread registers a private copy of MASTER_DB under the thread's identity and returns
    that very object; later calls return it again without copying; another thread gets its own entry; thread_exit() removes the caller's entry only."""
    for cls_name, modname in (('SSH2_KexDB', 'ssh2_kexdb'), ('SSH1_KexDB', 'ssh1_kexdb')):
        gd = repo.func(modname, cls_name + '.get_db')
        te = repo.func(modname, cls_name + '.thread_exit')
        rep.saw(gd), rep.saw(te)
        reg, ret, master = registry_run(repo, modname, cls_name, 'get_db', {})
        ok = list(reg) == ['T1'] and reg['T1'] is ret
        rep.check(rule, '%s.get_db: first call registers one table under threading.get_ident() and returns it' % cls_name, ok, gd,
                  '%s.get_db on an empty registry leaves %s and returns %s: the table a scan edits is not the one registered for its thread (%s)' % (cls_name, _brief(reg), _brief(ret), why_shared), stmt='%s registry: first call' % cls_name)
        s1, s2 = _T('<table of T1>'), _T('<table of T2>')
        reg2, ret2, _m = registry_run(repo, modname, cls_name, 'get_db', {'T1': s1})
        rep.check(rule, '%s.get_db: later calls of the same thread return the registered table' % cls_name, reg2 == {'T1': s1} and ret2 is s1, gd,
                  '%s.get_db with a table already registered leaves %s and returns %s: measured notes written earlier in the scan are lost or another table is rated' % (cls_name, _brief(reg2), _brief(ret2)), stmt='%s registry: second call' % cls_name)
        reg2, ret2, _m = registry_run(repo, modname, cls_name, 'get_db', {'T1': s1}, ident='T2')
        rep.check(rule, '%s.get_db: another thread gets its own entry' % cls_name, list(reg2) == ['T1', 'T2'] and reg2['T1'] is s1 and ret2 is reg2['T2'] and ret2 is not s1, gd,
                  '%s.get_db called by a second thread leaves %s and returns %s: two scans share a table (%s)' % (cls_name, _brief(reg2), _brief(ret2), why_shared), stmt='%s registry: second thread' % cls_name)
        reg2, ret2, _m = registry_run(repo, modname, cls_name, 'thread_exit', {'T1': s1, 'T2': s2})
        rep.check(rule, '%s.thread_exit removes the calling thread\'s table only' % cls_name, reg2 == {'T2': s2}, te, '%s.thread_exit leaves %s of {T1, T2}: a re-used thread identity inherits the notes of a finished scan, or another scan loses its table' % (cls_name, _brief(reg2)), stmt='%s registry: exit' % cls_name)
        reg2, ret2, _m = registry_run(repo, modname, cls_name, 'thread_exit', {'T2': s2})
        rep.check(rule, '%s.thread_exit without a registered table is a no-op' % cls_name, reg2 == {'T2': s2}, te, '%s.thread_exit without an own table leaves %s' % (cls_name, _brief(reg2)), stmt='%s registry: exit without table' % cls_name)
        yield cls_name, modname, gd, ret, master


def _brief(v):
    r = repr(v)
    return r if len(r) <= 90 else r[:87] + '...'


def check_private_copy(repo, rep, rule, ce, why):
    """get_db of both tables registers a table equal to MASTER_DB that shares no mutable container with it, at any level (object identity in the
    interpreted run on a synthetic table that has every mutable level of the real one)."""
    n = 0
    for cls_name, modname, gd, ret, master in check_registry(repo, rep, rule, why):
        real = ce.lookup(modname, cls_name + '.MASTER_DB')
        need = mutable_depth(real)
        # no two places of MASTER_DB hold the same list / dict object (a row or a note list written once as a class constant and referenced from several
        # entries): copy.deepcopy() keeps such sharing inside every per-thread copy, so a note appended for one algorithm shows up on the others.  The constant
        # evaluator resolves a name to one object, so sharing in the source is sharing in the evaluated table.
        seen_, dup_ = {}, []

        def walk_(v, path):
            if isinstance(v, (list, dict, set)):
                if id(v) in seen_:
                    dup_.append((seen_[id(v)], path))
                    return
                seen_[id(v)] = path
                if isinstance(v, dict):
                    for k_, x_ in v.items():
                        walk_(x_, '%s[%r]' % (path, k_))
                elif isinstance(v, list):
                    for i_, x_ in enumerate(v):
                        walk_(x_, '%s[%d]' % (path, i_))
        walk_(real, 'MASTER_DB')
        rep.check(rule, '%s.MASTER_DB: every row and every note list is an object of its own (%d containers)' % (cls_name, len(seen_)), not dup_, gd,
                  '%s.MASTER_DB holds one list object in several places (%s and %s%s): the per-thread copy keeps that sharing, so a note written for one algorithm during a scan (Terrapin, key size, modulus size) also appears on the other, which the peer may not even offer -- %s' % (
                      cls_name, dup_[0][0] if dup_ else '', dup_[0][1] if dup_ else '', ', %d more' % (len(dup_) - 1) if len(dup_) > 1 else '', why),
                  func='%s:%s' % (modname, cls_name), stmt='%s.MASTER_DB aliased containers' % cls_name)
        if need > mutable_depth(master):
            raise AnalysisError('%s.MASTER_DB has %d mutable container levels, the synthetic table of the model only %d' % (cls_name, need, mutable_depth(master)))
        bad = shared_parts(ret, master) if isinstance(ret, dict) else ['<no table returned>']
        if master != synthetic_master():
            bad.append(': get_db edits MASTER_DB itself')
        n += 1
        levels = sorted({p.count('[') for p in bad if ':' not in p})
        rep.check(rule, '%s.get_db hands out a copy of MASTER_DB that shares no mutable container with it (all %d levels)' % (cls_name, need), not bad, gd,
                  '%s.get_db registers a table that still shares %d container(s) with MASTER_DB (e.g. %s): %s' % (cls_name, len(bad), ', '.join('MASTER_DB' + b for b in bad[:3]),
                                                                                                                 'the inner note lists stay shared with the master table, so ' + why if levels and min(levels) >= 2 else why),
                  stmt='%s per-thread copy depth' % cls_name, sample={'rule': rule, 'table': cls_name, 'mutable_levels': need, 'shared_containers': len(bad)})
    return n
