"""Shared rule (C03, C07): the per-thread rating table handed out by get_db() shares no mutable part with MASTER_DB.

`fresh_depth(expr, shared)` is an abstract "how many container levels of this value are freshly allocated" count:
copy.deepcopy(x) -> infinite; a dict/list/set comprehension or literal -> 1 + the minimum over its element expressions;
list(x) / dict(x) / x.copy() / x[:] / copy.copy(x) / sorted(x) -> 1 (elements still shared); names bound by iterating a
shared value, attribute reads and everything else -> 0.  The table needs as many fresh levels as MASTER_DB has mutable
container levels (computed from its literal)."""
import ast

from sa.core import AnalysisError, unparse, walk_no_nested

INF = 99


def mutable_depth(value):
    """Nesting depth of mutable containers in a constant-evaluated value."""
    if isinstance(value, dict):
        return 1 + max([mutable_depth(v) for v in value.values()] or [0])
    if isinstance(value, (list, set)):
        return 1 + max([mutable_depth(v) for v in value] or [0])
    if isinstance(value, tuple):
        return max([mutable_depth(v) for v in value] or [0])
    return 0


def fresh_depth(e):
    if isinstance(e, ast.Call):
        fn = unparse(e.func)
        if fn in ('copy.deepcopy', 'deepcopy'):
            return INF
        if fn in ('list', 'dict', 'set', 'sorted', 'copy.copy') and len(e.args) == 1:
            if isinstance(e.args[0], (ast.ListComp, ast.DictComp, ast.SetComp, ast.GeneratorExp)):
                return fresh_depth(e.args[0]) if not isinstance(e.args[0], ast.GeneratorExp) else 1 + fresh_depth(e.args[0].elt)
            return 1
        if isinstance(e.func, ast.Attribute) and e.func.attr == 'copy' and not e.args:
            return 1
        return 0
    if isinstance(e, ast.Subscript) and isinstance(e.slice, ast.Slice):
        return 1
    if isinstance(e, ast.DictComp):
        return 1 + fresh_depth(e.value)
    if isinstance(e, (ast.ListComp, ast.SetComp)):
        return 1 + fresh_depth(e.elt)
    if isinstance(e, ast.Dict):
        return 1 + min([fresh_depth(v) for v in e.values] or [INF])
    if isinstance(e, (ast.List, ast.Set)):
        return 1 + min([fresh_depth(v) for v in e.elts] or [INF])
    if isinstance(e, ast.Constant):
        return INF
    return 0


def check_private_copy(repo, rep, rule, ce, why):
    """get_db of both tables registers a value whose fresh depth covers every mutable level of MASTER_DB."""
    n = 0
    for cls_name, modname in (('SSH2_KexDB', 'ssh2_kexdb'), ('SSH1_KexDB', 'ssh1_kexdb')):
        gd = repo.func(modname, cls_name + '.get_db')
        rep.saw(gd)
        need = mutable_depth(ce.lookup(modname, cls_name + '.MASTER_DB'))
        stores = [s for s in walk_no_nested(gd) if isinstance(s, ast.Assign) and isinstance(s.targets[0], ast.Subscript) and unparse(s.targets[0].value) == cls_name + '.DB_PER_THREAD']
        if len(stores) != 1:
            raise AnalysisError('%s.get_db: expected one store into the per-thread registry, found %d' % (cls_name, len(stores)))
        val = stores[0].value
        # a local assigned once may carry the copy
        if isinstance(val, ast.Name):
            defs = [d for d in walk_no_nested(gd) if isinstance(d, ast.Assign) and any(isinstance(t, ast.Name) and t.id == val.id for t in d.targets)]
            if len(defs) == 1:
                val = defs[0].value
        src_ok = (cls_name + '.MASTER_DB') in unparse(val) or 'cls.MASTER_DB' in unparse(val)
        got = fresh_depth(val)
        n += 1
        rep.check(rule, '%s.get_db hands out a copy of MASTER_DB that is fresh on all %d mutable levels' % (cls_name, need), src_ok and got >= need, stores[0],
                  '%s.get_db registers %s, which is fresh on %s of the %d mutable container levels of MASTER_DB: the inner note lists stay shared with the master table, so %s' % (cls_name, unparse(val)[:110], got if got < INF else 'all', need, why),
                  stmt='%s per-thread copy depth' % cls_name, sample={'rule': rule, 'table': cls_name, 'mutable_levels': need, 'fresh_levels': 'all' if got >= INF else got})
    return n
