"""Model of the per-name text renderer ssh_audit.output_algorithm, obtained by abstract interpretation (sa/listinterp.py).

The function is interpreted -- never executed -- on a finite family of synthetic rating tables (entries of every row shape), names (known,
unknown, GSS wildcard instances, empty), size annotations and presentation flags.  What it does on each is recorded as
    lines   [(method of the output buffer, note it carries or None, the text)]      returned status      names appended to the unknown list
and compared by the callers (C01 emit clause, C02 status fold, C03 level mapping / unknown names, C15 non-interference) with what the
documentation states.  The model does not depend on how the function is written: helper functions, enumerate/flag loops, temporaries and
conditional expressions are all interpreted; a construct the interpreter does not know makes the callers report "cannot decide" (exit 2).
"""
import ast
import itertools

from sa.core import AnalysisError, unparse
from sa.abseval import Unknown, Opaque
from sa.listinterp import Interp

LEVELS = ('fail', 'warn', 'info')

# synthetic rating table: row 0 = version history (token), row 1 = failure notes, row 2 = warning notes, row 3 = informational notes
DB = {
    'kex': {
        'k-good': [['V1']],
        'k-fail': [['V2'], ['F1', 'F2']],
        'k-warn': [['V3'], [], ['W1']],
        'k-info': [['V4'], [], [], ['I1']],
        'k-all': [['V5'], ['F3'], ['W2', 'W3'], ['I2', 'I3']],
        'k-none': [[], [None], [None, 'W4']],
        'k-bare': [[]],
        'k-failinfo': [[], ['F4'], [], ['I4']],
        'gss-gex-sha1-*': [['V6'], [], ['W5']],
        'k-warnonly': [[], [], ['W7']],
        'k-failonly': [[], ['F5']],
    },
    'key': {
        'ssh-rsa': [['V7'], [], ['W6']],
        'h-good': [['V8']],
    },
    'enc': {
        'e-fail': [['V1'], ['F6'], ['W8']],
    },
    'mac': {
        'm-warn': [['V2'], [], ['W9']],
    },
}
SINCE = {'V1': 'since-V1', 'V2': 'since-V2', 'V3': 'since-V3', 'V4': 'since-V4', 'V5': 'since-V5', 'V6': 'since-V6', 'V7': 'since-V7', 'V8': 'since-V8'}
NAMES = {
    'kex': ['k-good', 'k-fail', 'k-warn', 'k-info', 'k-all', 'k-none', 'k-bare', 'k-failinfo', 'k-warnonly', 'k-failonly', 'gss-gex-sha1-AbC+d==', 'gss-zz-unknown-Q1', 'no-such-kex', '', '  ', 'h-good'],
    'key': ['ssh-rsa', 'h-good', 'k-good', 'nope'],
    'enc': ['e-fail', 'm-warn'],
    'mac': ['m-warn', 'e-fail'],
}
TOKENS = ['F1', 'F2', 'F3', 'F4', 'F5', 'F6', 'W7', 'W8', 'W9', 'W1', 'W2', 'W3', 'W4', 'W5', 'W6', 'I1', 'I2', 'I3', 'I4', 'unknown algorithm'] + sorted(SINCE.values())


class Fn:
    """an output-buffer method obtained by attribute access / getattr"""
    def __init__(self, name):
        self.name = name

    def __repr__(self):
        return '<out.%s>' % self.name

    def __deepcopy__(self, memo):
        return self


def expected_notes(alg_type, name):
    """[(level, note token or '' )] the documentation implies for a name: rows 1..3 map to fail / warn / info, the availability text leads the
    informational notes, an unknown name gets the 'unknown algorithm' warning, a known name without any note one empty informational note."""
    key = name
    if alg_type == 'kex' and name.startswith('gss-'):
        key = name[:name.rindex('-')] + '-*'
    table = DB[alg_type]
    if key not in table:
        return [('warn', 'unknown algorithm')], key
    rows = table[key]
    notes = []
    for i, lvl in enumerate(LEVELS, 1):
        if lvl == 'info' and rows[0] and SINCE.get(rows[0][0]):
            notes.append((lvl, SINCE[rows[0][0]]))
        if len(rows) > i:
            notes.extend((lvl, t) for t in rows[i] if t is not None)
    if not notes:
        notes = [('info', '')]
    return notes, None


def codes(repo):
    m = repo.mod('exitcodes')
    out = {}
    for st in m.tree.body:
        if isinstance(st, ast.Assign) and isinstance(st.targets[0], ast.Name) and isinstance(st.value, (ast.Constant, ast.UnaryOp)):
            try:
                out['exitcodes.' + st.targets[0].id] = ast.literal_eval(st.value)
            except ValueError:
                pass
    for k in ('exitcodes.GOOD', 'exitcodes.WARNING', 'exitcodes.FAILURE'):
        if k not in out:
            raise AnalysisError('anchor vanished: %s' % k)
    return out


def _rsa_family(repo):
    cls = repo.cls('hostkeytest', 'HostKeyTest')
    for st in cls.body:
        if isinstance(st, ast.Assign) and unparse(st.targets[0]) == 'RSA_FAMILY':
            return ast.literal_eval(st.value)
    raise AnalysisError('anchor vanished: HostKeyTest.RSA_FAMILY')


class Model:
    def __init__(self, repo):
        self.repo = repo
        self.oa = repo.func('ssh_audit', 'output_algorithm')
        self.codes = codes(repo)
        self.rsa = list(_rsa_family(repo))
        self.params = [a.arg for a in self.oa.args.args]
        need = {'out', 'alg_db', 'alg_type', 'alg_name', 'unknown_algs', 'program_retval'}
        if not need <= set(self.params):
            raise AnalysisError('output_algorithm: parameters %s not found' % sorted(need - set(self.params)))
        self.runs = 0
        self.cache = {}

    def run(self, alg_type, name, batch=False, verbose=False, retval=0, dh=None, host_keys=None, maxlen=0, level='info', unknown_init=()):
        key = (alg_type, name, batch, verbose, retval, repr(dh), repr(host_keys), maxlen, level, tuple(unknown_init))
        if key in self.cache:
            return self.cache[key]
        self.runs += 1
        repo = self.repo
        env = dict(self.codes)
        env['HostKeyTest.RSA_FAMILY'] = list(self.rsa)
        for lvl in ('fail', 'warn', 'info', 'good', 'head', 'sep', 'v', 'd'):
            env['out.' + lvl] = Fn(lvl)
        env['out.batch'] = batch
        env['out.verbose'] = verbose
        env['out.level'] = level
        env['out'] = Opaque()
        unknown = list(unknown_init)
        given = {'alg_db': {k: {n: [list(r) for r in rows] for n, rows in v.items()} for k, v in DB.items()}, 'alg_type': alg_type, 'alg_name': name, 'unknown_algs': unknown,
                 'program_retval': retval, 'alg_max_len': maxlen, 'host_keys': host_keys, 'dh_modulus_sizes': dh}
        defaults = self.oa.args.defaults
        for p, d in zip(self.params[len(self.params) - len(defaults):], defaults):
            env[p] = ast.literal_eval(d)
        for p in self.params:
            if p in given:
                env[p] = given[p]
            elif p != 'out' and p not in env:
                raise AnalysisError('output_algorithm: no model value for parameter %s' % p)
        lines = []

        def hook(call, e, interp):
            fn = call.func
            t = unparse(fn)
            if t == 'getattr' and len(call.args) == 2 and unparse(call.args[0]) == 'out':
                lvl = interp.value(call.args[1], e)
                if not isinstance(lvl, str):
                    raise Unknown('getattr(out, <uncomputable>)')
                return (True, Fn(lvl))
            target = None
            if isinstance(fn, ast.Name) and isinstance(e.get(fn.id), Fn):
                target = e[fn.id]
            elif isinstance(fn, ast.Attribute) and unparse(fn.value) == 'out' and fn.attr in ('fail', 'warn', 'info', 'good', 'head', 'sep', 'v', 'd'):
                target = Fn(fn.attr)
            elif isinstance(fn, (ast.IfExp, ast.Subscript, ast.Call)):
                try:
                    v = interp.value(fn, e)
                except Unknown:
                    v = None
                if isinstance(v, Fn):
                    target = v
            if target is not None:
                args = [interp.value(a, e) for a in call.args]
                e.setdefault('<lines>', []).append((target.name, args[0] if args else ''))
                return (True, None)
            if t == 'Utils.to_text' and len(call.args) == 1:
                return (True, interp.value(call.args[0], e))
            if t == 'out.get_level' and len(call.args) == 1:
                # OutputBuffer.get_level: rank of a level name in LEVELS = (info, warn, fail), 'good' ranks as info (confirmed by C15's level-filter rule)
                v = interp.value(call.args[0], e)
                if isinstance(v, str):
                    v = 'info' if v == 'good' else v
                    return (True, LEVELS[::-1].index(v) if v in LEVELS else 2 ** 63 - 1)
                raise Unknown('get_level of an uncomputable level')
            if t == 'Algorithm.get_since_text' and len(call.args) == 1:
                v = interp.value(call.args[0], e)
                if isinstance(v, list):
                    return (True, SINCE.get(v[0]) if v else None)
                raise Unknown('get_since_text of an uncomputable history')
            if isinstance(fn, ast.Attribute) and fn.attr in ('append', 'extend') and isinstance(fn.value, ast.Name) and isinstance(e.get(fn.value.id), list) and len(call.args) == 1 and isinstance(call.args[0], ast.GeneratorExp):
                seq = interp.value(call.args[0], e)
                if fn.attr == 'extend':
                    e[fn.value.id].extend(seq)
                    return (True, None)
            return None
        it = Interp(call_hook=hook, budget=60000)
        try:
            finals = it.run(self.oa.body, env)
        except Unknown as ex:
            raise AnalysisError('output_algorithm cannot be interpreted for (%s, %r): %s' % (alg_type, name, ex))
        if len(finals) == 1 and finals[0].get('<crash>'):
            raise AnalysisError('output_algorithm raises for (%s, %r): %s' % (alg_type, name, finals[0]['<crash>']))
        if len(finals) != 1 or finals[0].get('<forks>'):
            raise AnalysisError('output_algorithm does not evaluate on a single path for (%s, %r): forks %s' % (alg_type, name, [f.get('<forks>') for f in finals][:2]))
        f = finals[0]
        if f.get('<outcome>') != 'return' or isinstance(f.get('<return>'), Opaque):
            raise AnalysisError('output_algorithm: no computable return value for (%s, %r)' % (alg_type, name))
        out_lines = []
        for meth, text in f.get('<lines>', []):
            if not isinstance(text, str):
                raise AnalysisError('output_algorithm prints an uncomputable text for (%s, %r)' % (alg_type, name))
            note = None
            for tok in TOKENS:
                if tok in text:
                    note = tok
            out_lines.append((meth, note, text))
        res = {'lines': out_lines, 'ret': f['<return>'], 'unknown': list(f.get('unknown_algs', unknown))[len(unknown_init):]}
        self.cache[key] = res
        return res


def scenarios():
    for alg_type, names in NAMES.items():
        for name in names:
            yield alg_type, name


def size_annotations(alg_type, name):
    """(dh_modulus_sizes, host_keys) variants that apply to this name"""
    out = [(None, None)]
    if alg_type == 'kex':
        out.append(({name: 2048}, None))
    if alg_type == 'key':
        out.append((None, {name: {'hostkey_size': 3072, 'ca_key_type': '', 'ca_key_size': 0, 'raw_hostkey_bytes': b''}}))
        out.append((None, {name: {'hostkey_size': 3072, 'ca_key_type': 'ssh-rsa', 'ca_key_size': 4096, 'raw_hostkey_bytes': b''}}))
    return out


# presentation state the renderer can see: (batch, verbose, column width, minimum level of the output buffer, names already recorded as unknown)
PRESENTATIONS = [(False, False, 0, 'info', ()), (True, False, 24, 'info', ()), (False, True, 0, 'info', ()), (True, True, 24, 'info', ()),
                 (False, False, 64, 'warn', ('zz-earlier',)), (True, False, 64, 'fail', ('zz-earlier',)), (False, True, 8, 'fail', ())]


def fold(codes, incoming, levels):
    rank = {codes['exitcodes.GOOD']: 0, codes['exitcodes.WARNING']: 1, codes['exitcodes.FAILURE']: 2}
    inv = {v: k for k, v in rank.items()}
    return inv[max([rank[incoming]] + [{'info': 0, 'warn': 1, 'fail': 2}[lv] for lv in levels])]


def verify(repo, rep, clauses, rules=None):
    """Run the scenario family and report the requested clauses ('emit', 'fold', 'levels', 'unknown', 'noninterference') under the rule names
    given in `rules` (clause -> rule name of the calling check)."""
    rules = rules or {}
    m = Model(repo)
    rep.saw(m.oa)
    oa = m.oa
    cds = m.codes
    statuses = [cds['exitcodes.GOOD'], cds['exitcodes.WARNING'], cds['exitcodes.FAILURE']]
    nobl = 0
    for alg_type, name in scenarios():
        want_notes, unknown_key = expected_notes(alg_type, name) if name.strip() else ([], None)
        problems = {c: None for c in clauses}
        results = {}
        pres = list(PRESENTATIONS)
        if unknown_key is not None:
            pres.append((False, False, 0, 'info', (unknown_key,)))      # the same unknown name was advertised before (duplicate, or in another list)
        for (dh, hk), (batch, verbose, maxlen, level, uinit), st0 in itertools.product(size_annotations(alg_type, name), pres, statuses):
            r = m.run(alg_type, name, batch=batch, verbose=verbose, retval=st0, dh=dh, host_keys=hk, maxlen=maxlen, level=level, unknown_init=uinit)
            rep.evals()
            results[(repr(dh), repr(hk), (batch, verbose, maxlen, level, uinit), st0)] = r
            ctx = 'type %s, name %r, status in %s%s%s%s' % (alg_type, name, st0, ', batch' if batch else '', ', verbose' if verbose else '', ', column width %d, minimum level %s, %d unknown name(s) so far' % (maxlen, level, len(uinit)) if maxlen or uinit or level != 'info' else '')
            lines = r['lines']
            if not name.strip():
                if 'emit' in clauses and (lines or r['unknown']) and not problems['emit']:
                    problems['emit'] = 'an empty name (an empty name-list parses as [\'\']) produces output: %s (%s)' % ([l[2] for l in lines][:2], ctx)
                if 'fold' in clauses and r['ret'] != st0 and not problems['fold']:
                    problems['fold'] = 'an empty name changes the status from %s to %s (%s)' % (st0, r['ret'], ctx)
                continue
            shown = [n for n in want_notes if verbose or n[1] != '' or n is want_notes[0]]
            if 'emit' in clauses and not problems['emit']:
                if not lines:
                    problems['emit'] = 'the advertised name gets no line at all (%s)' % ctx
                elif '(%s) %s' % (alg_type, name) not in lines[0][2]:
                    problems['emit'] = 'the first line does not show the advertised name: %r (%s)' % (lines[0][2], ctx)
                elif len(lines) != len(shown):
                    problems['emit'] = '%d line(s) for %d note(s): %s (%s)' % (len(lines), len(shown), [l[2] for l in lines][:4], ctx)
            if 'fold' in clauses and not problems['fold']:
                # the status reflects what this call reports: the fold of the incoming status with the levels of the lines it emits (that the right notes
                # are emitted is the 'emit' / 'levels' clauses' business)
                shown_levels = [meth if meth in ('fail', 'warn') else 'info' for meth, _n, _t in lines]
                want = fold(cds, st0, shown_levels)
                if r['ret'] != want:
                    problems['fold'] = 'severity fold broken: incoming status %s with reported notes %s returns %r, expected %r (%s)' % (st0, shown_levels, r['ret'], want, ctx)
            if 'levels' in clauses and not problems['levels']:
                good = want_notes[0][0] == 'info'
                got = [(meth, note) for meth, note, _ in lines]
                exp = [('good' if good else lv, (t or None)) for lv, t in shown]
                if got != exp:
                    problems['levels'] = 'notes are rendered as %s, the rating table implies %s (%s)' % (got[:5], exp[:5], ctx)
            if 'unknown' in clauses and not problems['unknown']:
                exp = [unknown_key] if unknown_key is not None else []
                if r['unknown'] != exp:
                    problems['unknown'] = 'names recorded as unknown: %s, expected %s (%s)' % (r['unknown'], exp, ctx)
        if 'noninterference' in clauses:
            by_input = {}
            for (dh, hk, pres, st0), r in results.items():
                by_input.setdefault((dh, hk, st0, pres[4]), set()).add((r['ret'], tuple(r['unknown'])))      # pres[4]: names advertised before are input, not presentation
            for k, v in by_input.items():
                if len(v) > 1 and not problems['noninterference']:
                    problems['noninterference'] = 'the status / unknown-name list for (%s, %r) depends on presentation state (-b / -v / -l, column width): %s' % (alg_type, name, sorted(v))
        for c in clauses:
            nobl += 1
            rep.check(rules.get(c, c), 'per-name renderer, %s clause: %s %r over sizes x batch x verbose x incoming status' % (c, alg_type, name), problems[c] is None, oa,
                      'output_algorithm: %s' % problems[c], stmt='output_algorithm model: %s / %s %r' % (c, alg_type, name), sample={'rule': rules.get(c, c), 'clause': c, 'name': name, 'type': alg_type, 'runs': len(results)})
    return m.runs


# ---------------------------------------------------------------------------------------------------------------------------------------
# the JSON renderer's note lookup (build_struct.fetch_notes), same synthetic table
# ---------------------------------------------------------------------------------------------------------------------------------------
FAIL_UNKNOWN = '<FAIL_UNKNOWN>'


def json_notes(repo, alg_type, name):
    fn = repo.func('ssh_audit', 'build_struct.fetch_notes')
    params = [a.arg for a in fn.args.args]
    if len(params) != 2:
        raise AnalysisError('fetch_notes: expected (name, category) parameters, found %s' % params)
    table = {k: {n: [list(r) for r in rows] for n, rows in v.items()} for k, v in DB.items()}
    env = {params[0]: name, params[1]: alg_type, 'SSH2_KexDB.FAIL_UNKNOWN': FAIL_UNKNOWN}

    def hook(call, e, interp):
        t = unparse(call.func)
        if t in ('SSH2_KexDB.get_db', 'SSH1_KexDB.get_db') and not call.args:
            return (True, table)
        if t == 'Utils.to_text' and len(call.args) == 1:
            return (True, interp.value(call.args[0], e))
        if t == 'Algorithm.get_since_text' and len(call.args) == 1:
            v = interp.value(call.args[0], e)
            if isinstance(v, list):
                return (True, SINCE.get(v[0]) if v else None)
            raise Unknown('get_since_text of an uncomputable history')
        return None
    try:
        finals = Interp(call_hook=hook, budget=20000).run(fn.body, env)
    except Unknown as ex:
        raise AnalysisError('fetch_notes cannot be interpreted for (%s, %r): %s' % (alg_type, name, ex))
    if len(finals) == 1 and finals[0].get('<crash>'):
        return {'<crash>': finals[0]['<crash>']}
    if len(finals) != 1 or finals[0].get('<forks>') or finals[0].get('<outcome>') != 'return' or not isinstance(finals[0].get('<return>'), dict):
        raise AnalysisError('fetch_notes does not evaluate to one dictionary for (%s, %r): forks %s' % (alg_type, name, [f.get('<forks>') for f in finals][:2]))
    return finals[0]['<return>']


def verify_json(repo, rep, rule_levels, rule_unknown, rule_agree):
    """JSON view: rows 1,2,3 -> fail / warn / info (+ availability text under info), unknown names -> the single FAIL_UNKNOWN failure; and both
    views agree on the notes of every name of the family (the text view's model is the reference)."""
    fn = repo.func('ssh_audit', 'build_struct.fetch_notes')
    rep.saw(fn)
    m = Model(repo)
    for alg_type, name in scenarios():
        if not name.strip():
            continue
        got = json_notes(repo, alg_type, name)
        rep.evals()
        if '<crash>' in got:
            rep.check(rule_levels, 'JSON: the notes of %s %r can be looked up' % (alg_type, name), False, fn, 'fetch_notes(%r, %r) raises for a table entry with %d row(s): %s' % (name, alg_type, len(DB[alg_type].get(name, [])), got['<crash>']), stmt='fetch_notes model: crash')
            continue
        want_notes, unknown_key = expected_notes(alg_type, name)
        if unknown_key is not None:
            rep.check(rule_unknown, 'JSON: unknown name %r => fail [FAIL_UNKNOWN] and nothing else' % name, got == {'fail': [FAIL_UNKNOWN]}, fn, 'fetch_notes(%r, %r) for a name the table does not have returns %s' % (name, alg_type, got),
                      stmt='fetch_notes model: unknown %s %r' % (alg_type, name))
            continue
        want = {}
        for lv, t in want_notes:
            if t != '':
                want.setdefault(lv, []).append(t)
        norm = {k: sorted(x for x in v if x is not None) for k, v in got.items() if isinstance(v, list)}
        norm = {k: v for k, v in norm.items() if v}
        rep.check(rule_levels, 'JSON: rows 1,2,3 of %s %r are reported as fail, warn, info (availability text under info)' % (alg_type, name), norm == {k: sorted(v) for k, v in want.items()} and set(got) <= set(LEVELS) and all(isinstance(v, list) for v in got.values()), fn,
                  'fetch_notes(%r, %r) returns %s, the rating table implies %s' % (name, alg_type, got, want), stmt='fetch_notes model: levels %s %r' % (alg_type, name), sample={'rule': rule_levels, 'name': name, 'json': {k: repr(v) for k, v in got.items()}})
        text = m.run(alg_type, name, verbose=True)
        tv = {}
        for meth, note, _ in text['lines']:
            if note is not None:
                tv.setdefault('info' if meth == 'good' else meth, []).append(note)
        rep.check(rule_agree, 'both views give %s %r the same notes per level' % (alg_type, name), {k: sorted(v) for k, v in tv.items()} == norm, fn,
                  'the text view rates %s %r as %s, the JSON view as %s' % (alg_type, name, tv, norm), stmt='views agree: %s %r' % (alg_type, name))
