"""Shared by C11 and C17: the size-rating block of HostKeyTest.perform_test, interpreted on a given (type, size, CA type, CA size)."""
import ast

from sa.core import AnalysisError, unparse, walk_no_nested
from sa.abseval import track_block, Unknown

TRACKED = {'hostkey_min_good', 'cakey_min_good', 'hostkey_min_warn', 'cakey_min_warn', 'hostkey_warn_str', 'cakey_warn_str', 'key_fail_comments', 'key_warn_comments'}


def class_consts(repo, ce, modname, clsname):
    """Every class-level constant of the class that the constant evaluator can compute, keyed 'Class.NAME'."""
    out = {}
    cls = repo.cls(modname, clsname)
    for st in cls.body:
        tv = (st.targets[0], st.value) if isinstance(st, ast.Assign) and len(st.targets) == 1 else ((st.target, st.value) if isinstance(st, ast.AnnAssign) and st.value is not None else None)
        if tv and isinstance(tv[0], ast.Name):
            try:
                out['%s.%s' % (clsname, tv[0].id)] = ce.lookup(modname, '%s.%s' % (clsname, tv[0].id))
            except Exception:
                continue
    return out


def rating_block(repo):
    pt = repo.func('hostkeytest', 'HostKeyTest.perform_test')
    blocks = [n for n in walk_no_nested(pt) if isinstance(n, ast.If) and unparse(n.test) == 'hostkey_modulus_size > 0 or ca_modulus_size > 0']
    if len(blocks) != 1:
        raise AnalysisError('rating block `if hostkey_modulus_size > 0 or ca_modulus_size > 0` not found in perform_test')
    return pt, blocks[0]


def rate_key(blk, consts, host_key_type, cert, size, ca_type, ca_size, on_eval=None):
    """(failure comments, warning comments) the probe attaches to a host key of that type and size."""
    env = dict(consts)
    env.update({'cert': cert, 'host_key_type': host_key_type, 'hostkey_modulus_size': size, 'ca_key_type': ca_type, 'ca_modulus_size': ca_size, 'key_fail_comments': [], 'key_warn_comments': []})
    try:
        track_block([blk], env, TRACKED, on_eval=on_eval)
    except Unknown as e:
        raise AnalysisError('rating block not interpretable: %s' % e)
    return list(env['key_fail_comments']), list(env['key_warn_comments'])
