"""Shared by C11 and C17: the size-rating block of HostKeyTest.perform_test, interpreted on a given (type, size, CA type, CA size)."""
import ast

from sa.core import AnalysisError, unparse, walk_no_nested
from sa.abseval import track_block, Unknown, Opaque

TRACKED = {'hostkey_min_good', 'cakey_min_good', 'hostkey_min_warn', 'cakey_min_warn', 'hostkey_warn_str', 'cakey_warn_str', 'key_fail_comments', 'key_warn_comments'}


def class_consts(repo, ce, modname, clsname):
    """Every class-level constant of the class that the constant evaluator can compute, keyed 'Class.NAME'."""
    out = {}
    cls = repo.cls(modname, clsname)
    for st in cls.body:
        tv = (st.targets[0], st.value) if isinstance(st, ast.Assign) and len(st.targets) == 1 else ((st.target, st.value) if isinstance(st, ast.AnnAssign) and st.value is not None else None)
        if tv and isinstance(tv[0], ast.Name):
            try:
                out['%s.%s' % (clsname, tv[0].id)] = ce.lookup(modname, '%s.%s' % (clsname, tv[0].id))
            except Exception:
                continue
    return out


def rating_block(repo):
    """(perform_test, anchor node for reports) -- the rating itself is obtained by interpreting the whole probe (probe() below), not a block of it"""
    pt = repo.func('hostkeytest', 'HostKeyTest.perform_test')
    return pt, pt


def rate_key(blk, consts, host_key_type, cert, size, ca_type, ca_size, on_eval=None, repo=None):
    """(failure comments, warning comments) the probe attaches to a host key of that type and size: HostKeyTest.perform_test is interpreted with
    sa/listinterp.py for a server that offers this one key type; helper methods it calls are interpreted in place."""
    ev_ = probe(repo, consts, [(host_key_type, cert, size, ca_type, ca_size)])
    if on_eval:
        on_eval()
    r = ev_['table'].get(host_key_type, [])
    return (list(r[1]) if len(r) > 1 else []), (list(r[2]) if len(r) > 2 else [])


def loop_carried_into_table(repo):
    """Locals of HostKeyTest.perform_test whose value can flow from one iteration of the per-key-type loop into what is written
    for the NEXT key type: names in the data slice of the table writes (db[...] extends / stores, set_host_key arguments) that are
    assigned or mutated inside the loop and can be read in an iteration before being (re)assigned in that iteration.
    Returns [(name, use statement, witness path description)]."""
    from sa.cfg import CFG, describe_path
    from sa.slicer import uses
    pt = repo.func('hostkeytest', 'HostKeyTest.perform_test')
    loops = [n for n in walk_no_nested(pt) if isinstance(n, ast.For) and isinstance(n.target, ast.Name) and n.target.id == 'host_key_type']
    if len(loops) != 1:
        raise AnalysisError('per-key-type loop of perform_test not found')
    lp = loops[0]
    params = {a.arg for a in pt.args.args}
    in_loop = [n for st in lp.body for n in ast.walk(st)]
    # sinks: values written into the table / the host key record
    sink_names = set()
    for n in in_loop:
        if isinstance(n, ast.Call) and isinstance(n.func, ast.Attribute):
            recv = unparse(n.func.value)
            if (n.func.attr in ('extend', 'append', 'insert') and recv.startswith('db[')) or unparse(n.func) == 'server_kex.set_host_key':
                for a in n.args:
                    sink_names |= {u for u in uses(a) if '.' not in u}
        if isinstance(n, ast.Assign) and any(unparse(t).startswith('db[') for t in n.targets):
            sink_names |= {u for u in uses(n.value) if '.' not in u}
    if not sink_names:
        raise AnalysisError('no table write found inside the per-key-type loop of perform_test')
    # transitive data dependence inside the loop (assignments and appends)
    changed = True
    while changed:
        changed = False
        for n in in_loop:
            tgt, val = None, None
            if isinstance(n, ast.Assign):
                for t in n.targets:
                    for x in ast.walk(t):
                        if isinstance(x, ast.Name) and x.id in sink_names:
                            tgt, val = x.id, n.value
            elif isinstance(n, ast.Call) and isinstance(n.func, ast.Attribute) and n.func.attr in ('append', 'extend', 'add') and isinstance(n.func.value, ast.Name) and n.func.value.id in sink_names and n.args:
                tgt, val = n.func.value.id, n.args[0]
            if tgt is not None:
                new = {u for u in uses(val) if '.' not in u} - sink_names
                if new:
                    sink_names |= new
                    changed = True
    # candidates: assigned or mutated inside the loop
    touched = set()
    for n in in_loop:
        if isinstance(n, ast.Name) and isinstance(n.ctx, ast.Store):
            touched.add(n.id)
        if isinstance(n, ast.Call) and isinstance(n.func, ast.Attribute) and n.func.attr in ('append', 'extend', 'add', 'insert') and isinstance(n.func.value, ast.Name):
            touched.add(n.func.value.id)
    cands = sorted((sink_names & touched) - params - {lp.target.id})
    cfg = CFG(pt, exc_edges=False)
    head = cfg.nodes_of(lp, kinds=('test',))
    if not head:
        raise AnalysisError('loop head of the per-key-type loop not found in the CFG')
    body_stmts = {id(s) for st in lp.body for s in ast.walk(st) if isinstance(s, ast.stmt)}
    out = []
    for v in cands:
        def assigns(st, v=v):
            if id(st) not in body_stmts:
                return False
            if isinstance(st, (ast.Assign, ast.AnnAssign, ast.AugAssign)):
                tg = st.targets if isinstance(st, ast.Assign) else [st.target]
                return any(isinstance(x, ast.Name) and x.id == v for t in tg for x in ast.walk(t)) and not isinstance(st, ast.AugAssign)
            if isinstance(st, (ast.For,)):
                return any(isinstance(x, ast.Name) and x.id == v for x in ast.walk(st.target))
            return False

        def reads(st, v=v):
            if id(st) not in body_stmts:
                return False
            target = st.test if isinstance(st, (ast.If, ast.While)) else (st.iter if isinstance(st, ast.For) else st)
            if isinstance(st, (ast.With, ast.Try)):
                return False
            for x in ast.walk(target):
                if isinstance(x, ast.Name) and x.id == v and isinstance(x.ctx, ast.Load):
                    # the value expression of an assignment to v itself that does not read v is not a read
                    return True
            return False
        defs = cfg.stmts_matching(assigns)
        usez = [n for n in cfg.stmts_matching(reads) if not (n in defs and not _reads_own(n.stmt, v))]
        starts = set()
        for h in head:
            starts |= set(h.succ)
        pth = cfg.find_path(list(starts), usez, avoid=list(defs) + list(head))
        if pth is not None:
            out.append((v, pth[-1].stmt, describe_path(pth)))
    return pt, cands, out


def _reads_own(st, v):
    val = getattr(st, 'value', None)
    return val is not None and any(isinstance(x, ast.Name) and x.id == v for x in ast.walk(val))


def stale_measurement_fields(repo):
    """Fields of KexDH that the measurement getters read and that can survive from one exchange to the next.

    One key-exchange object is reused for every probed host-key type (send_init(); recv_reply()).  A field read by
    get_hostkey_size / get_ca_type / get_ca_size / get_hostkey_type is fresh for an exchange when it is assigned on every path
    of recv_reply before any normal return (must-assignment on the CFG; a call of another method of the class on the same
    receiver counts for the fields that method assigns on all of its paths), or when EVERY implementation of send_init in the
    class hierarchy (overrides included) assigns it that way.  Returns (fields read by the getters, [(field, reason)])."""
    from sa.cfg import CFG
    kcls = repo.cls('kexdh', 'KexDH')
    methods = {f.name: f for f in kcls.body if isinstance(f, ast.FunctionDef)}
    getters = [m for m in ('get_hostkey_size', 'get_ca_type', 'get_ca_size', 'get_hostkey_type') if m in methods]
    if len(getters) < 3:
        raise AnalysisError('measurement getters of KexDH not found')
    fields = set()
    for g in getters:
        for n in ast.walk(methods[g]):
            if isinstance(n, ast.Attribute) and isinstance(n.value, ast.Name) and n.value.id == 'self' and isinstance(n.ctx, ast.Load) and n.attr.startswith('__') and not isinstance(getattr(n, '_parent', None), ast.Call):
                fields.add(n.attr)
            elif isinstance(n, ast.Attribute) and isinstance(n.value, ast.Name) and n.value.id == 'self' and isinstance(n.ctx, ast.Load) and n.attr.startswith('__') and isinstance(n._parent, ast.Call) and n._parent.func is not n:
                fields.add(n.attr)
    memo = {}

    def must_assign(func, cls_methods, depth=0):
        """fields assigned on every path from entry to a normal return of func"""
        key = id(func)
        if key in memo:
            return memo[key]
        memo[key] = set()
        cfg = CFG(func, exc_edges=False)

        def gen(node):
            out = set()
            st = node.stmt
            if st is None or node.kind not in ('stmt', 'return'):
                return out
            for x in ast.walk(st):
                if isinstance(x, ast.Attribute) and isinstance(x.ctx, ast.Store) and isinstance(x.value, ast.Name) and x.value.id == 'self':
                    out.add(x.attr)
                if isinstance(x, ast.Call) and isinstance(x.func, ast.Attribute) and depth < 3:
                    recv = x.func.value
                    callee = None
                    if isinstance(recv, ast.Name) and recv.id == 'self' and x.func.attr in cls_methods:
                        callee = cls_methods[x.func.attr]
                    elif isinstance(recv, ast.Call) and isinstance(recv.func, ast.Name) and recv.func.id == 'super' and x.func.attr in methods:
                        callee = methods[x.func.attr]
                    if callee is not None and callee is not func:
                        out |= must_assign(callee, cls_methods, depth + 1)
            return out
        # forward must-analysis: IN[n] = intersection over preds; start with TOP for all but entry
        TOP = None
        state = {n: TOP for n in cfg.nodes}
        state[cfg.entry] = set()
        changed = True
        while changed:
            changed = False
            for n in cfg.nodes:
                if n is cfg.entry:
                    continue
                ins = [state[p] | gen(p) for p in n.pred if state[p] is not TOP]
                if not ins:
                    continue
                new = set.intersection(*ins) if ins else set()
                if state[n] is TOP or new != state[n]:
                    state[n] = new
                    changed = True
        rets = [n for n in cfg.nodes if n.kind == 'return'] + [cfg.exit]
        outs = [state[n] | gen(n) for n in rets if state[n] is not TOP and (n.kind == 'return' or n is cfg.exit)]
        # the synthetic exit collects fall-through and returns; use explicit returns plus fall-through predecessors
        res = set.intersection(*outs) if outs else set()
        memo[key] = res
        return res
    rr = methods.get('recv_reply')
    if rr is None:
        raise AnalysisError('KexDH.recv_reply not found')
    fresh_in_reply = must_assign(rr, methods)
    # every implementation of send_init
    impls = []
    for c in [n for n in ast.walk(repo.mod('kexdh').tree) if isinstance(n, ast.ClassDef)]:
        for f in c.body:
            if isinstance(f, ast.FunctionDef) and f.name == 'send_init':
                cm = dict(methods)
                cm.update({g.name: g for g in c.body if isinstance(g, ast.FunctionDef)})
                impls.append((c.name, f, cm))
    stale = []
    for fld in sorted(fields):
        if fld in fresh_in_reply:
            continue
        missing = [cn for cn, f, cm in impls if fld not in must_assign(f, cm)]
        if missing or not impls:
            stale.append((fld, 'not assigned on every path of recv_reply, nor by send_init of %s' % ', '.join(missing[:4]) if impls else 'not assigned on every path of recv_reply'))
    return rr, sorted(fields), stale


# host key blob layouts (RFC 4253 6.6, RFC 8709, OpenSSH PROTOCOL.certkeys): the string fields in front of the certificate's serial number
BLOBS = {
    'ssh-rsa': [('type', b'ssh-rsa'), ('e', b'\x01\x00\x01'), ('n', b'\x00' + b'\xc3' * 384)],
    'ssh-ed25519': [('type', b'ssh-ed25519'), ('pk', b'\x11' * 32)],
    'ssh-ed448': [('type', b'ssh-ed448'), ('pk', b'\x22' * 57)],
    'ssh-rsa-cert-v01@openssh.com': [('type', b'ssh-rsa-cert-v01@openssh.com'), ('nonce', b'\x33' * 20), ('e', b'\x01\x00\x01'), ('n', b'\x00' + b'\xc3' * 512)],
    'ssh-ed25519-cert-v01@openssh.com': [('type', b'ssh-ed25519-cert-v01@openssh.com'), ('nonce', b'\x33' * 20), ('pk', b'\x11' * 32)],
}


def blob_layout_problems(repo, consts=None):
    """KexDH.recv_reply interpreted (sa/listinterp.py) from its first statement on a well-formed reply, with __get_bytes abstracted to "read the next string
    field" of the reply (host key blob, f, signature) or of the blob: for each supported key type the recorded key length must be the length of the key field
    of that type, and for certificates the CA parser must be entered exactly at the serial number (all string fields in front of it consumed).  The
    arguments are the ones HostKeyTest.perform_test passes for that key type (probe model; the real HOST_KEY_TYPES row).  Returns (cases, [(type, message)])."""
    import binascii
    from sa.listinterp import Interp
    from sa.abseval import Opaque
    from sa.core import call_name
    from sa.consteval import ConstEnv
    rr = repo.func('kexdh', 'KexDH.recv_reply')
    params = [a.arg for a in rr.args.args]
    ce = ConstEnv(repo)
    if consts is None:
        consts = class_consts(repo, ce, 'hostkeytest', 'HostKeyTest')
    proto = {}
    for k, v in class_consts(repo, ce, 'protocol', 'Protocol').items():
        proto[k] = v
    if 'Protocol.MSG_KEXDH_REPLY' not in proto:
        raise AnalysisError('anchor vanished: Protocol.MSG_KEXDH_REPLY')
    defaults = {}
    nd = len(rr.args.defaults)
    for p_, d in zip(params[len(params) - nd:], rr.args.defaults):
        try:
            defaults[p_] = ast.literal_eval(d)
        except (ValueError, SyntaxError):
            raise AnalysisError('recv_reply: default of %s is not a literal' % p_)
    problems = []
    for ktype, fields in BLOBS.items():
        # what the probe passes for this key type
        ev_ = probe(repo, consts, [(ktype, '-cert-' in ktype, 256, '', 0)])
        mine = [ra for ra in ev_['reply_args'] if ra[0] == ktype]
        if len(mine) != 1:
            raise AnalysisError('probe model: %d recv_reply calls for %s' % (len(mine), ktype))
        bound = dict(defaults)
        if len(mine[0][1]) > len(params) - 2:
            raise AnalysisError('recv_reply called with more arguments than it has parameters')
        bound.update(dict(zip(params[2:], mine[0][1])))
        bound.update(mine[0][2])
        ca_calls = []
        HOSTKEY, PAYLOAD = b'<hostkey blob>', b'<reply payload>'
        outer = [('hostkey', HOSTKEY), ('f', b'<f>'), ('signature', b'<signature>')]

        def hook(call, env, interp, fields=fields, ca_calls=ca_calls):
            nm = call_name(call) or unparse(call.func)
            if nm.endswith('__get_bytes') and len(call.args) == 2:
                buf = interp.value(call.args[0], env)
                ptr = interp.value(call.args[1], env)
                src = outer if buf == PAYLOAD else (fields if buf == HOSTKEY else None)
                if src is None or not isinstance(ptr, int):
                    raise Unknown('__get_bytes on %s at a non-field position' % unparse(call.args[0]))
                if 0 <= ptr < len(src):
                    return (True, (src[ptr][1], len(src[ptr][1]), ptr + 1))
                return (True, (Opaque(), Opaque(), ptr + 1))
            if nm.endswith('__parse_ca_key'):
                ptr = interp.value(call.args[-1], env)
                ca_calls.append(ptr)
                return (True, ('<ca type>', 99))
            if nm.endswith('.read_packet'):
                return (True, (proto['Protocol.MSG_KEXDH_REPLY'], PAYLOAD))
            if nm == 'binascii.hexlify' and len(call.args) == 1:
                v = interp.value(call.args[0], env)
                if isinstance(v, bytes):
                    return (True, binascii.hexlify(v))
            if nm == 'int' and len(call.args) == 2:
                a_, b_ = [interp.value(x, env) for x in call.args]
                if isinstance(a_, (bytes, str)) and isinstance(b_, int):
                    try:
                        return (True, int(a_, b_))
                    except ValueError:
                        raise Unknown('int() of a field that is not a number')
            if nm.endswith('out.d') or nm.endswith('out.v'):
                return (True, None)
            return None
        env = dict(proto)
        env.update({params[0]: Opaque(), params[1]: Opaque(), 'self.__hostkey_n_len': 0, 'self.__ca_key_type': '', 'self.__ca_n_len': 0, 'self.__hostkey_type': ''})
        env.update(bound)
        missing = [p_ for p_ in params if p_ not in env]
        if missing:
            raise AnalysisError('recv_reply: no value for parameter(s) %s in the call perform_test makes' % missing)
        try:
            finals = Interp(call_hook=hook, try_normal_path=True).run(rr.body, env)
        except Unknown as e:
            raise AnalysisError('recv_reply blob walk not interpretable for %s: %s' % (ktype, e))
        if len(finals) != 1 or finals[0].get('<forks>'):
            raise AnalysisError('recv_reply blob walk for %s depends on a condition the analysis does not model: %s' % (ktype, [f.get('<forks>') for f in finals][:2]))
        fe = finals[0]
        if fe.get('<crash>') or fe.get('<outcome>') == 'raise':
            problems.append((ktype, 'a well-formed reply makes recv_reply raise (%s)' % (fe.get('<crash>') or 'explicit raise')))
            continue
        if fe.get('<return>') != HOSTKEY:
            problems.append((ktype, 'recv_reply returns %r, not the host key blob of the reply (the fingerprints are computed from it)' % (fe.get('<return>'),)))
        keyfield = [f for f in fields if f[0] in ('n', 'pk')][0]
        is_cert = '-cert-' in ktype
        fixed = not (consts.get('HostKeyTest.HOST_KEY_TYPES', {}).get(ktype, {}) or {}).get('variable_key_len', True)
        got_len = fe.get('self.__hostkey_n_len')
        # a plain fixed-size key (Ed25519 / Ed448) needs no measured length: its report carries no size and its rating none; everything else does
        if got_len != len(keyfield[1]) and not (fixed and not is_cert and got_len == 0):
            problems.append((ktype, 'the recorded key length is %r bytes, the %s field of a %s blob has %d' % (got_len, keyfield[0], ktype, len(keyfield[1]))))
        if is_cert:
            if ca_calls != [len(fields)]:
                problems.append((ktype, 'the CA parser is entered %s; the serial number follows the %d string fields %s, so the CA type and size %s' % (
                    ('after %s string field(s)' % ca_calls[0]) if ca_calls else 'never', len(fields), [f[0] for f in fields], 'are read from the wrong bytes (no CA, or garbage, is recorded)' if ca_calls else 'are never recorded for this certificate type')))
            elif fe.get('self.__ca_key_type') != '<ca type>' or fe.get('self.__ca_n_len') != 99:
                problems.append((ktype, 'the CA type/size returned by the CA parser are not stored in the fields the getters read'))
        elif ca_calls:
            problems.append((ktype, 'the CA parser runs for a plain %s key' % ktype))
    return rr, len(BLOBS), problems


# ---------------------------------------------------------------------------------------------------------------------------------------
# the probe as a whole, by interpretation: measured (type, size, CA type, CA size) -> what lands in the rating table / the host key record
# ---------------------------------------------------------------------------------------------------------------------------------------
class _Tok:
    def __init__(self, name, attrs=None):
        self.name = name
        self.attrs = attrs or {}

    def __repr__(self):
        return self.name

    def __deepcopy__(self, memo):
        return self


def probe(repo, consts, measurements, offered=None, table=None, no_reply=()):
    """Interpret HostKeyTest.perform_test along its no-exception path for the host-key types in `measurements` = [(type, cert, size, ca type, ca size)]
    (in that order; every one offered by the server unless `offered` says otherwise).
    -> {'table': {type: rows}, 'records': [(type, size, ca type, ca size)], 'connects': n, 'closes': n, 'kexinits': [...]}"""
    from sa.listinterp import Interp
    from sa.core import call_name
    pt = repo.func('hostkeytest', 'HostKeyTest.perform_test')
    params = [a.arg for a in pt.args.args]
    need = ['out', 's', 'server_kex', 'kex_str', 'kex_group', 'host_key_types']
    if params != need:
        raise AnalysisError('perform_test: parameters are %s, the model expects %s' % (params, need))
    types = [m[0] for m in measurements]
    rsa = list(consts.get('HostKeyTest.RSA_FAMILY', []))
    tbl = table if table is not None else {'key': {t: [['<versions>']] for t in set(types) | set(rsa)}}
    cur = {'i': -1, 'connected': False}
    events = {'records': [], 'connects': 0, 'closes': 0, 'kexinits': [], 'inits': 0, 'log': [], 'reply_args': []}
    by_type = {m[0]: m for m in measurements}
    server_kex = _Tok('<server_kex>', {'key_algorithms': list(offered if offered is not None else types), 'server': _Tok('<server_kex.server>', {'encryption': ['<enc>'], 'mac': ['<mac>'], 'compression': ['none'], 'languages': ['']})})
    real_rows = consts.get('HostKeyTest.HOST_KEY_TYPES', {}) if isinstance(consts.get('HostKeyTest.HOST_KEY_TYPES'), dict) else {}
    env = dict(consts)
    env.update({'out': Opaque(), 'out.debug': False, 's': Opaque(), 'server_kex': server_kex, 'kex_str': '<kex>', 'kex_group': Opaque(),
                'host_key_types': {m[0]: dict(real_rows.get(m[0], {'variable_key_len': False}), cert=m[1]) for m in measurements}})
    state = {'type': None}

    def hook(call, e, interp):
        t = call_name(call) or unparse(call.func)
        if t == 's.is_connected':
            return (True, cur['connected'])
        if t == 's.connect':
            cur['connected'] = True
            events['connects'] += 1
            events['log'].append('connect')
            return (True, None)
        if t == 's.close':
            cur['connected'] = False
            events['closes'] += 1
            events['log'].append('close')
            return (True, None)
        if t == 's.get_banner':
            return (True, (Opaque(), [], None))
        if t == 's.send_kexinit':
            kw = {k.arg: interp.value(k.value, e) for k in call.keywords if k.arg}
            events['kexinits'].append(kw)
            hk = kw.get('hostkeys')
            state['type'] = hk[0] if isinstance(hk, list) and len(hk) == 1 else None
            return (True, None)
        if t == 's.read_packet':
            return (True, (20, b'payload'))
        if t == 'SSH2_Kex.parse':
            return (True, Opaque())
        if t == 'kex_group.send_init':
            events['inits'] += 1
            events['log'].append('init')
            return (True, None)
        if t == 'kex_group.recv_reply':
            events['reply_args'].append((state['type'], [interp.value(a, e) for a in call.args[1:]], {k.arg: interp.value(k.value, e) for k in call.keywords if k.arg}))
            if state['type'] in no_reply:
                return (True, None)      # the peer hung up instead of answering this probe: recv_reply() returns None (it does not raise)
            return (True, b'<blob of %s>' % (state['type'] or '?').encode())
        if t in ('kex_group.get_hostkey_size', 'kex_group.get_ca_type', 'kex_group.get_ca_size'):
            m = by_type.get(state['type'])
            if m is None:
                raise Unknown('measurement requested without a probe for one host-key type')
            if state['type'] in no_reply:
                return (True, {'kex_group.get_hostkey_size': 0, 'kex_group.get_ca_type': '', 'kex_group.get_ca_size': 0}[t])
            return (True, {'kex_group.get_hostkey_size': m[2], 'kex_group.get_ca_type': m[3], 'kex_group.get_ca_size': m[4]}[t])
        if t == 'server_kex.set_host_key':
            vals = [interp.value(a, e) for a in call.args]
            events['records'].append(tuple(vals[:1] + vals[2:5]))
            events.setdefault('record_blobs', []).append((vals[0], vals[1] if len(vals) > 1 else None))
            return (True, None)
        if t == 'SSH2_KexDB.get_db':
            return (True, tbl)
        if t in ('out.d', 'out.v', 'traceback.format_exc', 'str'):
            return (True, '')
        if isinstance(call.func, ast.Attribute) and call.func.attr == 'hex':
            return (True, '')
        return None

    def attr_hook(base, attr, interp):
        if isinstance(base, _Tok):
            if attr in base.attrs:
                return (True, base.attrs[attr])
            raise Unknown('no model value for %r.%s' % (base, attr))
        return None

    def resolver(call):
        nm = call_name(call) or ''
        if nm.startswith(('HostKeyTest.', 'cls.', 'self.')) and repo.has_func('hostkeytest', 'HostKeyTest.' + nm.split('.', 1)[1]) and nm.split('.', 1)[1] not in ('perform_test', 'run'):
            return repo.func('hostkeytest', 'HostKeyTest.' + nm.split('.', 1)[1])
        return None
    try:
        finals = Interp(call_hook=hook, attr_hook=attr_hook, resolver=resolver, try_normal_path=True, budget=60000).run(pt.body, env)
    except Unknown as ex:
        raise AnalysisError('perform_test cannot be interpreted: %s' % ex)
    if len(finals) != 1 or finals[0].get('<forks>'):
        raise AnalysisError('perform_test: outcome depends on a condition the analysis does not model: %s' % [f.get('<forks>') for f in finals][:2])
    events['table'] = tbl['key']
    events['crash'] = finals[0].get('<crash>')
    return events
