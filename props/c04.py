"""C04 -- Terrapin exposure is flagged exactly per the published rule."""
import ast
import itertools

from sa.core import AnalysisError, unparse, walk_no_nested, stmt_text, call_name, bind_args
from sa.logic import path_condition, eval_prop, text_atomizer
from sa.abseval import ev, Unknown
from sa.consteval import ConstEnv

EXPL = ('Decides the complete decision table of post_process_findings from its AST: (1) the strict-kex marker expression over all valuations of '
        '{kex present, client audit, client marker offered, server marker offered}; (2) every call site of the Terrapin warning adder and every append to the advisory list, with '
        'its category, the list it iterates and its path condition, evaluated over {marker, CBC offered, ETM offered}; no other call site of the adder exists in the package and it '
        'appends to the warning row only; (3) the name-shape predicates of the enabled / not-enabled helper pairs agree, read the role-appropriate list, and classify every database name of that '
        'shape; (4) the not-enabled lists flow into the suppression list, through both recommendation paths, where suppressed names are skipped; (5) the table subscript on a peer-supplied name is total. '
        'Not decided: wording of the advisory note.')

# database names that contain the shape substring but are outside the tool's published predicate, each with a reason
PER_NAME_EXCEPTIONS = {
    ('enc', 'des-cbc-ssh1'): 'ssh.com SSH-1 compatibility name; not matched by the published -cbc suffix rule and never paired with OpenSSH ETM MACs',
}


def shape_predicate(func, var_hint=None):
    """The If test that classifies the loop variable inside a helper: returns (loopvar, iterable expr, test expr)."""
    loops = [n for n in walk_no_nested(func) if isinstance(n, ast.For)]
    if len(loops) != 1:
        raise AnalysisError('helper %s: expected one loop, found %d' % (func.name, len(loops)))
    lp = loops[0]
    if not isinstance(lp.target, ast.Name):
        raise AnalysisError('helper %s: loop target not a name' % func.name)
    ifs = [s for s in lp.body if isinstance(s, ast.If)]
    if len(ifs) != 1 or len(lp.body) != 1:
        raise AnalysisError('helper %s: loop body is not a single classification test' % func.name)
    return lp.target.id, lp, ifs[0]


def shape_atoms(test, var):
    """Set of (method, literal) shape tests on `var` inside test; other conjuncts returned separately."""
    shapes, others = set(), []

    def rec(n, top_and):
        if isinstance(n, ast.BoolOp):
            for v in n.values:
                rec(v, top_and and isinstance(n.op, ast.And))
            return
        if isinstance(n, ast.Call) and isinstance(n.func, ast.Attribute) and unparse(n.func.value) == var and n.func.attr in ('startswith', 'endswith') and len(n.args) == 1 and isinstance(n.args[0], ast.Constant):
            shapes.add((n.func.attr, n.args[0].value))
            return
        if isinstance(n, ast.Compare) and len(n.ops) == 1 and isinstance(n.ops[0], ast.Eq) and unparse(n.left) == var and isinstance(n.comparators[0], ast.Constant):
            shapes.add(('==', n.comparators[0].value))
            return
        others.append(n)
    rec(test, True)
    return shapes, others


def apply_shape(shapes, name):
    for m, lit in shapes:
        if m == 'startswith' and name.startswith(lit):
            return True
        if m == 'endswith' and name.endswith(lit):
            return True
        if m == '==' and name == lit:
            return True
    return False


def run(repo, rep, tier):
    rep.explanation = EXPL
    ce = ConstEnv(repo)
    db2 = ce.lookup('ssh2_kexdb', 'SSH2_KexDB.MASTER_DB')
    ppf = repo.func('ssh_audit', 'post_process_findings')
    rep.saw(ppf)
    helpers = {}
    for nm in ('_add_terrapin_warning', '_get_chacha_ciphers_enabled', '_get_chacha_ciphers_not_enabled', '_get_cbc_ciphers_enabled', '_get_cbc_ciphers_not_enabled', '_get_etm_macs_enabled', '_get_etm_macs_not_enabled'):
        helpers[nm] = repo.func('ssh_audit', 'post_process_findings.' + nm)
        rep.saw(helpers[nm])

    # ---- rule 1: marker detection --------------------------------------------------------------------------
    asg = [n for n in walk_no_nested(ppf) if isinstance(n, ast.Assign) and unparse(n.targets[0]) == 'kex_strict_marker']
    init = [a for a in asg if unparse(a.value) == 'False' and a in ppf.body]
    sets = [a for a in asg if unparse(a.value) == 'True']
    rep.check('marker', 'marker flag starts False and is set True at one guarded site', len(asg) == 2 and len(init) == 1 and len(sets) == 1, asg[0] if asg else ppf, 'definitions of kex_strict_marker: %s' % [unparse(a) for a in asg])
    if len(sets) == 1:
        conds = [(t, p) for t, p, k in path_condition(sets[0])]
        from sa.slicer import uses as _uses
        role_read = any('client_audit' in _uses(t) for t, p in conds)
        rep.check('marker', 'marker detection depends on the audited role (client marker for clients, server marker for servers)', role_read, sets[0],
                  'strict-kex marker detection does not look at the audited role (%s): a peer advertising only the other role\'s marker is treated as protected' % ' and '.join(unparse(t)[:120] for t, p in conds))
        if not role_read:
            conds = []
        C_LIT, S_LIT = 'kex-strict-c-v00@openssh.com', 'kex-strict-s-v00@openssh.com'
        table = {
            'algs.ssh2kex is not None': 'kexp', 'client_audit': 'client',
            "'%s' in algs.ssh2kex.kex_algorithms" % C_LIT: 'c', "'%s' in algs.ssh2kex.kex_algorithms" % S_LIT: 's',
        }
        atz = text_atomizer(table)
        bad = []
        for bits in (itertools.product([False, True], repeat=4) if conds else []):
            val = dict(zip(['kexp', 'client', 'c', 's'], bits))
            got = all(eval_prop(t, atz, val) == p for t, p in conds)
            want = val['kexp'] and ((val['client'] and val['c']) or (not val['client'] and val['s']))
            rep.evals()
            if got != want:
                bad.append((val, got, want))
        rep.check('marker', 'marker <=> kex present and ((client and client-marker) or (server and server-marker)) on all 16 rows', not bad, sets[0],
                  'strict-kex marker detection differs from the rule, e.g. %s gives %s (rule: %s)' % (bad[0] if bad else ({}, None, None)), sample={'rule': 'marker', 'rows': 16, 'guards': [unparse(t) for t, p in conds]})
        for lit in (C_LIT, S_LIT):
            rep.check('marker', 'marker literal %s is a database kex name' % lit, lit in db2['kex'], sets[0], 'marker literal %r unknown to the database' % lit)

    # ---- rule 2: site table --------------------------------------------------------------------------------------
    # local lists: name -> helper producing it
    producers = {}
    for n in walk_no_nested(ppf):
        if isinstance(n, ast.Assign) and isinstance(n.value, ast.Call) and call_name(n.value) in helpers and isinstance(n.targets[0], ast.Name):
            producers[n.targets[0].id] = call_name(n.value)

    def iter_source(expr):
        if isinstance(expr, ast.Call) and call_name(expr) in helpers:
            return call_name(expr)
        if isinstance(expr, ast.Name) and expr.id in producers:
            return producers[expr.id]
        return None
    atoms_tab = {'kex_strict_marker': 'marker'}
    for var, h in producers.items():
        if h == '_get_cbc_ciphers_enabled':
            atoms_tab['len(%s) > 0' % var] = 'cbc'
        if h == '_get_etm_macs_enabled':
            atoms_tab['len(%s) > 0' % var] = 'etm'
    atz = text_atomizer(atoms_tab)
    sites = []      # (kind, category, source helper, conds, node)
    for n in walk_no_nested(ppf):
        if isinstance(n, ast.Call) and call_name(n) == '_add_terrapin_warning':
            cat = n.args[1].value if len(n.args) > 1 and isinstance(n.args[1], ast.Constant) else None
            sites.append(('warn', cat, n))
        elif isinstance(n, ast.Call) and unparse(n.func) == 'algs_to_note.append':
            sites.append(('note', None, n))
    rep.floor('sites', 'Terrapin marking sites', len(sites), 6)
    REQUIRED = {
        ('warn', 'enc', '_get_chacha_ciphers_enabled'): lambda v: not v['marker'],
        ('warn', 'enc', '_get_cbc_ciphers_enabled'): lambda v: not v['marker'] and v['cbc'] and v['etm'],
        ('warn', 'mac', '_get_etm_macs_enabled'): lambda v: not v['marker'] and v['cbc'] and v['etm'],
        ('note', None, '_get_chacha_ciphers_enabled'): lambda v: v['marker'],
        ('note', None, '_get_cbc_ciphers_enabled'): lambda v: v['marker'] and v['cbc'] and v['etm'],
        ('note', None, '_get_etm_macs_enabled'): lambda v: v['marker'] and v['cbc'] and v['etm'],
    }
    seen_keys = {}
    for kind, cat, n in sites:
        conds = path_condition(n)
        loops = [t for t, p, k in conds if k == 'for']
        if len(loops) != 1:
            rep.check('sites', 'site iterates exactly one enabled-list: %s' % unparse(n)[:60], False, n, 'Terrapin marking outside a loop over an enabled-algorithm list')
            continue
        src = iter_source(loops[0])
        # the marked name is the loop variable
        lp = n
        while not isinstance(lp, ast.For):
            lp = lp._parent
        marked = n.args[2] if kind == 'warn' and len(n.args) > 2 else (n.args[0] if n.args else None)
        rep.check('sites', 'marked name is the loop variable: %s' % unparse(n)[:60], marked is not None and unparse(marked) == unparse(lp.target), n, 'marks %s instead of the iterated algorithm' % (unparse(marked) if marked is not None else '?'))
        key = (kind, cat, src)
        if key not in REQUIRED:
            rep.check('sites', 'site %s is one of the documented six' % (key,), False, n, 'unexpected Terrapin marking site: kind=%s category=%s list=%s' % key)
            continue
        seen_keys.setdefault(key, []).append(n)
        bad = []
        for bits in itertools.product([False, True], repeat=3):
            val = dict(zip(['marker', 'cbc', 'etm'], bits))
            got = all(eval_prop(t, atz, val) == p for t, p, k in conds if k != 'for')
            want = REQUIRED[key](val)
            rep.evals()
            if got != want:
                bad.append((val, got, want))
        rep.check('sites', '%s %s over %s: condition table (8 rows)' % (kind, cat or '', src), not bad, n,
                  'Terrapin rule broken for %s/%s over %s: %s fires=%s, rule=%s' % ((kind, cat, src) + (bad[0] if bad else ({}, None, None))),
                  sample={'rule': 'sites', 'site': list(key), 'conds': [(unparse(t)[:60], p, k) for t, p, k in conds]})
    for key in REQUIRED:
        rep.check('sites', 'site %s present exactly once' % (key,), len(seen_keys.get(key, [])) == 1, ppf, 'Terrapin marking site %s occurs %d times' % (key, len(seen_keys.get(key, []))), stmt='site %s' % (key,))
    # who may call the adder: nobody else, and no other writer of the Terrapin text
    for (m, q), f in repo.all_funcs().items():
        for n in walk_no_nested(f):
            if isinstance(n, ast.Call) and call_name(n) == '_add_terrapin_warning' and f is not ppf:
                rep.check('sites', 'adder only called from post_process_findings', False, n, 'Terrapin warning adder called from %s' % q)
            if isinstance(n, ast.Constant) and isinstance(n.value, str) and 'Terrapin attack' in n.value and f is not helpers['_add_terrapin_warning'] and 'INFO_STRICT_KEX' not in unparse(n._parent):
                rep.check('sites', 'Terrapin warning text only written by the adder', False, n, 'Terrapin warning text also produced in %s' % q)
    add = helpers['_add_terrapin_warning']
    apps = [n for n in walk_no_nested(add) if isinstance(n, ast.Call) and isinstance(n.func, ast.Attribute) and n.func.attr == 'append' and n.args and isinstance(n.args[0], ast.Constant)]
    ok = len(apps) == 1 and unparse(apps[0].func.value) == 'db[category][algorithm_name][2]' and not [k for t, p, k in path_condition(apps[0])]
    rep.check('sites', 'adder appends the warning to row 2 (warnings) of db[category][name], unconditionally', ok, apps[0] if apps else add, 'adder writes to %s' % (unparse(apps[0].func.value) if apps else '?'))
    # advisory note joins exactly algs_to_note, iff non-empty
    joins = [n for n in walk_no_nested(ppf) if isinstance(n, ast.Call) and isinstance(n.func, ast.Attribute) and n.func.attr == 'join' and n.args and unparse(n.args[0]) == 'algs_to_note']
    ok = len(joins) == 1 and [(unparse(t), p) for t, p, k in path_condition(joins[0])] == [('len(algs_to_note) > 0', True)]
    rep.check('sites', 'advisory note names exactly the noted algorithms, iff any', ok, joins[0] if joins else ppf, 'advisory note is not built from algs_to_note under len(algs_to_note) > 0')

    # ---- rule 3: predicate agreement -------------------------------------------------------------------------------------
    PAIRS = [('chacha', '_get_chacha_ciphers_enabled', '_get_chacha_ciphers_not_enabled', 'enc', 'encryption', 'chacha20-poly1305'),
             ('cbc', '_get_cbc_ciphers_enabled', '_get_cbc_ciphers_not_enabled', 'enc', 'encryption', 'cbc'),
             ('etm', '_get_etm_macs_enabled', '_get_etm_macs_not_enabled', 'mac', 'mac', '-etm')]
    for tag, en, ne, cat, acc, substr in PAIRS:
        v1, l1, t1 = shape_predicate(helpers[en])
        v2, l2, t2 = shape_predicate(helpers[ne])
        s1, o1 = shape_atoms(t1.test, v1)
        s2, o2 = shape_atoms(t2.test, v2)
        rep.check('predicates', '%s: enabled and not-enabled helpers test the same name shape' % tag, s1 == s2 and len(s1) > 0, t2,
                  '%s shape predicates disagree: enabled tests %s, not-enabled tests %s' % (tag, sorted(s1), sorted(s2)), sample={'rule': 'predicates', 'shape': tag, 'tests': sorted(s1)})
        rep.check('predicates', '%s: enabled helper has no extra condition' % tag, not o1, t1, 'extra condition in %s: %s' % (en, [unparse(x) for x in o1]))
        # body of both: append the loop variable to the returned list
        for h, v, t in ((en, v1, t1), (ne, v2, t2)):
            ok = len(t.body) == 1 and not t.orelse and unparse(t.body[0]) == 'ret.append(%s)' % v
            rep.check('predicates', '%s: matching names are returned unchanged' % h, ok, t, '%s does not return the matched name' % h)
            rets = [r for r in walk_no_nested(helpers[h]) if isinstance(r, ast.Return)]
            rep.check('predicates', '%s returns its list' % h, len(rets) == 1 and unparse(rets[0].value) == 'ret', helpers[h], '%s returns %s' % (h, [unparse(r.value) for r in rets]))
        # enabled: role-appropriate list
        src = unparse(l1.iter)
        d = [n for n in walk_no_nested(helpers[en]) if isinstance(n, ast.Assign) and unparse(n.targets[0]) == src]
        want = 'algs.ssh2kex.client.%s if client_audit else algs.ssh2kex.server.%s' % (acc, acc)
        ok = len(d) == 1 and unparse(d[0].value) == want
        rep.check('predicates', '%s reads the client list in client audits and the server list otherwise' % en, ok, d[0] if d else l1, '%s iterates %s' % (en, unparse(d[0].value) if d else src))
        okg = [(unparse(t), p) for t, p, k in path_condition(l1) if k != 'for'] == [('algs.ssh2kex is not None', True)]
        rep.check('predicates', '%s guarded only by kex presence' % en, okg, l1, '%s loop guarded by %s' % (en, [(unparse(t), p) for t, p, k in path_condition(l1)]))
        # not-enabled: ranges over db[cat], excludes enabled ones
        rep.check('predicates', '%s ranges over the %s category of the database' % (ne, cat), unparse(l2.iter) in ('db["%s"]' % cat, "db['%s']" % cat), l2, '%s iterates %s' % (ne, unparse(l2.iter)))
        want_excl = '%s not in %s(algs)' % (v2, en)
        rep.check('predicates', '%s excludes exactly the enabled ones' % ne, [unparse(x) for x in o2] == [want_excl], t2, '%s extra conditions: %s (expected %s)' % (ne, [unparse(x) for x in o2], want_excl))
        # data cross-check
        nhit = 0
        for name in db2[cat]:
            if substr in name:
                nhit += 1
                if (cat, name) in PER_NAME_EXCEPTIONS:
                    rep.note('per-name exception %s/%s: %s' % (cat, name, PER_NAME_EXCEPTIONS[(cat, name)]))
                    continue
                rep.check('predicates', 'database name %s/%s (contains %r) satisfies the %s predicate' % (cat, name, substr, tag), apply_shape(s1, name), t1,
                          'database %s name %r contains %r but falls outside the %s shape predicate %s' % (cat, name, substr, tag, sorted(s1)), stmt='db[%s][%s] ~ %s' % (cat, name, tag))
                rep.evals()
        rep.floor('predicates', 'database names of shape %s' % tag, nhit, 1)

    # ---- rule 4: suppression flow --------------------------------------------------------------------------------------------
    augs = [n for n in walk_no_nested(ppf) if isinstance(n, ast.AugAssign) and unparse(n.target) == 'algorithm_recommendation_suppress_list' and isinstance(n.op, ast.Add)]
    srcs = sorted(call_name(a.value) for a in augs if isinstance(a.value, ast.Call))
    rep.check('suppress', 'the three not-enabled lists are added to the suppression list, unconditionally', srcs == ['_get_cbc_ciphers_not_enabled', '_get_chacha_ciphers_not_enabled', '_get_etm_macs_not_enabled'] and all(a in ppf.body for a in augs), augs[0] if augs else ppf,
              'suppression list receives %s' % srcs)
    rets = [r for r in walk_no_nested(ppf) if isinstance(r, ast.Return)]
    ok = len(rets) == 1 and isinstance(rets[0].value, ast.Tuple) and unparse(rets[0].value.elts[0]) == 'algorithm_recommendation_suppress_list' and unparse(rets[0].value.elts[1]) == 'additional_notes'
    rep.check('suppress', 'post_process_findings returns (suppression list, notes)', ok, rets[0] if rets else ppf, 'return value changed')
    outf = repo.func('ssh_audit', 'output')
    rep.saw(outf)
    unp = [n for n in walk_no_nested(outf) if isinstance(n, ast.Assign) and isinstance(n.value, ast.Call) and call_name(n.value) == 'post_process_findings']
    ok = len(unp) == 1 and isinstance(unp[0].targets[0], ast.Tuple) and len(unp[0].targets[0].elts) == 2
    rep.check('suppress', 'output() unpacks the suppression list from post_process_findings', ok, unp[0] if unp else outf, 'output() does not unpack post_process_findings')
    if ok:
        sv = unparse(unp[0].targets[0].elts[0])
        nv = unparse(unp[0].targets[0].elts[1])
        b = bind_args(unp[0].value, ppf)
        rep.check('suppress', 'post_process_findings receives the audited role', unparse(b.get('client_audit')) == 'client_audit', unp[0], 'client_audit argument is %s' % unparse(b.get('client_audit')))
        orc = repo.func('ssh_audit', 'output_recommendations')
        bs = repo.func('ssh_audit', 'build_struct')
        gar = repo.func('ssh_audit', 'get_algorithm_recommendations')
        for callee, f in (('output_recommendations', orc), ('build_struct', bs)):
            cs = [n for n in walk_no_nested(outf) if isinstance(n, ast.Call) and call_name(n) == callee]
            rep.floor('suppress', 'calls of %s in output' % callee, len(cs), 1)
            for c in cs:
                a = bind_args(c, f).get('algorithm_recommendation_suppress_list')
                rep.check('suppress', '%s receives the suppression list' % callee, a is not None and unparse(a) == sv, c, '%s called without the suppression list' % callee)
            inner = [n for n in walk_no_nested(f) if isinstance(n, ast.Call) and call_name(n) == 'get_algorithm_recommendations']
            rep.floor('suppress', 'get_algorithm_recommendations call in %s' % callee, len(inner), 1)
            for c in inner:
                a = bind_args(c, gar).get('algorithm_recommendation_suppress_list')
                rep.check('suppress', '%s forwards it to get_algorithm_recommendations' % callee, a is not None and unparse(a) == 'algorithm_recommendation_suppress_list', c, '%s does not forward the suppression list' % callee)
        # notes reach output_info and build_struct
        for callee, f, par in (('output_info', repo.func('ssh_audit', 'output_info'), 'additional_notes'), ('build_struct', bs, 'additional_notes')):
            for c in [n for n in walk_no_nested(outf) if isinstance(n, ast.Call) and call_name(n) == callee]:
                a = bind_args(c, f).get(par)
                rep.check('suppress', '%s receives the advisory notes' % callee, a is not None and unparse(a) == nv, c, '%s called without the advisory notes' % callee)
        # the skip inside get_algorithm_recommendations precedes the store and covers every action
        rep.saw(gar)
        skips = [n for n in walk_no_nested(gar) if isinstance(n, ast.If) and 'name in algorithm_recommendation_suppress_list' in unparse(n.test) and isinstance(n.body[-1], ast.Continue)]
        ok = len(skips) == 1
        if ok:
            acts = [unparse(t) for t, p, k in path_condition(skips[0]) if k == 'for']
            ok = any("['del', 'add', 'chg']" in a for a in acts) and 'action' not in unparse(skips[0].test)
            stores = [n for n in walk_no_nested(gar) if isinstance(n, ast.Call) and isinstance(n.func, ast.Attribute) and n.func.attr == 'append' and 'ret[level][action][alg_type]' in unparse(n.func.value)]
            ok = ok and len(stores) == 1 and stores[0].lineno > skips[0].lineno and any(t is skips[0].test and p is False for t, p, k in path_condition(stores[0]))
        rep.check('suppress', 'suppressed names are skipped for every action before a recommendation is stored', ok, skips[0] if skips else gar, 'suppression skip in get_algorithm_recommendations missing or action-specific')

    # ---- rule 5: totality on unknown names --------------------------------------------------------------------------------------------
    subs = [n for n in walk_no_nested(add) if isinstance(n, ast.Subscript) and unparse(n) == 'db[category][algorithm_name]']
    rep.floor('totality', 'table subscripts in the adder', len(subs), 1)
    first = min(subs, key=lambda n: (n.lineno, n.col_offset))
    guarded = any(('algorithm_name in db[category]' in unparse(t) and p) or ('algorithm_name not in db[category]' in unparse(t) and not p) for t, p, k in path_condition(first))
    in_try = False
    q = first
    while q is not None and q is not add:
        if isinstance(q, ast.Try) and any(h.type is None or 'KeyError' in unparse(h.type) or unparse(h.type) in ('Exception', 'LookupError') for h in q.handlers):
            in_try = True
        q = q._parent
    # call sites pass names selected only by shape from the peer's lists
    rep.check('totality', 'db[category][name] with a peer-supplied name is guarded by a membership test or KeyError handler', guarded or in_try, first,
              'KeyError for an unknown peer-supplied name of Terrapin shape (e.g. "foo-cbc" plus any ETM MAC): db[category][algorithm_name] is indexed without a membership test',
              func='ssh_audit:post_process_findings._add_terrapin_warning', stmt='db[category][algorithm_name]')
