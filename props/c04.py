"""C04 -- Terrapin exposure is flagged exactly per the published rule."""
import ast
import re
import itertools

from sa.core import AnalysisError, unparse, walk_no_nested, stmt_text, call_name, bind_args
from sa.logic import path_condition, eval_prop, text_atomizer
from sa.abseval import ev, Unknown
from sa.consteval import ConstEnv

EXPL = ('Decides the complete decision table of post_process_findings from its AST: (1) the strict-kex marker expression over all valuations of '
        '{kex present, client audit, client marker offered, server marker offered}; (2) the body of post_process_findings is abstractly interpreted (sa/listinterp.py: lists of symbolic names, forking on un-modelled conditions) on all 66 rows of '
        '{kex present, role, client marker, server marker, ChaCha offered, CBC offered, ETM offered}; the (category, name) pairs handed to the warning adder, the names in the advisory note and the suppression list must equal the published rule on every path; '
        'no other call site of the adder exists in the package and it appends to the warning row only; (3) the name-shape predicates of the enabled / not-enabled helper pairs agree, read the role-appropriate list, and classify every database name of that '
        'shape; (4) the not-enabled lists flow into the suppression list, through both recommendation paths, where suppressed names are skipped; (5) the table subscript on a peer-supplied name is total. '
        'Not decided: wording of the advisory note.')

# database names that contain the shape substring but are outside the tool's published predicate, each with a reason
PER_NAME_EXCEPTIONS = {
    ('enc', 'des-cbc-ssh1'): 'ssh.com SSH-1 compatibility name; not matched by the published -cbc suffix rule and never paired with OpenSSH ETM MACs',
}


def shape_predicate(func, var_hint=None):
    """The If test that classifies the loop variable inside a helper: returns (loopvar, iterable expr, test expr)."""
    loops = [n for n in walk_no_nested(func) if isinstance(n, ast.For)]
    if len(loops) != 1:
        raise AnalysisError('helper %s: expected one loop, found %d' % (func.name, len(loops)))
    lp = loops[0]
    if not isinstance(lp.target, ast.Name):
        raise AnalysisError('helper %s: loop target not a name' % func.name)
    ifs = [s for s in lp.body if isinstance(s, ast.If)]
    if len(ifs) != 1 or len(lp.body) != 1:
        raise AnalysisError('helper %s: loop body is not a single classification test' % func.name)
    return lp.target.id, lp, ifs[0]


def shape_atoms(test, var):
    """Set of (method, literal) shape tests on `var` inside test; other conjuncts returned separately."""
    shapes, others = set(), []

    def rec(n, top_and):
        if isinstance(n, ast.BoolOp):
            for v in n.values:
                rec(v, top_and and isinstance(n.op, ast.And))
            return
        if isinstance(n, ast.Call) and isinstance(n.func, ast.Attribute) and unparse(n.func.value) == var and n.func.attr in ('startswith', 'endswith') and len(n.args) == 1 and isinstance(n.args[0], ast.Constant):
            shapes.add((n.func.attr, n.args[0].value))
            return
        if isinstance(n, ast.Compare) and len(n.ops) == 1 and isinstance(n.ops[0], ast.Eq) and unparse(n.left) == var and isinstance(n.comparators[0], ast.Constant):
            shapes.add(('==', n.comparators[0].value))
            return
        others.append(n)
    rec(test, True)
    return shapes, others


def apply_shape(shapes, name):
    for m, lit in shapes:
        if m == 'startswith' and name.startswith(lit):
            return True
        if m == 'endswith' and name.endswith(lit):
            return True
        if m == '==' and name == lit:
            return True
    return False


def run(repo, rep, tier):
    rep.explanation = EXPL
    ce = ConstEnv(repo)
    db2 = ce.lookup('ssh2_kexdb', 'SSH2_KexDB.MASTER_DB')
    ppf = repo.func('ssh_audit', 'post_process_findings')
    rep.saw(ppf)
    helpers = {}
    for nm in ('_add_terrapin_warning', '_get_chacha_ciphers_enabled', '_get_chacha_ciphers_not_enabled', '_get_cbc_ciphers_enabled', '_get_cbc_ciphers_not_enabled', '_get_etm_macs_enabled', '_get_etm_macs_not_enabled'):
        # the nested helpers are an implementation detail: the decision table below interprets whatever post_process_findings is made of
        if repo.has_func('ssh_audit', 'post_process_findings.' + nm):
            helpers[nm] = repo.func('ssh_audit', 'post_process_findings.' + nm)
            rep.saw(helpers[nm])

    # ---- rule 1: marker detection --------------------------------------------------------------------------
    asg = [n for n in walk_no_nested(ppf) if isinstance(n, ast.Assign) and unparse(n.targets[0]) == 'kex_strict_marker']
    init = [a for a in asg if unparse(a.value) == 'False' and a in ppf.body]
    sets = [a for a in asg if unparse(a.value) == 'True']
    if not (len(asg) == 2 and len(init) == 1 and len(sets) == 1):
        # another shape of marker detection: the decision table below (abstract interpretation over all rows, which include role x both markers) decides it; only the diagnosis is coarser
        rep.note('marker detection is not of the form "flag = False; if <test>: flag = True" (%d definitions); decided by the decision table only' % len(asg))
        sets = []
    if len(sets) == 1:
        conds = [(t, p) for t, p, k in path_condition(sets[0])]
        from sa.slicer import uses as _uses
        role_read = any('client_audit' in _uses(t) for t, p in conds)
        rep.check('marker', 'marker detection depends on the audited role (client marker for clients, server marker for servers)', role_read, sets[0],
                  'strict-kex marker detection does not look at the audited role (%s): a peer advertising only the other role\'s marker is treated as protected' % ' and '.join(unparse(t)[:120] for t, p in conds))
        if not role_read:
            conds = []
        C_LIT, S_LIT = 'kex-strict-c-v00@openssh.com', 'kex-strict-s-v00@openssh.com'
        table = {
            'algs.ssh2kex is not None': 'kexp', 'client_audit': 'client',
            "'%s' in algs.ssh2kex.kex_algorithms" % C_LIT: 'c', "'%s' in algs.ssh2kex.kex_algorithms" % S_LIT: 's',
        }
        atz = text_atomizer(table)
        bad = []
        for bits in (itertools.product([False, True], repeat=4) if conds else []):
            val = dict(zip(['kexp', 'client', 'c', 's'], bits))
            got = all(eval_prop(t, atz, val) == p for t, p in conds)
            want = val['kexp'] and ((val['client'] and val['c']) or (not val['client'] and val['s']))
            rep.evals()
            if got != want:
                bad.append((val, got, want))
        rep.check('marker', 'marker <=> kex present and ((client and client-marker) or (server and server-marker)) on all 16 rows', not bad, sets[0],
                  'strict-kex marker detection differs from the rule, e.g. %s gives %s (rule: %s)' % (bad[0] if bad else ({}, None, None)), sample={'rule': 'marker', 'rows': 16, 'guards': [unparse(t) for t, p in conds]})
        for lit in (C_LIT, S_LIT):
            rep.check('marker', 'marker literal %s is a database kex name' % lit, lit in db2['kex'], sets[0], 'marker literal %r unknown to the database' % lit)

    # ---- rule 2: decision table by abstract interpretation ----------------------------------------------------------
    # The body of post_process_findings is interpreted (sa/listinterp.py, props/_terrapin.py) on every row of
    #   kex present x client audit x client marker x server marker x ChaCha offered x CBC offered x ETM offered,
    # with the nested helpers interpreted in place on concrete representative names of each shape (the other role's lists always
    # hold names of every shape) and calls of the adder recorded as effects.  The warned (category, name) pairs, the names in the
    # advisory note and the Terrapin-shaped part of the suppression list must equal the published rule on every path of every row.
    from sa.abseval import Opaque
    from props import _terrapin as T
    rows = 0
    bad = []
    nsites = set()
    for bits in itertools.product([False, True], repeat=7):
        val = dict(zip(['kexp', 'client', 'c', 's', 'chacha', 'cbc', 'etm'], bits))
        if not val['kexp'] and (val['c'] or val['s'] or val['chacha'] or val['cbc'] or val['etm']):
            continue        # nothing is offered when there is no KEXINIT
        rows += 1
        toks = {k: (list(T.NAMES[k]) if val[k] else []) for k in ('chacha', 'cbc', 'etm')}
        finals, it, table = T.interpret(repo, ppf, val)
        marker = val['kexp'] and ((val['client'] and val['c']) or (not val['client'] and val['s']))
        want_warn, want_note = set(), set()
        if val['chacha']:
            (want_note if marker else want_warn).update(('enc', t) for t in toks['chacha'])
        if val['cbc'] and val['etm']:
            (want_note if marker else want_warn).update(('enc', t) for t in toks['cbc'])
            (want_note if marker else want_warn).update(('mac', t) for t in toks['etm'])
        want_note = {t for c, t in want_note}
        want_sup = T.expected_suppressed(val)
        all_names = {n for names in T.DB_NAMES.values() for n in names}
        shaped = {n for n in all_names if any(f(n) for f in T.SHAPE.values())}
        projections = {}
        for fe in finals:
            rep.evals()
            if fe.get('<outcome>') != 'return' or not isinstance(fe.get('<return>'), tuple) or len(fe['<return>']) != 2:
                raise AnalysisError('post_process_findings: a path does not return (suppression list, notes) computably')
            sup, notes = fe['<return>']
            if isinstance(sup, Opaque) or isinstance(notes, Opaque) or any(isinstance(x, Opaque) for x in list(sup) + list(notes)):
                raise AnalysisError('post_process_findings: returned lists are not computable by the list interpreter')
            got_warn = T.warned(fe['<table>'])
            if got_warn:
                nsites.add('table')
            mis = T.misplaced(fe['<table>'])
            if mis:
                bad.append(('warning', val, 'the Terrapin text is added to row %d of %s/%s instead of row 2 (warnings)' % (mis[0][2], mis[0][0], mis[0][1])))
            wrong_text = [(c, n, t) for c, n in got_warn for t in (fe['<table>'][c][n][2] if len(fe['<table>'][c][n]) > 2 else []) if 'Terrapin' not in str(t)]
            if wrong_text:
                bad.append(('warning', val, 'the warning text added to %s does not name the Terrapin attack' % (wrong_text[:2],)))
            text = ' '.join(str(x) for x in notes)
            got_note = {n for n in all_names if re.search(r'(?<![\w@.-])' + re.escape(n) + r'(?![\w@-])', text)}
            got_sup = {n for n in sup if n in shaped}
            role_names = {t for k2 in toks for t in toks[k2]}
            foreign = sorted((c, n) for c, n in got_warn if n not in role_names)
            if foreign:
                bad.append(('warning', val, 'warning attached to %s, which is not a ChaCha20-Poly1305 / CBC / ETM name the audited role offers' % (foreign,)))
                continue
            projections.setdefault((frozenset(got_warn), frozenset(got_note), len(text) > 0, frozenset(got_sup)), fe.get('<forks>', []))
            if len(projections) > 1:
                a0, b0 = list(projections.values())[:2]
                raise AnalysisError('Terrapin outcome depends on a condition the analysis does not model: %s' % (sorted(set(a0) ^ set(b0)) or a0))
            if got_warn != want_warn:
                extra, missing = sorted(got_warn - want_warn), sorted(want_warn - got_warn)
                bad.append(('warning', val, 'wrongly warned: %s' % extra if extra else 'not warned: %s' % missing))
            if got_note != want_note:
                extra, missing = sorted(got_note - want_note), sorted(want_note - got_note)
                bad.append(('advisory note', val, 'wrongly named: %s' % extra if extra else 'not named: %s' % missing))
            if (len(text) > 0) != bool(want_note):
                bad.append(('advisory note', val, 'note %s although %s algorithms are to be named' % ('present' if text else 'absent', len(want_note))))
            if got_sup != want_sup:
                extra, missing = sorted(got_sup - want_sup), sorted(want_sup - got_sup)
                bad.append(('suppression', val, ('names the peer offers are suppressed from recommendations: %s' % extra) if extra else ('not-enabled names missing from the suppression list: %s' % missing)))
    rep.floor('table', 'decision-table rows interpreted', rows, 66)
    rep.floor('table', 'distinct adder call sites reached', len(nsites), 1)
    first = bad[0] if bad else None
    rep.check('table', 'warnings, advisory note and suppression list equal the published Terrapin rule on all %d rows (abstract interpretation of post_process_findings and its helpers)' % rows, not bad, ppf,
              'Terrapin rule broken (%s): with %s -- %s [%d row/path deviations]' % ((first[0], {k: v for k, v in first[1].items()}, first[2], len(bad)) if first else ('', {}, '', 0)),
              stmt='terrapin decision table: %s' % (first[0] if first else ''), sample={'rule': 'table', 'rows': rows, 'adder_sites_reached': len(nsites)})
    # who may call the adder: nobody else, and no other writer of the Terrapin text
    for (m, q), f in repo.all_funcs().items():
        for n in walk_no_nested(f):
            if isinstance(n, ast.Call) and call_name(n) == '_add_terrapin_warning' and f is not ppf:
                rep.check('sites', 'adder only called from post_process_findings', False, n, 'Terrapin warning adder called from %s' % q)
            if isinstance(n, ast.Constant) and isinstance(n.value, str) and 'Terrapin attack' in n.value and f is not helpers.get('_add_terrapin_warning') and f is not ppf and 'INFO_STRICT_KEX' not in unparse(n._parent):
                rep.check('sites', 'Terrapin warning text only written by the adder', False, n, 'Terrapin warning text also produced in %s' % q)
    # (that the text lands in row 2 of db[category][name] is decided on the table each interpreted path leaves behind -- see `misplaced` above)

    # ---- rule 3: predicate agreement -------------------------------------------------------------------------------------
    PAIRS = [('chacha', '_get_chacha_ciphers_enabled', '_get_chacha_ciphers_not_enabled', 'enc', 'encryption', 'chacha20-poly1305'),
             ('cbc', '_get_cbc_ciphers_enabled', '_get_cbc_ciphers_not_enabled', 'enc', 'encryption', 'cbc'),
             ('etm', '_get_etm_macs_enabled', '_get_etm_macs_not_enabled', 'mac', 'mac', '-etm')]
    for tag, en, ne, cat, acc, substr in PAIRS:
        # The helpers' behaviour (which list they read, what they exclude, what they return) is decided by the decision table above, where they are
        # interpreted in place.  What remains here is data: every database name that contains the shape substring is classified by the shape test.
        try:
            if en not in helpers or ne not in helpers:
                raise AnalysisError('helpers %s / %s do not exist' % (en, ne))
            v1, l1, t1 = shape_predicate(helpers[en])
            v2, l2, t2 = shape_predicate(helpers[ne])
        except AnalysisError as ex:
            rep.note('%s helpers are not single classification loops (%s); their behaviour is decided by the decision table only' % (tag, ex))
            continue
        s1, o1 = shape_atoms(t1.test, v1)
        s2, o2 = shape_atoms(t2.test, v2)
        rep.check('predicates', '%s: enabled and not-enabled helpers test the same name shape' % tag, s1 == s2 and len(s1) > 0, t2,
                  '%s shape predicates disagree: enabled tests %s, not-enabled tests %s' % (tag, sorted(s1), sorted(s2)), sample={'rule': 'predicates', 'shape': tag, 'tests': sorted(s1)})
        nhit = 0
        for name in db2[cat]:
            if substr in name:
                nhit += 1
                if (cat, name) in PER_NAME_EXCEPTIONS:
                    rep.note('per-name exception %s/%s: %s' % (cat, name, PER_NAME_EXCEPTIONS[(cat, name)]))
                    continue
                rep.check('predicates', 'database name %s/%s (contains %r) satisfies the %s predicate' % (cat, name, substr, tag), apply_shape(s1, name), t1,
                          'database %s name %r contains %r but falls outside the %s shape predicate %s' % (cat, name, substr, tag, sorted(s1)), stmt='db[%s][%s] ~ %s' % (cat, name, tag))
                rep.evals()
        rep.floor('predicates', 'database names of shape %s' % tag, nhit, 1)

    # ---- rule 4: suppression flow --------------------------------------------------------------------------------------------
    # (that the three not-enabled lists reach the returned suppression list on every row is decided by the decision table above)
    rets = [r for r in walk_no_nested(ppf) if isinstance(r, ast.Return)]
    ok = len(rets) == 1 and isinstance(rets[0].value, ast.Tuple) and unparse(rets[0].value.elts[0]) == 'algorithm_recommendation_suppress_list' and unparse(rets[0].value.elts[1]) == 'additional_notes'
    rep.check('suppress', 'post_process_findings returns (suppression list, notes)', ok, rets[0] if rets else ppf, 'return value changed')
    outf = repo.func('ssh_audit', 'output')
    rep.saw(outf)
    unp = [n for n in walk_no_nested(outf) if isinstance(n, ast.Assign) and isinstance(n.value, ast.Call) and call_name(n.value) == 'post_process_findings']
    ok = len(unp) == 1 and isinstance(unp[0].targets[0], ast.Tuple) and len(unp[0].targets[0].elts) == 2
    rep.check('suppress', 'output() unpacks the suppression list from post_process_findings', ok, unp[0] if unp else outf, 'output() does not unpack post_process_findings')
    if ok:
        sv = unparse(unp[0].targets[0].elts[0])
        nv = unparse(unp[0].targets[0].elts[1])
        b = bind_args(unp[0].value, ppf)
        rep.check('suppress', 'post_process_findings receives the audited role', unparse(b.get('client_audit')) == 'client_audit', unp[0], 'client_audit argument is %s' % unparse(b.get('client_audit')))
        orc = repo.func('ssh_audit', 'output_recommendations')
        bs = repo.func('ssh_audit', 'build_struct')
        gar = repo.func('ssh_audit', 'get_algorithm_recommendations')
        for callee, f in (('output_recommendations', orc), ('build_struct', bs)):
            cs = [n for n in walk_no_nested(outf) if isinstance(n, ast.Call) and call_name(n) == callee]
            rep.floor('suppress', 'calls of %s in output' % callee, len(cs), 1)
            for c in cs:
                a = bind_args(c, f).get('algorithm_recommendation_suppress_list')
                rep.check('suppress', '%s receives the suppression list' % callee, a is not None and unparse(a) == sv, c, '%s called without the suppression list' % callee)
            inner = [n for n in walk_no_nested(f) if isinstance(n, ast.Call) and call_name(n) == 'get_algorithm_recommendations']
            rep.floor('suppress', 'get_algorithm_recommendations call in %s' % callee, len(inner), 1)
            for c in inner:
                a = bind_args(c, gar).get('algorithm_recommendation_suppress_list')
                rep.check('suppress', '%s forwards it to get_algorithm_recommendations' % callee, a is not None and unparse(a) == 'algorithm_recommendation_suppress_list', c, '%s does not forward the suppression list' % callee)
        # notes reach output_info and build_struct
        for callee, f, par in (('output_info', repo.func('ssh_audit', 'output_info'), 'additional_notes'), ('build_struct', bs, 'additional_notes')):
            for c in [n for n in walk_no_nested(outf) if isinstance(n, ast.Call) and call_name(n) == callee]:
                a = bind_args(c, f).get(par)
                rep.check('suppress', '%s receives the advisory notes' % callee, a is not None and unparse(a) == nv, c, '%s called without the advisory notes' % callee)
        # a suppressed name is left out of every action (del / add / chg): get_algorithm_recommendations interpreted on a map that holds the name under all three
        rep.saw(gar)
        from props import _recommend as _R
        rec = {2: {'enc': {'del': {'sup-a': 10, 'keep-a': 10}, 'add': {'sup-b': 0, 'keep-b': 0}, 'chg': {'sup-c': 1, 'keep-c': 1}}}}
        got = _R.run_levels(repo, rec, ['sup-a', 'sup-b', 'sup-c'])
        names = sorted(e.get('name') if isinstance(e, dict) else e for acts in got.values() for cats in acts.values() for lst in cats.values() for e in lst)
        rep.check('suppress', 'suppressed names are skipped for every action before a recommendation is stored', names == ['keep-a', 'keep-b', 'keep-c'], gar,
                  'suppression skip in get_algorithm_recommendations missing or action-specific: with sup-a/b/c suppressed the recommendations name %s' % names, stmt='suppression covers every action')

    # ---- rule 5: totality on unknown names (by interpretation) --------------------------------------------------------------------------
    # a peer offers, without the strict-kex marker, a CBC-shaped cipher the rating table does not know together with an ETM MAC: the marking step must not raise
    val = {'kexp': True, 'client': False, 'c': False, 's': False, 'chacha': False, 'cbc': True, 'etm': True}
    finals, it, _t = T.interpret(repo, ppf, val, extra_enc=['zz-unknown-cbc'])
    crashes = [fe.get('<crash>') for fe in finals if fe.get('<crash>')]
    rep.evals()
    rep.check('totality', 'marking tolerates a peer-supplied name of Terrapin shape that the rating table does not know', not crashes, ppf,
              'KeyError for an unknown peer-supplied name of Terrapin shape (e.g. "foo-cbc" plus any ETM MAC): db[category][algorithm_name] is indexed without a membership test',
              func='ssh_audit:post_process_findings._add_terrapin_warning', stmt='db[category][algorithm_name]')

    # ---- the table the notes are written to is private to the scan (shared rule, props/_dbcopy.py) ----------------------------------------
    from props import _dbcopy
    from sa.consteval import ConstEnv as _CE2
    _dbcopy.check_private_copy(repo, rep, 'private-table', _CE2(repo), 'Terrapin marks applied while scanning one target stay on the master table and appear on every later target (flagged although its marker is present, or twice)')
