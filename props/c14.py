"""C14 -- software versions are ordered numerically, component by component."""
import ast
import itertools

from sa.core import AnalysisError, unparse, walk_no_nested, stmt_text, call_name, func_id, bind_args
from sa.logic import path_condition
from sa.callgraph import CallGraph

EXPL = ('Decides the clause "the older/same/newer judgement is computed on numeric components": a provenance-typed lint finds every ordering comparison (<, <=, >, >=, min, max, sorted without key) whose operand is a version string '
        '(Software.version, the regex-extracted other version, first-appeared versions from the table, Timeframe slots) and requires both operands to pass through a numeric key -- a function whose result is a tuple/list of int() applied to the '
        'dot-separated components. With that, the comparison is the lexicographic order on integer tuples: total, antisymmetric and transitive by construction. The patch-suffix comparison may stay lexical but must only be reachable after the numeric parts '
        'compared equal; the consumers (recommendation filter, between_versions, compatibility line, Timeframe) all go through these two sites. The version that enters the comparison is the one in the banner: for OpenSSH, Dropbear and libssh the capture group of the product pattern that becomes Software.version includes the regular language of dotted decimal versions and is included in [0-9.]+ (automata inclusion, shortest counter-example reported). Not decided: behaviour on malformed version strings.')

# expressions that denote version strings, per function (confirmed by reading the regexes / table format)
VERSION_EXPRS = {
    'software:Software.compare_version': {'self.version', 'oversion'},
    'timeframe:Timeframe._update': {'prev', 'ssh_version'},
}
MODULES = ('software', 'timeframe', 'algorithms', 'algorithm', 'ssh_audit', 'utils')
VERSION_NAME_HINTS = ('version', 'oversion', 'ssh_ver', 'v_from', 'v_till', 'vfrom', 'vtill', 'prev')


def is_numeric_key(func):
    """Does the function return a tuple/list built from int() of the split components?"""
    if func is None:
        return False
    txt = unparse(func)
    has_split = ".split('.')" in txt or 'split(".")' in txt or "re.findall" in txt or "re.split" in txt
    has_int = any(isinstance(n, ast.Call) and isinstance(n.func, ast.Name) and n.func.id == 'int' for n in ast.walk(func))
    rets = [r for r in walk_no_nested(func) if isinstance(r, ast.Return) and r.value is not None]
    seq = any(isinstance(r.value, (ast.Tuple, ast.List, ast.ListComp)) or (isinstance(r.value, ast.Call) and isinstance(r.value.func, ast.Name) and r.value.func.id in ('tuple', 'list')) or isinstance(r.value, ast.Name) for r in rets)
    return has_split and has_int and seq and bool(rets)


def run(repo, rep, tier):
    rep.explanation = EXPL
    cg = CallGraph(repo)
    sym = cg.sym

    def keyed(e, f):
        """Operand passes through a numeric key function."""
        if isinstance(e, ast.Call):
            for kind, g in sym.resolve_call(e, f):
                if g is not None and is_numeric_key(g):
                    return True
        if isinstance(e, ast.Name):
            # local bound to a keyed value
            defs = [n for n in walk_no_nested(f) if isinstance(n, ast.Assign) and any(unparse(t) == e.id or (isinstance(t, ast.Tuple) and e.id in [unparse(x) for x in t.elts]) for t in n.targets)]
            vals = []
            for d in defs:
                if isinstance(d.targets[0], ast.Tuple) and isinstance(d.value, ast.Tuple):
                    vals.append(d.value.elts[[unparse(x) for x in d.targets[0].elts].index(e.id)])
                else:
                    vals.append(d.value)
            return bool(vals) and all(keyed(v, f) for v in vals)
        return False

    vparams = set()         # (function id, parameter) that receive a version string at some call site (inter-procedural, to a fixed point)

    def versionish(e, fid):
        if isinstance(e, ast.Call) and e.args and any(versionish(a, fid) for a in e.args):
            return True
        t = unparse(e)
        if isinstance(e, ast.Name) and (fid, e.id) in vparams:
            return True
        if t in VERSION_EXPRS.get(fid, set()):
            return True
        if isinstance(e, ast.Name) and any(e.id == h or e.id.endswith('_' + h) or e.id.startswith(h) for h in VERSION_NAME_HINTS) and e.id not in ('versions',):
            return True
        if isinstance(e, ast.Attribute) and e.attr == 'version':
            return True
        return False
    for _round in range(4):
        before = len(vparams)
        for (m, q), f in sorted(repo.all_funcs().items()):
            if m not in MODULES:
                continue
            fid = '%s:%s' % (m, q)
            for c in walk_no_nested(f):
                if not isinstance(c, ast.Call):
                    continue
                for kind, g in sym.resolve_call(c, f):
                    if g is None or g._module.name not in MODULES or is_numeric_key(g):
                        continue
                    try:
                        b = bind_args(c, g, skip_self=isinstance(c.func, ast.Attribute))
                    except Exception:
                        continue
                    for pname, arg in b.items():
                        if arg is not None and versionish(arg, fid) and not keyed(arg, f):
                            vparams.add(('%s:%s' % (g._module.name, g._qualname), pname))
        if len(vparams) == before:
            break
    rep.extra['version_string_parameters'] = sorted('%s(%s)' % v for v in vparams)
    nsites = 0
    lexical_patch = []
    for (m, q), f in sorted(repo.all_funcs().items()):
        if m not in MODULES:
            continue
        fid = '%s:%s' % (m, q)
        for n in walk_no_nested(f):
            if isinstance(n, ast.Compare) and any(isinstance(o, (ast.Lt, ast.LtE, ast.Gt, ast.GtE)) for o in n.ops):
                ops = [n.left] + n.comparators
                if any(isinstance(o, ast.Constant) and isinstance(o.value, (int, float)) for o in ops):
                    continue
                if any(unparse(o) in ('spatch', 'opatch') for o in ops):
                    lexical_patch.append((f, n))
                    continue
                vs = [o for o in ops if versionish(o, fid)]
                ks = [o for o in ops if keyed(o, f)]
                if not vs and not ks:
                    continue
                nsites += 1
                rep.saw(f)
                ok = len(ks) == len(ops)
                rep.check('numeric', '%s: `%s` compares numeric keys' % (fid, unparse(n)[:60]), ok, n,
                          'version strings are ordered as text in `%s`: "10.0" sorts before "9.9" and "0.10.6" before "0.7.0", so multi-digit components are judged older than they are' % unparse(n),
                          sample={'rule': 'numeric', 'site': fid, 'compare': unparse(n)})
            if isinstance(n, ast.Call) and isinstance(n.func, ast.Name) and n.func.id in ('min', 'max', 'sorted') and n.args:
                args = n.args
                if any(versionish(a, fid) for a in args) and not any(k.arg == 'key' for k in n.keywords) and m in ('software', 'timeframe'):
                    nsites += 1
                    rep.check('numeric', '%s: %s() over versions uses a numeric key' % (fid, n.func.id), False, n, '%s() applied to raw version strings' % n.func.id)
    rep.floor('numeric', 'version ordering sites', nsites, 1)
    # the two anchor functions must order versions themselves or hand their version strings to a function that does (else the matcher went blind)

    def orders(f):
        return any(isinstance(n, ast.Compare) and any(isinstance(o, (ast.Lt, ast.Gt, ast.LtE, ast.GtE)) for o in n.ops) for n in walk_no_nested(f))
    for fid in VERSION_EXPRS:
        m, q = fid.split(':')
        f = repo.func(m, q)
        has = orders(f)
        if not has:
            for c in walk_no_nested(f):
                if isinstance(c, ast.Call):
                    for kind, g in sym.resolve_call(c, f):
                        if g is not None and any(v[0] == '%s:%s' % (g._module.name, g._qualname) for v in vparams) and orders(g):
                            has = True
        rep.check('numeric', '%s still orders versions' % fid, has, f, '%s no longer contains (or delegates) an ordering comparison: anchor moved' % fid)

    # ---- rule 2: patch ordering only after numeric equality ------------------------------------------------------------------
    cv = repo.func('software', 'Software.compare_version')
    # compare_version (with Utils.version_key) interpreted on 20 x 20 release numbers for two products and on 18 patched pairs (props/_version.py): the sign agrees
    # with numeric component-wise comparison (multi-digit components included), the judgement is antisymmetric, and the product patch rules hold
    from props import _version as _V
    badn, badp = [], []
    signs = {}
    for prod_ in ('OpenSSH', 'LibSSH'):
        for a_, b_ in itertools.product(_V.NUMBERS, repeat=2):
            g_ = _V.compare(repo, prod_, a_, None, b_)
            rep.evals()
            signs[(prod_, a_, b_)] = g_
            w_ = (_V.vkey(a_) > _V.vkey(b_)) - (_V.vkey(a_) < _V.vkey(b_))
            if g_ != w_:
                badn.append('%s %s compared with %s gives %+d, numerically %+d' % (prod_, a_, b_, g_, w_))
    for (prod_, a_, b_), g_ in signs.items():
        if signs[(prod_, b_, a_)] != -g_:
            badn.append('%s: %s vs %s gives %+d but %s vs %s gives %+d (not antisymmetric)' % (prod_, a_, b_, g_, b_, a_, signs[(prod_, b_, a_)]))
    rep.check('numeric', 'older / same / newer agrees with numeric component-wise comparison and is antisymmetric (%d ordered pairs)' % len(signs), not badn, cv,
              'version ordering is not numeric -- %s [%d pairs deviate]' % (badn[0] if badn else '', len(badn)), stmt='numeric version order model', sample={'rule': 'numeric', 'pairs': len(signs)})
    for prod_, v_, p_, o_ in _V.PATCHED:
        g_, w_ = _V.compare(repo, prod_, v_, p_, o_), _V.expected(prod_, v_, p_, o_)
        rep.evals()
        if g_ != w_:
            badp.append('%s %s%s compared with %s gives %+d, the patch rules give %+d' % (prod_, v_, p_ or '', o_, g_, w_))
    rep.check('patch', 'product patch rules: OpenSSH pN (p1 == release), Dropbear testN before the release, suffix order otherwise -- only after numeric equality (%d pairs)' % len(_V.PATCHED), not badp, cv,
              'patch-level ordering changed -- %s' % (badp[0] if badp else ''), stmt='patch rules model')
    # orientation and "numeric part first", by interpretation over the three orderings of the two numeric keys (the versions are only
    # touched through comparisons of their keys): when self's key is smaller every path returns -1, when larger every path returns 1 --
    # in particular no path reaches a patch comparison unless the keys are equal.  Helpers are interpreted in place.
    from sa.listinterp import Interp
    from sa.abseval import Opaque, Unknown

    class VTok:
        def __init__(self, name):
            self.name = name

        def __repr__(self):
            return '<version %s>' % self.name

    def resolver(call):
        f0 = getattr(call, '_func', None) or cv
        for kind, g in sym.resolve_call(call, f0):
            if g is not None and g._module.name in MODULES and not is_numeric_key(g) and g is not cv:
                return g
        return None
    for rel, ks, ko, want in (('older', 1, 2, -1), ('newer', 2, 1, 1)):
        def hook(call, env, interp, ks=ks, ko=ko):
            f0 = getattr(call, '_func', None) or cv
            for kind, g in sym.resolve_call(call, f0):
                if g is not None and is_numeric_key(g) and call.args:
                    try:
                        v = interp.value(call.args[0], env)
                    except Unknown:
                        v = None
                    return (True, (ks,) if isinstance(v, VTok) and v.name == 'self' else (ko,))
            return None
        env = {'self': Opaque(), 'self.version': VTok('self'), 'other': Opaque(), 'other is None': False}
        try:
            finals = Interp(call_hook=hook, resolver=resolver).run(cv.body, env)
        except Unknown as ex:
            raise AnalysisError('Software.compare_version cannot be interpreted over key orderings: %s' % ex)
        wrong = []
        for fe in finals:
            rep.evals()
            r = fe.get('<return>')
            if fe.get('<outcome>') != 'return' or isinstance(r, Opaque):
                raise AnalysisError('Software.compare_version: result not computable when self is %s (forks %s)' % (rel, fe.get('<forks>')))
            if r != want:
                wrong.append((r, fe.get('<forks>', [])))
        rep.check('patch', 'compare_version returns %d on every path when its own numeric version is %s (patch suffixes cannot override the numeric order)' % (want, rel), not wrong, cv,
                  'compare_version returns %s although its own numeric version is %s than the other%s' % (wrong[0][0] if wrong else '', rel, (' (on the path where %s)' % ' / '.join(wrong[0][1][:2])) if wrong and wrong[0][1] else ''),
                  stmt='compare_version orientation: %s' % rel, sample={'rule': 'patch', 'ordering': rel, 'paths': len(finals)})
    # the other version handed to compare_version as text is split into number and patch suffix by a pattern: its number group must be able to hold
    # every dotted decimal number with one or more components (the property quantifies over 1-4 components); otherwise '7p2' is not split, its
    # patch is lost and the judgement stops being antisymmetric
    from sa.regex_automata import Lang, split_at_group, inclusion
    splits = [n for n in walk_no_nested(cv) if isinstance(n, ast.Call) and unparse(n.func) in ('re.match', 're.search', 're.fullmatch') and len(n.args) == 2 and isinstance(n.args[0], ast.Constant)
              and isinstance(n.args[0].value, str) and unparse(n.args[1]) == 'other']
    # (a compare_version that splits the version differently is decided by the model above; the pattern rules below apply when the split is a literal pattern)
    for sp in splits:
        pre, grp, post = split_at_group(sp.args[0].value, 1)
        ok1, cex1 = inclusion(Lang(r'\d+(\.\d+)*'), grp)
        rep.check('patch', 'the number group of %r holds every dotted decimal with one or more components' % sp.args[0].value, ok1, sp,
                  'compare_version splits the other version with %r, whose number group cannot hold %r: a one-component version with a patch suffix (e.g. "7p2") is not split, so its patch level is ignored and the older/newer judgement is not antisymmetric' % (sp.args[0].value, cex1 if not ok1 else ''),
                  stmt='version/patch split pattern')
        ok2, cex2 = inclusion(grp, Lang(r'[\d.]+'))
        rep.check('patch', 'the number group of %r holds digits and dots only' % sp.args[0].value, ok2, sp, 'number group of %r can capture %r' % (sp.args[0].value, cex2 if not ok2 else ''), stmt='version/patch split pattern numeric')
        rep.evals(2)
    # Timeframe._update, same ordering domain: the "from" slots (0, 2) keep the numerically newest first-appearance version, the "till" slots (1, 3)
    # the numerically oldest removal version; an empty slot takes the incoming version
    tu = repo.func('timeframe', 'Timeframe._update')
    rep.saw(tu)
    upd_loops = [n for n in tu.body if isinstance(n, ast.For) and 'ssh_versions' in unparse(n.iter) and 'items' in unparse(n.iter)]
    if len(upd_loops) != 1:
        raise AnalysisError('Timeframe._update: the loop over the collected versions was not found')

    def tresolver(call):
        f0 = getattr(call, '_func', None) or tu
        for kind, g in sym.resolve_call(call, f0):
            if g is not None and g._module.name in MODULES and not is_numeric_key(g) and g is not tu:
                return g
        return None
    tbad = []
    for pos in (0, 1, 2, 3):
        for rel, kp, kn in (('older', 1, 2), ('equal', 1, 1), ('newer', 2, 1), ('empty', None, 1)):
            prev = None if rel == 'empty' else VTok('prev')
            new_v = VTok('new')

            def thook(call, env, interp, kp=kp, kn=kn):
                f0 = getattr(call, '_func', None) or tu
                for kind, g in sym.resolve_call(call, f0):
                    if g is not None and is_numeric_key(g) and call.args:
                        try:
                            v = interp.value(call.args[0], env)
                        except Unknown:
                            v = None
                        if isinstance(v, VTok):
                            return (True, (kp,) if v.name == 'prev' else (kn,))
                        raise Unknown('numeric key of a value that is not one of the two versions')
                return None
            storage = {'P': [prev, prev, prev, prev]}
            env = {'self': Opaque(), 'self.__storage': storage, 'pos': pos, 'ssh_versions.items()': [('P', new_v)], 'self[ssh_product][pos]': prev, 'self[ssh_product]': storage['P']}
            try:
                # locals computed from `pos` in front of the loop (a hoisted `pos % 2 == 0`) are part of the slot decision
                lead = [st_ for st_ in tu.body[:tu.body.index(upd_loops[0])] if isinstance(st_, (ast.Assign, ast.AnnAssign)) and not any(isinstance(x, ast.Call) for x in ast.walk(st_))]
                finals = Interp(call_hook=thook, resolver=tresolver).run(lead + [upd_loops[0]], env)
            except Unknown as ex:
                raise AnalysisError('Timeframe._update cannot be interpreted over key orderings: %s' % ex)
            if len(finals) != 1 or finals[0].get('<forks>'):
                raise AnalysisError('Timeframe._update: outcome depends on a condition the analysis does not model: %s' % [f.get('<forks>') for f in finals][:2])
            rep.evals()
            replaced = storage['P'][pos] is new_v
            want = rel == 'empty' or (pos % 2 == 0 and rel == 'older') or (pos % 2 == 1 and rel == 'newer')
            if replaced != want:
                tbad.append((pos, rel, replaced))
    rep.check('timeframe', 'Timeframe slots: "from" keeps the newest, "till" the oldest version, by numeric order (16 cases)', not tbad, upd_loops[0],
              'Timeframe._update: slot %s holding a version that is %s than the incoming one is %s' % ((tbad[0][0], tbad[0][1].replace('older', 'numerically older').replace('newer', 'numerically newer'), 'replaced' if tbad[0][2] else 'kept') if tbad else ('', '', '')),
              stmt='timeframe slot orientation', sample={'rule': 'timeframe', 'cases': 16})
    # ---- rule 3: consumers ----------------------------------------------------------------------------------------------------
    callers = sorted(func_id(a) for a, s, k in cg.callers(cv))
    gr = repo.func('algorithms', 'Algorithms.get_recommendations')
    reach_gr = {func_id(f) for f in cg.reachable([gr])}
    rep.check('consumers', 'compare_version consumers: recommendation filter, between_versions, compatibility line', 'software:Software.compare_version' in reach_gr and set(callers) >= {'software:Software.between_versions', 'ssh_audit:output_compatibility'}, cv, 'compare_version callers: %s' % callers,
              sample={'rule': 'consumers', 'callers': callers})
    # availability: an entry that first appeared in release V is recommended for addition to a server of release S exactly when S >= V numerically -- the
    # recommendation pass interpreted (props/_recommend.py) with a software object whose compare_version() is the numeric order, at the boundaries 9.4 / 9.5 / 9.6
    # around an entry of 9.5 and 10.2 / 10.10 around an entry of 10.2
    from props import _recommend as _R
    _prods = _R.products(repo)
    badv = []
    for sw in (('OpenSSH', '9.4'), ('OpenSSH', '9.5'), ('OpenSSH', '9.6'), ('OpenSSH', '10.1'), ('OpenSSH', '10.2'), ('OpenSSH', '10.10')):
        got = _R.run(repo, _R.OFFERS['nothing'], sw).get(2, {}).get('kex', {}).get('add', {})
        want = _R.expected(_prods, _R.OFFERS['nothing'], sw).get(2, {}).get('kex', {}).get('add', {})
        rep.evals()
        if set(got) != set(want):
            badv.append('%s %s: additions %s, expected %s' % (sw[0], sw[1], sorted(got), sorted(want)))
    rep.check('consumers', 'availability: a version entry counts iff the server is not older than the release it first appeared in', not badv, gr, 'availability gate changed -- %s' % (badv[0] if badv else ''), stmt='availability gate')
    bv = repo.func('software', 'Software.between_versions')
    t = unparse(bv)
    rep.check('consumers', 'between_versions: from <= self <= till via compare_version', 'self.compare_version(vfrom) < 0' in t and 'self.compare_version(vtill) > 0' in t, bv, 'between_versions changed')
    # no other module orders versions on its own
    for (m, q), f in repo.all_funcs().items():
        if m in ('software', 'timeframe') or m not in MODULES:
            continue
        for n in walk_no_nested(f):
            if isinstance(n, ast.Compare) and any(isinstance(o, (ast.Lt, ast.LtE, ast.Gt, ast.GtE)) for o in n.ops):
                ops = [n.left] + n.comparators
                if any(isinstance(o, ast.Name) and o.id in ('ssh_version', 'v_from', 'v_till', 'version') for o in ops):
                    rep.check('consumers', 'no ad-hoc version ordering outside software/timeframe: %s' % func_id(f), False, n, 'version ordered ad hoc: %s' % unparse(n))
    rep.note('order axioms: with every ordering site comparing integer tuples, the judgement is the lexicographic order on tuples of ints -- total, antisymmetric and transitive by construction; no separate check is needed')

    # ---- rule 4: the version handed to the comparison is the whole dotted number of the banner -----------------------------------
    # "available in an identified server exactly when its version is numerically at least ..." needs the identified version to be the
    # banner's: for OpenSSH, Dropbear and libssh the capture group that becomes Software.version must be able to hold every dotted
    # decimal version (regular-language inclusion \d+(\.\d+)+  <=  group 1) and nothing but digits and dots (what version_key parses).
    from props import _products as P
    sp, fams = P.families(repo)
    rep.saw(sp)
    served = 0
    for head, label, numeric in P.SPEC_HEADS:
        if label not in ('Product.OpenSSH', 'Product.DropbearSSH', 'Product.LibSSH'):
            continue
        fam = P.serving(fams, head)
        if fam is None:
            rep.note('no product pattern serves software strings starting with %r (C16 reports recognition); nothing to order' % head)
            continue
        served += 1
        ok, cex = P.captures_dotted(fam)
        rep.check('capture', 'version group of %r can hold every dotted decimal version (for %r)' % (fam.pattern, head), ok, fam.node,
                  'the version captured from a %s banner is truncated: group 1 of %r cannot hold the version %r, so the identified version (and every older/newer judgement made from it) is wrong for multi-digit components' % (head.rstrip('_-'), fam.pattern, cex if not ok else ''),
                  stmt='version capture for %s' % head, sample={'rule': 'capture', 'head': head, 'pattern': fam.pattern})
        ok2, cex2 = P.captures_only_numeric(fam)
        rep.check('capture', 'version group of %r holds digits and dots only (for %r)' % (fam.pattern, head), ok2, fam.node,
                  'group 1 of %r can capture %r, which is not a dotted decimal number: the numeric version key cannot order it' % (fam.pattern, cex2 if not ok2 else ''), stmt='numeric-only version capture for %s' % head)
        rep.evals(2)
        # the captured group is what becomes .version
        ret = fam.block.body[-1] if fam.block is not None and fam.block.body else None
        okv = isinstance(ret, ast.Return) and isinstance(ret.value, ast.Call) and len(ret.value.args) >= 3 and unparse(ret.value.args[2]) == 'mx.group(1)'
        rep.check('capture', 'family %r passes group 1 as the version' % fam.pattern, okv, ret or fam.node, 'family %r no longer passes mx.group(1) as the version' % fam.pattern, stmt='version argument for %s' % head)
    rep.floor('capture', 'numerically ordered product heads served by a pattern', served, 3)
