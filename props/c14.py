"""C14 -- software versions are ordered numerically, component by component."""
import ast

from sa.core import AnalysisError, unparse, walk_no_nested, stmt_text, call_name, func_id
from sa.logic import path_condition
from sa.callgraph import CallGraph

EXPL = ('Decides the clause "the older/same/newer judgement is computed on numeric components": a provenance-typed lint finds every ordering comparison (<, <=, >, >=, min, max, sorted without key) whose operand is a version string '
        '(Software.version, the regex-extracted other version, first-appeared versions from the table, Timeframe slots) and requires both operands to pass through a numeric key -- a function whose result is a tuple/list of int() applied to the '
        'dot-separated components. With that, the comparison is the lexicographic order on integer tuples: total, antisymmetric and transitive by construction. The patch-suffix comparison may stay lexical but must only be reachable after the numeric parts '
        'compared equal; the consumers (recommendation filter, between_versions, compatibility line, Timeframe) all go through these two sites. The version that enters the comparison is the one in the banner: for OpenSSH, Dropbear and libssh the capture group of the product pattern that becomes Software.version includes the regular language of dotted decimal versions and is included in [0-9.]+ (automata inclusion, shortest counter-example reported). Not decided: behaviour on malformed version strings.')

# expressions that denote version strings, per function (confirmed by reading the regexes / table format)
VERSION_EXPRS = {
    'software:Software.compare_version': {'self.version', 'oversion'},
    'timeframe:Timeframe._update': {'prev', 'ssh_version'},
}
MODULES = ('software', 'timeframe', 'algorithms', 'algorithm', 'ssh_audit')
VERSION_NAME_HINTS = ('version', 'oversion', 'ssh_ver', 'v_from', 'v_till', 'vfrom', 'vtill', 'prev')


def is_numeric_key(func):
    """Does the function return a tuple/list built from int() of the split components?"""
    if func is None:
        return False
    txt = unparse(func)
    has_split = ".split('.')" in txt or 'split(".")' in txt or "re.findall" in txt or "re.split" in txt
    has_int = any(isinstance(n, ast.Call) and isinstance(n.func, ast.Name) and n.func.id == 'int' for n in ast.walk(func))
    rets = [r for r in walk_no_nested(func) if isinstance(r, ast.Return) and r.value is not None]
    seq = any(isinstance(r.value, (ast.Tuple, ast.List, ast.ListComp)) or (isinstance(r.value, ast.Call) and isinstance(r.value.func, ast.Name) and r.value.func.id in ('tuple', 'list')) or isinstance(r.value, ast.Name) for r in rets)
    return has_split and has_int and seq and bool(rets)


def run(repo, rep, tier):
    rep.explanation = EXPL
    cg = CallGraph(repo)
    sym = cg.sym

    def keyed(e, f):
        """Operand passes through a numeric key function."""
        if isinstance(e, ast.Call):
            for kind, g in sym.resolve_call(e, f):
                if g is not None and is_numeric_key(g):
                    return True
        if isinstance(e, ast.Name):
            # local bound to a keyed value
            defs = [n for n in walk_no_nested(f) if isinstance(n, ast.Assign) and any(unparse(t) == e.id or (isinstance(t, ast.Tuple) and e.id in [unparse(x) for x in t.elts]) for t in n.targets)]
            vals = []
            for d in defs:
                if isinstance(d.targets[0], ast.Tuple) and isinstance(d.value, ast.Tuple):
                    vals.append(d.value.elts[[unparse(x) for x in d.targets[0].elts].index(e.id)])
                else:
                    vals.append(d.value)
            return bool(vals) and all(keyed(v, f) for v in vals)
        return False

    def versionish(e, fid):
        if isinstance(e, ast.Call) and e.args and any(versionish(a, fid) for a in e.args):
            return True
        t = unparse(e)
        if t in VERSION_EXPRS.get(fid, set()):
            return True
        if isinstance(e, ast.Name) and any(e.id == h or e.id.endswith('_' + h) or e.id.startswith(h) for h in VERSION_NAME_HINTS) and e.id not in ('versions',):
            return True
        if isinstance(e, ast.Attribute) and e.attr == 'version':
            return True
        return False
    nsites = 0
    lexical_patch = []
    for (m, q), f in sorted(repo.all_funcs().items()):
        if m not in MODULES:
            continue
        fid = '%s:%s' % (m, q)
        for n in walk_no_nested(f):
            if isinstance(n, ast.Compare) and any(isinstance(o, (ast.Lt, ast.LtE, ast.Gt, ast.GtE)) for o in n.ops):
                ops = [n.left] + n.comparators
                if any(isinstance(o, ast.Constant) and isinstance(o.value, (int, float)) for o in ops):
                    continue
                if any(unparse(o) in ('spatch', 'opatch') for o in ops):
                    lexical_patch.append((f, n))
                    continue
                vs = [o for o in ops if versionish(o, fid)]
                ks = [o for o in ops if keyed(o, f)]
                if not vs and not ks:
                    continue
                nsites += 1
                rep.saw(f)
                ok = len(ks) == len(ops)
                rep.check('numeric', '%s: `%s` compares numeric keys' % (fid, unparse(n)[:60]), ok, n,
                          'version strings are ordered as text in `%s`: "10.0" sorts before "9.9" and "0.10.6" before "0.7.0", so multi-digit components are judged older than they are' % unparse(n),
                          sample={'rule': 'numeric', 'site': fid, 'compare': unparse(n)})
            if isinstance(n, ast.Call) and isinstance(n.func, ast.Name) and n.func.id in ('min', 'max', 'sorted') and n.args:
                args = n.args
                if any(versionish(a, fid) for a in args) and not any(k.arg == 'key' for k in n.keywords) and m in ('software', 'timeframe'):
                    nsites += 1
                    rep.check('numeric', '%s: %s() over versions uses a numeric key' % (fid, n.func.id), False, n, '%s() applied to raw version strings' % n.func.id)
    rep.floor('numeric', 'version ordering sites', nsites, 4)
    # the two anchor functions must contain ordering sites (else the matcher went blind)
    for fid in VERSION_EXPRS:
        m, q = fid.split(':')
        f = repo.func(m, q)
        has = any(isinstance(n, ast.Compare) and any(isinstance(o, (ast.Lt, ast.Gt, ast.LtE, ast.GtE)) for o in n.ops) for n in walk_no_nested(f))
        rep.check('numeric', '%s still orders versions' % fid, has, f, '%s no longer contains an ordering comparison: anchor moved' % fid)

    # ---- rule 2: patch ordering only after numeric equality ------------------------------------------------------------------
    cv = repo.func('software', 'Software.compare_version')
    rep.floor('patch', 'lexical patch comparisons', len(lexical_patch), 2)
    vrets = []
    for n in walk_no_nested(cv):
        if isinstance(n, ast.If) and isinstance(n.test, ast.Compare) and any(isinstance(o, (ast.Lt, ast.Gt)) for o in n.test.ops) and all(keyed(o, cv) or versionish(o, 'software:Software.compare_version') for o in [n.test.left] + n.test.comparators) \
                and not any(unparse(o) in ('spatch', 'opatch') for o in [n.test.left] + n.test.comparators):
            vrets.append(n)
    ok = len(vrets) == 2
    if ok:
        first = vrets[0]
        chain_ok = len(first.orelse) == 1 and first.orelse[0] is vrets[1]
        r1 = [unparse(s.value) for s in first.body if isinstance(s, ast.Return)]
        r2 = [unparse(s.value) for s in vrets[1].body if isinstance(s, ast.Return)]
        lt_first = isinstance(first.test.ops[0], ast.Lt)
        ok = chain_ok and r1 == (['-1'] if lt_first else ['1']) and r2 == (['1'] if lt_first else ['-1'])
        # operands: self on the left in both
        ok = ok and 'self.version' in unparse(first.test.left) and 'self.version' in unparse(vrets[1].test.left)
    rep.check('patch', 'compare_version: numeric part decides first (self < other -> -1, self > other -> 1)', ok, vrets[0] if vrets else cv, 'numeric comparison block of compare_version changed')
    for f, n in lexical_patch:
        after = all(n.lineno > v.lineno for v in vrets) if vrets else False
        rep.check('patch', 'patch suffixes are compared only after the numeric parts compared equal', after and f is cv, n, 'lexical patch comparison `%s` is reachable before the numeric comparison' % unparse(n))
    txt = unparse(cv)
    for need, what in (("re.match('^test\\\\d.*$', opatch)", 'Dropbear test-release normalisation'), ("re.match('^p(\\\\d).*', opatch)", 'OpenSSH pN normalisation'), ("spatch == '' and opatch == '1' or (spatch == '1' and opatch == '')", 'OpenSSH p1 == release')):
        rep.check('patch', 'product-specific patch rule present: %s' % what, need in txt, cv, 'patch rule missing: %s' % what)

    # ---- rule 3: consumers ----------------------------------------------------------------------------------------------------
    callers = sorted(func_id(a) for a, s, k in cg.callers(cv))
    rep.check('consumers', 'compare_version consumers: recommendation filter, between_versions, compatibility line', set(callers) >= {'algorithms:Algorithms.get_recommendations', 'software:Software.between_versions', 'ssh_audit:output_compatibility'}, cv, 'compare_version callers: %s' % callers,
              sample={'rule': 'consumers', 'callers': callers})
    gr = repo.func('algorithms', 'Algorithms.get_recommendations')
    gate = [n for n in walk_no_nested(gr) if isinstance(n, ast.Compare) and 'compare_version(ssh_version)' in unparse(n)]
    ok = len(gate) == 1 and isinstance(gate[0].ops[0], ast.Lt) and unparse(gate[0].comparators[0]) == '0'
    rep.check('consumers', 'availability: a version entry is skipped iff the server is older (compare_version(first appeared) < 0)', ok, gate[0] if gate else gr, 'availability gate changed')
    bv = repo.func('software', 'Software.between_versions')
    t = unparse(bv)
    rep.check('consumers', 'between_versions: from <= self <= till via compare_version', 'self.compare_version(vfrom) < 0' in t and 'self.compare_version(vtill) > 0' in t, bv, 'between_versions changed')
    # no other module orders versions on its own
    for (m, q), f in repo.all_funcs().items():
        if m in ('software', 'timeframe') or m not in MODULES:
            continue
        for n in walk_no_nested(f):
            if isinstance(n, ast.Compare) and any(isinstance(o, (ast.Lt, ast.LtE, ast.Gt, ast.GtE)) for o in n.ops):
                ops = [n.left] + n.comparators
                if any(isinstance(o, ast.Name) and o.id in ('ssh_version', 'v_from', 'v_till', 'version') for o in ops):
                    rep.check('consumers', 'no ad-hoc version ordering outside software/timeframe: %s' % func_id(f), False, n, 'version ordered ad hoc: %s' % unparse(n))
    rep.note('order axioms: with every ordering site comparing integer tuples, the judgement is the lexicographic order on tuples of ints -- total, antisymmetric and transitive by construction; no separate check is needed')

    # ---- rule 4: the version handed to the comparison is the whole dotted number of the banner -----------------------------------
    # "available in an identified server exactly when its version is numerically at least ..." needs the identified version to be the
    # banner's: for OpenSSH, Dropbear and libssh the capture group that becomes Software.version must be able to hold every dotted
    # decimal version (regular-language inclusion \d+(\.\d+)+  <=  group 1) and nothing but digits and dots (what version_key parses).
    from props import _products as P
    sp, fams = P.families(repo)
    rep.saw(sp)
    served = 0
    for head, label, numeric in P.SPEC_HEADS:
        if label not in ('Product.OpenSSH', 'Product.DropbearSSH', 'Product.LibSSH'):
            continue
        fam = P.serving(fams, head)
        if fam is None:
            rep.note('no product pattern serves software strings starting with %r (C16 reports recognition); nothing to order' % head)
            continue
        served += 1
        ok, cex = P.captures_dotted(fam)
        rep.check('capture', 'version group of %r can hold every dotted decimal version (for %r)' % (fam.pattern, head), ok, fam.node,
                  'the version captured from a %s banner is truncated: group 1 of %r cannot hold the version %r, so the identified version (and every older/newer judgement made from it) is wrong for multi-digit components' % (head.rstrip('_-'), fam.pattern, cex if not ok else ''),
                  stmt='version capture for %s' % head, sample={'rule': 'capture', 'head': head, 'pattern': fam.pattern})
        ok2, cex2 = P.captures_only_numeric(fam)
        rep.check('capture', 'version group of %r holds digits and dots only (for %r)' % (fam.pattern, head), ok2, fam.node,
                  'group 1 of %r can capture %r, which is not a dotted decimal number: the numeric version key cannot order it' % (fam.pattern, cex2 if not ok2 else ''), stmt='numeric-only version capture for %s' % head)
        rep.evals(2)
        # the captured group is what becomes .version
        ret = fam.block.body[-1] if fam.block is not None and fam.block.body else None
        okv = isinstance(ret, ast.Return) and isinstance(ret.value, ast.Call) and len(ret.value.args) >= 3 and unparse(ret.value.args[2]) == 'mx.group(1)'
        rep.check('capture', 'family %r passes group 1 as the version' % fam.pattern, okv, ret or fam.node, 'family %r no longer passes mx.group(1) as the version' % fam.pattern, stmt='version argument for %s' % head)
    rep.floor('capture', 'numerically ordered product heads served by a pattern', served, 3)
