"""Shared by C08 and C18: declared-int results that may be text.

A tiny local type inference (no external checker is available in this sandbox): for a function whose return annotation declares `int` (alone or
as an element of Tuple[...]), every returned expression for that slot is classified int / str / unknown from literals, int()/len()/parse_int()
calls, regex groups and string methods, joins over `or` / conditional expressions and over all assignments of a local name.  Only a definite
`str` possibility is reported."""
import ast

from sa.core import unparse, walk_no_nested

INT_CALLS = {'int', 'len', 'ord', 'abs', 'Utils.parse_int', 'cls.parse_int', 'round'}
STR_METHODS = {'group', 'strip', 'lstrip', 'rstrip', 'lower', 'upper', 'format', 'join', 'decode', 'replace', 'split', 'rsplit', 'partition'}


def kinds(e, func, depth=0):
    if isinstance(e, ast.Constant):
        if isinstance(e.value, bool):
            return {'int'}
        if isinstance(e.value, int):
            return {'int'}
        if isinstance(e.value, str):
            return {'str'}
        return {'unknown'}
    if isinstance(e, ast.Call):
        fn = unparse(e.func)
        if fn in INT_CALLS:
            return {'int'}
        if fn == 'str':
            return {'str'}
        if isinstance(e.func, ast.Attribute) and e.func.attr in STR_METHODS:
            return {'str'} if e.func.attr not in ('split', 'rsplit', 'partition') else {'unknown'}
        return {'unknown'}
    if isinstance(e, ast.BoolOp):
        out = set()
        for v in e.values:
            out |= kinds(v, func, depth)
        return out
    if isinstance(e, ast.IfExp):
        return kinds(e.body, func, depth) | kinds(e.orelse, func, depth)
    if isinstance(e, ast.BinOp):
        if isinstance(e.op, ast.Mod) and isinstance(e.left, ast.Constant) and isinstance(e.left.value, str):
            return {'str'}
        a, b = kinds(e.left, func, depth), kinds(e.right, func, depth)
        return {'int'} if a == {'int'} and b == {'int'} else ({'str'} if a == {'str'} and b == {'str'} else {'unknown'})
    if isinstance(e, ast.JoinedStr):
        return {'str'}
    if isinstance(e, ast.Subscript):
        base = e.value
        if isinstance(base, ast.Name) and depth < 3:
            for d in walk_no_nested(func):
                if isinstance(d, ast.Assign) and any(isinstance(t, ast.Name) and t.id == base.id for t in d.targets) and isinstance(d.value, ast.Call) and isinstance(d.value.func, ast.Attribute) \
                        and d.value.func.attr in ('split', 'rsplit', 'partition', 'groups'):
                    return {'str'}
        return {'unknown'}
    if isinstance(e, ast.Name) and depth < 4:
        out = set()
        for a in func.args.args + func.args.kwonlyargs:
            if a.arg == e.id and a.annotation is not None:
                ann = unparse(a.annotation)
                out |= {'int'} if ann == 'int' else ({'str'} if ann == 'str' else {'unknown'})
        for d in walk_no_nested(func):
            if isinstance(d, ast.Assign):
                for t in d.targets:
                    if isinstance(t, ast.Name) and t.id == e.id:
                        out |= kinds(d.value, func, depth + 1)
                    elif isinstance(t, ast.Tuple) and isinstance(d.value, ast.Tuple) and len(t.elts) == len(d.value.elts):
                        for tt, vv in zip(t.elts, d.value.elts):
                            if isinstance(tt, ast.Name) and tt.id == e.id:
                                out |= kinds(vv, func, depth + 1)
                    elif isinstance(t, ast.Tuple) and any(isinstance(tt, ast.Name) and tt.id == e.id for tt in t.elts):
                        out |= {'unknown'}
            elif isinstance(d, ast.AnnAssign) and isinstance(d.target, ast.Name) and d.target.id == e.id and d.value is not None:
                out |= kinds(d.value, func, depth + 1)
            elif isinstance(d, (ast.For,)) and any(isinstance(x, ast.Name) and x.id == e.id for x in ast.walk(d.target)):
                out |= {'unknown'}
        return out or {'unknown'}
    return {'unknown'}


def declared_int_slots(func):
    """[(slot index or None, )] for `-> int` (None) and `-> Tuple[a, int, ...]` (indices)"""
    if func.returns is None:
        return []
    ann = func.returns
    if unparse(ann) == 'int':
        return [None]
    if isinstance(ann, ast.Subscript) and unparse(ann.value) in ('Tuple', 'tuple', 'typing.Tuple'):
        elts = ann.slice.elts if isinstance(ann.slice, ast.Tuple) else [ann.slice]
        return [i for i, x in enumerate(elts) if unparse(x) == 'int']
    return []


def text_where_int_declared(repo, modules=('utils',)):
    """[(function, return node, slot, expression text)] where a declared-int result may be a str"""
    out = []
    nfunc = 0
    for (m, q), f in sorted(repo.all_funcs().items()):
        if m not in modules:
            continue
        slots = declared_int_slots(f)
        if not slots:
            continue
        nfunc += 1
        for r in walk_no_nested(f):
            if not isinstance(r, ast.Return) or r.value is None:
                continue
            for sl in slots:
                if sl is None:
                    e = r.value
                elif isinstance(r.value, ast.Tuple) and sl < len(r.value.elts):
                    e = r.value.elts[sl]
                else:
                    continue
                if 'str' in kinds(e, f):
                    out.append((f, r, sl, unparse(e)))
    return nfunc, out
