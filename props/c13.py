"""C13 -- recommendations are consistent with the ratings shown."""
import ast
import copy
import itertools

from sa.core import AnalysisError, unparse, walk_no_nested, stmt_text, call_name, bind_args
from sa.logic import path_condition, eval_prop, text_atomizer
from sa.abseval import ev, Unknown
from sa.consteval import ConstEnv
from props.c03 import wildcard_categories, name_match_sites

EXPL = ('Decides the recommendation pass from its AST: (1) the three stores into the add/del/chg maps are extracted with their path conditions and evaluated as a truth table over '
        '{auth category, empty version row, version matches, advertised, has faults, key category, cert, sk, kex category, ext-info, kex-strict, in chg-set}; add <=> not advertised, no faults, not '
        'cert/sk/pseudo, version known and matching; del/chg <=> advertised and faults; never both; adds cleared for unknown software; (2) faults are computed from rows 1 and 2 of the same per-thread '
        'table row the renderers read, with weights 10/1, mapped >=10 critical, >=1 warning, and the table data keep warning counts below 10; (3) the advertised-test normalises names like the renderer '
        'for wildcard categories; (4) availability goes through compare_version(first-appeared) < 0; (5) no software => no recommendations, unknown product => no additions; (6) the suppression list only receives '
        'names the report explains. Not decided: rendering and sort order of (rec) lines.')


def _no_software_empty(repo, gar):
    """get_algorithm_recommendations(algs, None, software=None) == {} and (algs=None) == {}, by interpretation"""
    from sa.listinterp import Interp
    from sa.abseval import Opaque
    for env in ({'algs': Opaque(), 'algorithm_recommendation_suppress_list': None, 'software': None, 'for_server': True}, {'algs': None, 'algorithm_recommendation_suppress_list': None, 'software': Opaque(), 'for_server': True}):
        try:
            finals = Interp().run(gar.body, env)
        except Unknown:
            return False
        if any(f.get('<return>') != {} for f in finals):
            return False
    return True


def run(repo, rep, tier):
    rep.explanation = EXPL
    ce = ConstEnv(repo)
    db2 = ce.lookup('ssh2_kexdb', 'SSH2_KexDB.MASTER_DB')
    gr = repo.func('algorithms', 'Algorithms.get_recommendations')
    rep.saw(gr)

    # ---- rules 1, 2, 4, 5: the recommendation pass by abstract interpretation (props/_recommend.py) -------------------------------------------
    # get_recommendations is interpreted on a synthetic rating table with entries of every kind, 4 peers and 10 identified / unidentified softwares (server and
    # client direction): the add / del / chg maps and their points must be exactly what the documented rule gives; then get_algorithm_recommendations is
    # interpreted on those maps: critical <=> a failure (>= 10 points), warning <=> warnings only, additions informational, suppressed names left out.
    from props import _recommend as R
    gar = repo.func('ssh_audit', 'get_algorithm_recommendations')
    rep.saw(gar)
    prods = R.products(repo)
    bad = {'branches': [], 'unknown-software': [], 'faults': [], 'versions': []}
    nrows = 0
    for (odesc, offer), sw, fs in itertools.product(R.OFFERS.items(), R.SOFTWARE, (True, False)):
        got = R.run(repo, offer, sw, fs)
        want = R.expected(prods, offer, sw, fs)
        nrows += 1
        rep.evals()
        ctx = 'peer offering %s, software %s, %s audit' % (odesc, '%s %s' % sw if sw else 'not identified', 'server' if fs else 'client')
        if got != want:
            g2, w2 = got.get(2, {}), want.get(2, {})
            diffs = []
            for cat in ('kex', 'key', 'enc', 'mac'):
                for act in ('add', 'del', 'chg'):
                    a, b = g2.get(cat, {}).get(act, {}), w2.get(cat, {}).get(act, {})
                    if a != b:
                        diffs.append((cat, act, sorted(set(a) - set(b)), sorted(set(b) - set(a)), {x: (a[x], b[x]) for x in a if x in b and a[x] != b[x]}))
            cat, act, extra, missing, pts = diffs[0] if diffs else ('?', '?', [], [], {})
            rule = 'unknown-software' if (sw is None or sw[0] == 'UnknownSSH') else ('faults' if pts and not extra and not missing else ('versions' if act == 'add' and (extra or missing) and any(x.startswith(('k-new', 'k-old-good', 'k-cli', 'k-dropbear', 'k-newer')) for x in extra + missing) else 'branches'))
            what = ('wrongly recommended: %s' % extra) if extra else (('not recommended: %s' % missing) if missing else 'points (got, expected): %s' % pts)
            bad[rule].append('%s: %s/%s %s' % (ctx, cat, act, what) if diffs else '%s: returns %r, expected %r' % (ctx, got, want))
        # nothing is recommended both ways
        for cat, acts in got.get(2, {}).items():
            both = set(acts.get('add', {})) & (set(acts.get('del', {})) | set(acts.get('chg', {})))
            if both:
                bad['branches'].append('%s: %s recommended for addition and removal at once' % (ctx, sorted(both)))
    rep.floor('branches', 'recommendation scenarios interpreted', nrows, 60)
    msgs = {'branches': 'add / del / chg maps follow the documented rule (offered + rated -> remove or change; not offered, unrated, available, no pseudo algorithm -> add)',
            'versions': 'an algorithm is recommended for addition only when the identified release is at least the release it first appeared in (same product, client-only entries ignored for servers)',
            'unknown-software': 'unidentified or unrecognised software gets removals / changes but no additions',
            'faults': 'points are 10 x failures + warnings of the table row'}
    for rule, msg in msgs.items():
        rep.check(rule, '%s (%d scenarios)' % (msg, nrows), not bad[rule], gr, 'recommendations differ from the documented rule -- %s [%d scenarios deviate]' % (bad[rule][0] if bad[rule] else '', len(bad[rule])), stmt='recommendation table: %s' % rule,
                  sample={'rule': rule, 'scenarios': nrows})
    # the recommendations of a scan depend on THIS scan's table only: two calls in one process (same class-level state of Algorithms), the second on a table in
    # which the measured notes differ (a failure appended to one algorithm, the warning removed from another), must each match the documented rule for its table
    state_ = R.algorithms_class_state(repo)
    offer_ = R.OFFERS['everything rated and nothing else']
    db_b = copy.deepcopy(R.DB)
    db_b['kex']['k-old-warn'] = [['2.0'], ['F-measured'], ['W1']]        # gains a failure in the second scan
    db_b['enc']['e-warn'] = [['1.0'], [], []]                              # no longer rated in the second scan
    first_ = R.run(repo, offer_, ('OpenSSH', '9.6'), True, class_state=state_)
    second_ = R.run(repo, offer_, ('OpenSSH', '9.6'), True, db=db_b, class_state=state_)
    rep.evals(2)
    old_db = R.DB
    try:
        R.DB = db_b
        want_second = R.expected(prods, offer_, ('OpenSSH', '9.6'), True)
    finally:
        R.DB = old_db
    want_first = R.expected(prods, offer_, ('OpenSSH', '9.6'), True)
    rep.check('faults', 'a second scan in the same process is recommended from its own ratings (class-level state of Algorithms carried over)', first_ == want_first and second_ == want_second, gr,
              'recommendations of a later scan in the same process follow an earlier scan\'s ratings: with the table of the second target the pass returns %r, its own ratings imply %r' % (second_, want_second),
              stmt='recommendations depend on this scan only')
    # severity levels and suppression
    badl = []
    for sup in (None, [], ['k-old-fail', 'e-warn', 'k-old-good', 'rsa-sha2-256']):
        for (odesc, offer), sw in itertools.product(R.OFFERS.items(), (('OpenSSH', '9.6'), ('DropbearSSH', '2022.83'))):
            rec = R.expected(prods, offer, sw)
            got = R.run_levels(repo, rec, sup)
            rep.evals()
            names = {lvl: {act: {cat: [e.get('name') if isinstance(e, dict) else e for e in lst] for cat, lst in cats.items()} for act, cats in acts.items()} for lvl, acts in got.items()}
            want = R.expected_levels(rec, sup)
            def _unordered(d):
                # which names are recommended at which level is the property; the order inside one list is not (C15 decides output determinism)
                return {lvl: {act: {cat: sorted(lst, key=str) for cat, lst in cats.items()} for act, cats in acts.items()} for lvl, acts in d.items()}
            if _unordered(names) != _unordered(want):
                badl.append('peer offering %s, %s, suppression list %s: %r, expected %r' % (odesc, '%s %s' % sw, sup, names, want))
    rep.check('faults', 'critical <=> the algorithm has a failure, warning <=> warnings only, additions informational; suppressed names are left out of every action', not badl, gar,
              'severity / suppression of recommendations wrong -- %s' % (badl[0] if badl else ''), stmt='recommendation levels')
    rep.check('unknown-software', 'no recognised software => empty recommendations', R.run_levels(repo, {2: {'kex': {'del': {'x': 10}}}}, None) != {} and _no_software_empty(repo, gar), gar, 'get_algorithm_recommendations does not return {} when software is None', stmt='no software')
    sp = repo.func('software', 'Software.parse')
    rep.check('unknown-software', 'Software.parse falls back to None', isinstance(sp.body[-1], ast.Return) and unparse(sp.body[-1].value) == 'None', sp, 'Software.parse no longer returns None for an unrecognised banner')
    s2 = repo.func('algorithms', 'Algorithms.ssh2')
    items = [n for n in walk_no_nested(s2) if isinstance(n, ast.Call) and unparse(n.func) == 'Algorithms.Item']
    ok = len(items) == 1 and unparse(items[0].args[1]) == 'SSH2_KexDB.get_db()' and unparse(items[0].args[0]) == '2'
    rep.check('faults', 'Item db is the per-thread copy from SSH2_KexDB.get_db() (sees run-time rating edits)', ok, items[0] if items else s2, 'Algorithms.ssh2 does not use SSH2_KexDB.get_db()')
    def _through_alias(e):
        # a local bound once to an expression stands for that expression (item.add('kex', kex_algs) with kex_algs = self.ssh2kex.kex_algorithms)
        if isinstance(e, ast.Name):
            defs = [d for d in walk_no_nested(s2) if isinstance(d, ast.Assign) and len(d.targets) == 1 and isinstance(d.targets[0], ast.Name) and d.targets[0].id == e.id]
            if len(defs) == 1:
                return unparse(defs[0].value)
        return unparse(e)
    adds = sorted((unparse(n.args[0]), _through_alias(n.args[1])) for n in walk_no_nested(s2) if isinstance(n, ast.Call) and unparse(n.func) == 'item.add')
    want = sorted([("'kex'", 'self.ssh2kex.kex_algorithms'), ("'key'", 'self.ssh2kex.key_algorithms'), ("'enc'", 'self.ssh2kex.server.encryption'), ("'mac'", 'self.ssh2kex.server.mac')])
    rep.check('faults', 'advertised lists per category are the parsed lists the report renders', adds == want, s2, 'Algorithms.ssh2 categories: %s' % adds)
    maxwarn = max(len(rows[2]) if len(rows) > 2 else 0 for cat in db2.values() for rows in cat.values())
    rep.check('faults', 'largest warning row (%d) + 3 run-time insertions stays below 10, so critical <=> has a failure' % maxwarn, maxwarn + 3 < 10, repo.cls('ssh2_kexdb', 'SSH2_KexDB'), 'a database entry has %d warnings: warning-only entries could score as critical' % maxwarn)


    # ---- rule 3: name matching agreement (by the same model): a peer offers an instance of a wildcard row that carries a failure -- the report rates it from
    # that row (C03), so it must be recommended for removal
    import copy as _copy
    R.DB['kex']['gss-gex-sha1-*'] = [['6.0'], ['F1']]
    try:
        got = R.run(repo, {'kex': ['gss-gex-sha1-AbC=='], 'key': [], 'enc': [], 'mac': []}, ('OpenSSH', '9.6'))
    finally:
        del R.DB['kex']['gss-gex-sha1-*']
    dels = got.get(2, {}).get('kex', {}).get('del', {})
    rep.check('name-match', 'an advertised instance of a wildcard row (gss-*) that carries a failure is recommended for removal', any(k.startswith('gss-gex-sha1-') for k in dels), gr,
              'advertised-test compares raw names with the wildcard keys of category \'kex\' (gss-gex-sha1-* ...): a fail-rated gss-* key exchange is never recommended for removal',
              func='algorithms:Algorithms.get_recommendations', stmt='n not in alg_list')

    # ---- rule 6: suppression list contents --------------------------------------------------------------------------------------
    ppf = repo.func('ssh_audit', 'post_process_findings')
    writers = []
    for n in walk_no_nested(ppf):
        if isinstance(n, ast.Call) and unparse(n.func) == 'algorithm_recommendation_suppress_list.append':
            writers.append(('append', unparse(n.args[0]), n))
        elif isinstance(n, ast.AugAssign) and unparse(n.target) == 'algorithm_recommendation_suppress_list':
            writers.append(('+=', call_name(n.value) if isinstance(n.value, ast.Call) else unparse(n.value), n))
        elif isinstance(n, ast.Assign) and unparse(n.targets[0]) == 'algorithm_recommendation_suppress_list':
            writers.append(('=', unparse(n.value), n))
    # contents of the returned suppression list, by abstract interpretation of post_process_findings and its nested helpers (sa/listinterp.py,
    # props/_terrapin.py) over {ChaCha, CBC, ETM offered} x {GEX-SHA256 offered, modulus recorded none / 2048 / 3072, banner none / no software / OpenSSH /
    # other}: exactly the database names of Terrapin shape that the peer does NOT offer, plus the GEX name iff the documented OpenSSH 2048-bit fallback
    # was observed -- in particular a name the peer advertises is never suppressed (its removal recommendation must stay visible)
    from sa.abseval import Opaque
    from props import _terrapin as T
    GEXN = T.GEXN
    shaped = {n for names in T.DB_NAMES.values() for n in names if any(f(n) for f in T.SHAPE.values())}
    bad = []
    nrows = 0
    gex_cases = [(False, None, 'OpenSSH_8.9p1'), (True, 2048, 'OpenSSH_8.9p1'), (True, 3072, 'OpenSSH_8.9p1'), (True, 2048, 'dropbear_2022.83'), (True, 2048, 'none'), (True, 2048, 'nosoft'), (True, None, 'OpenSSH_8.9p1')]
    for kexp, chacha, cbc, etm in itertools.product([False, True], repeat=4):
        if not kexp and (chacha or cbc or etm):
            continue
        for gexin, size, ban in (gex_cases if kexp else [(False, None, 'OpenSSH_8.9p1'), (False, None, 'none')]):
            nrows += 1
            val = {'kexp': kexp, 'client': False, 'c': False, 's': False, 'chacha': chacha, 'cbc': cbc, 'etm': etm}
            extra = {'algs.ssh2kex.dh_modulus_sizes()': ({GEXN: size} if size is not None else {}),
                     'banner': None if ban == 'none' else Opaque(), 'banner is not None': ban != 'none', 'banner is None': ban == 'none',
                     'banner.software': None if ban in ('none', 'nosoft') else ban}
            finals, it, table = T.interpret(repo, ppf, val, extra_env=extra, kex_extra=([GEXN] if gexin else []))
            want_gex = kexp and gexin and size == 2048 and ban.startswith('OpenSSH')
            want_set = T.expected_suppressed(val) | ({GEXN} if want_gex else set())
            for fe in finals:
                rep.evals()
                r = fe.get('<return>')
                if fe.get('<outcome>') != 'return' or not isinstance(r, tuple) or not isinstance(r[0], list) or any(isinstance(x, Opaque) for x in r[0]):
                    raise AnalysisError('post_process_findings: suppression list not computable (forks: %s)' % fe.get('<forks>'))
                got_set = set(r[0])
                if got_set != want_set:
                    bad.append(({'ChaCha offered': chacha, 'CBC offered': cbc, 'ETM offered': etm, 'gex offered': gexin, 'modulus': size, 'banner': ban}, sorted(got_set - want_set), sorted(want_set - got_set)))
    rep.floor('suppress', 'suppression rows interpreted', nrows, 50)
    rep.check('suppress', 'the suppression list holds exactly the Terrapin-shaped database names the peer does not offer, plus the GEX name iff the OpenSSH 2048-bit fallback was observed (%d rows)' % nrows, not bad, ppf,
              'recommendation suppression list is wrong: with %s it %s' % ((bad[0][0], ('also suppresses %s (a name the peer advertises loses its removal recommendation)' % bad[0][1]) if bad[0][1] else ('no longer suppresses %s' % bad[0][2])) if bad else ({}, '')),
              stmt='suppression list contents', sample={'rule': 'suppress', 'rows': nrows})
    for k, v, n in writers:
        if k == 'append':
            # the same block adds the explanatory note
            blk = n._parent._parent.body
            ok = any('bugzilla.mindrot.org' in unparse(s) for s in blk)
            rep.check('suppress', 'GEX suppression is accompanied by the explanatory note', ok, n, 'name suppressed without telling the operator why')
