"""C13 -- recommendations are consistent with the ratings shown."""
import ast
import itertools

from sa.core import AnalysisError, unparse, walk_no_nested, stmt_text, call_name, bind_args
from sa.logic import path_condition, eval_prop, text_atomizer
from sa.abseval import ev, Unknown
from sa.consteval import ConstEnv
from props.c03 import wildcard_categories, name_match_sites

EXPL = ('Decides the recommendation pass from its AST: (1) the three stores into the add/del/chg maps are extracted with their path conditions and evaluated as a truth table over '
        '{auth category, empty version row, version matches, advertised, has faults, key category, cert, sk, kex category, ext-info, kex-strict, in chg-set}; add <=> not advertised, no faults, not '
        'cert/sk/pseudo, version known and matching; del/chg <=> advertised and faults; never both; adds cleared for unknown software; (2) faults are computed from rows 1 and 2 of the same per-thread '
        'table row the renderers read, with weights 10/1, mapped >=10 critical, >=1 warning, and the table data keep warning counts below 10; (3) the advertised-test normalises names like the renderer '
        'for wildcard categories; (4) availability goes through compare_version(first-appeared) < 0; (5) no software => no recommendations, unknown product => no additions; (6) the suppression list only receives '
        'names the report explains. Not decided: rendering and sort order of (rec) lines.')


def run(repo, rep, tier):
    rep.explanation = EXPL
    ce = ConstEnv(repo)
    db2 = ce.lookup('ssh2_kexdb', 'SSH2_KexDB.MASTER_DB')
    gr = repo.func('algorithms', 'Algorithms.get_recommendations')
    rep.saw(gr)

    # ---- rule 1: branch table -------------------------------------------------------------------------------
    stores = {}
    for n in walk_no_nested(gr):
        if isinstance(n, ast.Assign) and isinstance(n.targets[0], ast.Subscript):
            t = unparse(n.targets[0])
            for act in ('add', 'del', 'chg'):
                if t == "rec[sshv][alg_type]['%s'][n]" % act:
                    stores.setdefault(act, []).append(n)
    for act in ('add', 'del', 'chg'):
        rep.check('branches', 'exactly one store into the %s map' % act, len(stores.get(act, [])) == 1, stores.get(act, [gr])[0], '%d stores into rec[..][%r]' % (len(stores.get(act, [])), act))
    if any(len(stores.get(a, [])) != 1 for a in ('add', 'del', 'chg')):
        return
    # chg-set literal
    chgset_txt = None
    for n in walk_no_nested(gr):
        if isinstance(n, ast.Compare) and len(n.ops) == 1 and isinstance(n.ops[0], ast.In) and unparse(n.left) == 'n' and isinstance(n.comparators[0], ast.List):
            chgset_txt = unparse(n)
    table = {
        "alg_type == 'aut'": 'aut',
        'len(versions) == 0 or versions[0] is None': 'empty',
        'empty_version': 'empty',
        'matches': 'matches',
        'n not in alg_list': '!adv',
        'n in alg_list': 'adv',
        'faults > 0': 'faults',
        'faults == 0': '!faults',
        "alg_type == 'key'": 'iskey',
        "'-cert-' in n": 'cert',
        "n.startswith('sk-')": 'sk',
        "alg_type == 'kex'": 'iskex',
        "n.startswith('ext-info-')": 'ext',
        "n.startswith('kex-strict-')": 'strict',
    }
    if chgset_txt:
        table[chgset_txt] = 'chgset'
    # the "advertised" test: `n [not] in X` where X is the current category's advertised list -- the loop variable of
    # `for alg_type, alg_list in alg_pair.items()` or a local (re)defined from it inside that loop on every iteration
    cat_loops = [n for n in walk_no_nested(gr) if isinstance(n, ast.For) and unparse(n.iter) == 'alg_pair.items()' and isinstance(n.target, ast.Tuple) and len(n.target.elts) == 2]
    if len(cat_loops) != 1:
        raise AnalysisError('category loop `for alg_type, alg_list in alg_pair.items()` not found')
    cat_loop = cat_loops[0]
    cat_list = unparse(cat_loop.target.elts[1])
    for n in walk_no_nested(gr):
        if isinstance(n, ast.Compare) and len(n.ops) == 1 and isinstance(n.ops[0], (ast.In, ast.NotIn)) and unparse(n.left) == 'n' and isinstance(n.comparators[0], ast.Name):
            X = n.comparators[0].id
            ok = X == cat_list
            why = ''
            if not ok:
                defs = [d for d in walk_no_nested(gr) if isinstance(d, (ast.Assign, ast.AnnAssign)) and unparse(d.targets[0] if isinstance(d, ast.Assign) else d.target) == X]
                muts = [c for c in walk_no_nested(gr) if isinstance(c, ast.Call) and isinstance(c.func, ast.Attribute) and unparse(c.func.value) == X and c.func.attr in ('update', 'add', 'append', 'extend', 'remove', 'discard', 'clear')]
                inside = [d for d in defs if any(d is x for x in ast.walk(cat_loop)) and d in cat_loop.body]
                from sa.slicer import uses as _uses
                derived_ok = all(cat_list in _uses(d.value) for d in inside if d.value is not None)
                ok = bool(inside) and len(inside) == len(defs) and not muts and derived_ok
                why = 'it is defined %s the per-category loop%s' % ('outside' if len(inside) != len(defs) else 'inside', ' and accumulated with %s()' % muts[0].func.attr if muts else '')
            rep.check('branches', 'the advertised-test `%s` consults the current category\'s advertised list only' % unparse(n), ok, n,
                      '`%s` tests membership in `%s`, which is not the current category\'s list (%s): a name advertised in one category counts as advertised in another (e.g. cipher "none" makes MAC "none" look advertised)' % (unparse(n), X, why))
            if ok:
                table[unparse(n)] = 'adv' if isinstance(n.ops[0], ast.In) else '!adv'
            else:
                table[unparse(n)] = 'adv' if isinstance(n.ops[0], ast.In) else '!adv'
    atz = text_atomizer(table)
    atoms = ['aut', 'empty', 'matches', 'adv', 'faults', 'iskey', 'cert', 'sk', 'iskex', 'ext', 'strict', 'chgset']
    conds = {a: [(t, p) for t, p, k in path_condition(stores[a][0]) if k != 'for'] for a in ('add', 'del', 'chg')}
    bad = {a: [] for a in ('add', 'del', 'chg', 'both')}
    rows = 0
    for bits in itertools.product([False, True], repeat=len(atoms)):
        v = dict(zip(atoms, bits))
        if sum([v['aut'], v['iskey'], v['iskex']]) > 1:
            continue        # one category at a time
        rows += 1
        got = {a: all(eval_prop(t, atz, v) == p for t, p in conds[a]) for a in conds}
        certsk = v['iskey'] and (v['cert'] or v['sk'])
        pseudo = v['iskex'] and (v['ext'] or v['strict'])
        avail = v['empty'] or v['matches']
        want = {
            'add': (not v['aut']) and v['matches'] and not v['empty'] and not v['adv'] and not v['faults'] and not certsk and not pseudo,
            'del': (not v['aut']) and avail and v['adv'] and v['faults'] and not v['chgset'],
            'chg': (not v['aut']) and avail and v['adv'] and v['faults'] and v['chgset'],
        }
        for a in want:
            if got[a] != want[a]:
                bad[a].append((v, got[a], want[a]))
        if got['add'] and (got['del'] or got['chg']):
            bad['both'].append(v)
        rep.evals(3)
    for a in ('add', 'del', 'chg'):
        b = bad[a]
        rep.check('branches', '%s store fires exactly per the documented rule (%d rows)' % (a, rows), not b, stores[a][0],
                  'recommendation "%s" rule broken: with %s the store %s (documented: %s)' % ((a,) + ((dict((k, x) for k, x in b[0][0].items() if x), 'fires' if b[0][1] else 'is skipped', 'fires' if b[0][2] else 'skipped') if b else ({}, '', ''))),
                  sample={'rule': 'branches', 'action': a, 'rows': rows, 'path_condition': [(unparse(t)[:90], p) for t, p in conds[a]]})
    rep.check('branches', 'nothing is recommended both ways', not bad['both'], stores['add'][0], 'an algorithm can be recommended for addition and removal at once')
    # values stored: add -> 0 points, del/chg -> faults
    rep.check('branches', 'additions carry 0 points', unparse(stores['add'][0].value) == '0', stores['add'][0], 'addition stored with %s points' % unparse(stores['add'][0].value))
    for a in ('del', 'chg'):
        rep.check('branches', '%s carries the fault score' % a, unparse(stores[a][0].value) == 'faults', stores[a][0], '%s stored with %s' % (a, unparse(stores[a][0].value)))
    # empty_version / matches definitions
    ev_defs = [n for n in walk_no_nested(gr) if isinstance(n, ast.Assign) and unparse(n.targets[0]) == 'empty_version']
    ok = sorted(unparse(d.value) for d in ev_defs) == ['False', 'True']
    if ok:
        tdef = [d for d in ev_defs if unparse(d.value) == 'True'][0]
        pc = [(unparse(t), p) for t, p, k in path_condition(tdef) if k == 'if']
        ok = pc[-1:] == [('len(versions) == 0 or versions[0] is None', True)]
    rep.check('branches', 'empty_version <=> version row empty or None', ok, ev_defs[0] if ev_defs else gr, 'empty_version is not defined by the version-row test')
    m_defs = [n for n in walk_no_nested(gr) if isinstance(n, ast.Assign) and unparse(n.targets[0]) == 'matches']
    mtrue = [d for d in m_defs if unparse(d.value) == 'True']
    mfalse = [d for d in m_defs if unparse(d.value) == 'False']
    rep.check('versions', 'matches starts False and is set True at two sites (unknown software, version loop)', len(mfalse) == 1 and len(mtrue) == 2, m_defs[0] if m_defs else gr, 'definitions of matches: %s' % [unparse(d) for d in m_defs])
    # ---- rule 4: version gate ------------------------------------------------------------------------------------------
    loop_true = [d for d in mtrue if any(k == 'for' and 'versions[0].split' in unparse(t) for t, p, k in path_condition(d))]
    rep.check('versions', 'availability is decided inside the loop over the first-appeared versions', len(loop_true) == 1, mtrue[0] if mtrue else gr, 'version loop changed')
    if loop_true:
        guards = sorted(unparse(t) for t, p, k in path_condition(loop_true[0]) if k == 'guard' and p is False and 'alg_type' not in unparse(t))
        want = sorted(['not ssh_version', 'software is not None and ssh_prefix != software.product', 'is_cli and for_server', 'software is not None and software.compare_version(ssh_version) < 0'])
        rep.check('versions', 'a version entry counts unless: empty, other product, client-only for servers, or server older than it', guards == want, loop_true[0],
                  'version gate changed: skip conditions are %s' % guards, sample={'rule': 'versions', 'skip_conditions': guards})
        nxt = loop_true[0]._parent.body if hasattr(loop_true[0]._parent, 'body') else []
        rep.check('versions', 'first matching version ends the search', any(isinstance(s, ast.Break) for s in nxt[nxt.index(loop_true[0]):]) if loop_true[0] in nxt else False, loop_true[0], 'no break after a version matched')
        gsv = [n for n in walk_no_nested(gr) if isinstance(n, ast.Assign) and isinstance(n.value, ast.Call) and unparse(n.value.func) == 'Algorithm.get_ssh_version']
        ok = len(gsv) == 1 and unparse(gsv[0].targets[0]) == '(ssh_prefix, ssh_version, is_cli)' and unparse(gsv[0].value.args[0]) == 'v'
        rep.check('versions', 'version entries are decomposed by Algorithm.get_ssh_version', ok, gsv[0] if gsv else gr, 'version decomposition changed')
    us_true = [d for d in mtrue if d not in loop_true]
    if us_true:
        pc = [(unparse(t), p) for t, p, k in path_condition(us_true[0]) if k == 'if']
        rep.check('versions', 'unknown software matches every version (its additions are dropped below)', pc[-1:] == [('unknown_software', True)], us_true[0], 'unconditional version match')

    # ---- rule 5: unrecognised software ----------------------------------------------------------------------------------
    us_defs = [n for n in walk_no_nested(gr) if isinstance(n, ast.Assign) and unparse(n.targets[0]) == 'unknown_software']
    pcs = sorted((unparse(d.value), tuple((unparse(t), p) for t, p, k in path_condition(d))) for d in us_defs)
    want = sorted([('False', ()), ('True', (('software is not None', True), ('software.product not in vproducts', True))), ('True', (('software is None', True),))])
    rep.check('unknown-software', 'unknown_software <=> no software or product outside the recognised list', pcs == want, us_defs[0] if us_defs else gr, 'unknown_software definitions: %s' % pcs)
    vp = [n for n in walk_no_nested(gr) if isinstance(n, ast.Assign) and unparse(n.targets[0]) == 'vproducts']
    if vp:
        names = [unparse(e) for e in vp[0].value.elts] if isinstance(vp[0].value, ast.List) else []
        rep.check('unknown-software', 'recognised products are OpenSSH, Dropbear, libssh, TinySSH', names == ['Product.OpenSSH', 'Product.DropbearSSH', 'Product.LibSSH', 'Product.TinySSH'], vp[0], 'recognised product list is %s' % names)
    clr = [n for n in walk_no_nested(gr) if isinstance(n, ast.Assign) and unparse(n.targets[0]) == "rec[sshv][alg_type]['add']" and unparse(n.value) == '{}']
    ok = len(clr) == 1
    if ok:
        pc = [(unparse(t), p, k) for t, p, k in path_condition(clr[0])]
        ifs = [(t, p) for t, p, k in pc if k == 'if']
        fors = [t for t, p, k in pc if k == 'for']
        ok = ifs == [('unknown_software', True)] and len(fors) == 2 and clr[0].lineno > stores['add'][0].lineno
    rep.check('unknown-software', 'additions are cleared per category for unknown software, after the pass', ok, clr[0] if clr else gr, 'additions are not cleared for unrecognised software')
    gar = repo.func('ssh_audit', 'get_algorithm_recommendations')
    rep.saw(gar)
    first = gar.body[1] if isinstance(gar.body[0], ast.Expr) else gar.body[0]
    early = [n for n in gar.body if isinstance(n, ast.If) and 'software is None' in unparse(n.test) and isinstance(n.body[-1], ast.Return)]
    ok = len(early) == 1 and unparse(early[0].body[-1].value) == 'ret'
    retinit = [n for n in gar.body if isinstance(n, (ast.Assign, ast.AnnAssign)) and unparse(n.target if isinstance(n, ast.AnnAssign) else n.targets[0]) == 'ret']
    ok = ok and len(retinit) == 1 and unparse(retinit[0].value) == '{}' and retinit[0].lineno < early[0].lineno
    rep.check('unknown-software', 'no recognised software => empty recommendations', ok, early[0] if early else gar, 'get_algorithm_recommendations does not return {} when software is None')
    sp = repo.func('software', 'Software.parse')
    rets = [r for r in walk_no_nested(sp) if isinstance(r, ast.Return)]
    rep.check('unknown-software', 'Software.parse falls back to None', isinstance(sp.body[-1], ast.Return) and unparse(sp.body[-1].value) == 'None', sp, 'Software.parse no longer returns None for unrecognised banners')

    # ---- rule 2: faults -----------------------------------------------------------------------------------------------------
    floop = [n for n in walk_no_nested(gr) if isinstance(n, ast.For) and unparse(n.iter) == 'range(1, 3)']
    ok = len(floop) == 1
    if ok:
        body = unparse(floop[0])
        aug = [n for n in walk_no_nested(floop[0]) if isinstance(n, ast.AugAssign) and unparse(n.target) == 'faults']
        fc = [n for n in walk_no_nested(floop[0]) if isinstance(n, ast.Assign) and unparse(n.targets[0]) == 'fc']
        ok = len(aug) == 1 and isinstance(aug[0].op, ast.Add) and unparse(aug[0].value) == 'pow(10, 2 - i) * fc' and len(fc) == 1 and unparse(fc[0].value) == 'len(alg_desc[i])'
    rep.check('faults', 'faults = 10*len(failure row) + 1*len(warning row) of the same table row', ok, floop[0] if floop else gr, 'fault score computation changed')
    finit = [n for n in walk_no_nested(gr) if isinstance(n, ast.Assign) and 'faults' in unparse(n.targets[0]) and not isinstance(n.targets[0], ast.Subscript)]
    def _tuple_binding(asg, name):
        t, v = asg.targets[0], asg.value
        if isinstance(t, ast.Name) and t.id == name:
            return v
        if isinstance(t, ast.Tuple) and isinstance(v, ast.Tuple) and len(t.elts) == len(v.elts):
            for a, b in zip(t.elts, v.elts):
                if isinstance(a, ast.Name) and a.id == name:
                    return b
        return None
    ok = len(finit) == 1 and _tuple_binding(finit[0], 'faults') is not None and unparse(_tuple_binding(finit[0], 'faults')) == '0'
    rep.check('faults', 'fault score restarts at 0 for every algorithm', ok and any(k == 'for' and 'alg_db[alg_type].items()' in unparse(t) for t, p, k in path_condition(finit[0])), finit[0] if finit else gr, 'fault score not reset per algorithm')
    # the row object is the per-thread table's row
    src = [n for n in walk_no_nested(gr) if isinstance(n, ast.Assign) and 'alg_db' in unparse(n.targets[0])]
    ok = len(src) == 1 and _tuple_binding(src[0], 'alg_db') is not None and unparse(_tuple_binding(src[0], 'alg_db')) == 'alg_pair.db'
    rep.check('faults', 'the table is the Item\'s db', ok, src[0] if src else gr, 'alg_db source changed')
    s2 = repo.func('algorithms', 'Algorithms.ssh2')
    items = [n for n in walk_no_nested(s2) if isinstance(n, ast.Call) and unparse(n.func) == 'Algorithms.Item']
    ok = len(items) == 1 and unparse(items[0].args[1]) == 'SSH2_KexDB.get_db()' and unparse(items[0].args[0]) == '2'
    rep.check('faults', 'Item db is the per-thread copy from SSH2_KexDB.get_db() (sees run-time rating edits)', ok, items[0] if items else s2, 'Algorithms.ssh2 does not use SSH2_KexDB.get_db()')
    def _through_alias(e):
        # a local bound once to an expression stands for that expression (item.add('kex', kex_algs) with kex_algs = self.ssh2kex.kex_algorithms)
        if isinstance(e, ast.Name):
            defs = [d for d in walk_no_nested(s2) if isinstance(d, ast.Assign) and len(d.targets) == 1 and isinstance(d.targets[0], ast.Name) and d.targets[0].id == e.id]
            if len(defs) == 1:
                return unparse(defs[0].value)
        return unparse(e)
    adds = sorted((unparse(n.args[0]), _through_alias(n.args[1])) for n in walk_no_nested(s2) if isinstance(n, ast.Call) and unparse(n.func) == 'item.add')
    want = sorted([("'kex'", 'self.ssh2kex.kex_algorithms'), ("'key'", 'self.ssh2kex.key_algorithms'), ("'enc'", 'self.ssh2kex.server.encryption'), ("'mac'", 'self.ssh2kex.server.mac')])
    rep.check('faults', 'advertised lists per category are the parsed lists the report renders', adds == want, s2, 'Algorithms.ssh2 categories: %s' % adds)
    # severity mapping
    lv = [n for n in walk_no_nested(gar) if isinstance(n, ast.If) and unparse(n.test) == 'points >= 10']
    ok = len(lv) == 1
    if ok:
        chain = lv[0]
        for pts, want_level in ((0, 'informational'), (1, 'warning'), (9, 'warning'), (10, 'critical'), (11, 'critical'), (25, 'critical')):
            env = {'points': pts}
            level = 'informational'
            node = chain
            while True:
                if ev(node.test, env):
                    level = [unparse(s.value) for s in node.body if isinstance(s, ast.Assign) and unparse(s.targets[0]) == 'level'][0].strip("'")
                    break
                if len(node.orelse) == 1 and isinstance(node.orelse[0], ast.If):
                    node = node.orelse[0]
                else:
                    break
            rep.evals()
            rep.check('faults', 'points=%d -> %s' % (pts, want_level), level == want_level, chain, 'severity mapping: %d points gives %s, expected %s' % (pts, level, want_level))
        pdef = [n for n in walk_no_nested(gar) if isinstance(n, ast.Assign) and unparse(n.targets[0]) == 'points']
        rep.check('faults', 'points are the stored fault score', len(pdef) == 1 and unparse(pdef[0].value) == 'alg_rec[sshv][alg_type][action][name]', pdef[0] if pdef else gar, 'points source changed')
        linit = [n for n in walk_no_nested(gar) if isinstance(n, ast.Assign) and unparse(n) == "level = 'informational'"]
        rep.check('faults', 'level defaults to informational for each name', len(linit) == 1, gar, 'level default changed')
    else:
        rep.check('faults', 'severity mapping anchored at `points >= 10`', False, gar, 'severity threshold for critical is not `points >= 10`')
    maxwarn = max(len(rows[2]) if len(rows) > 2 else 0 for cat in db2.values() for rows in cat.values())
    rep.check('faults', 'largest warning row (%d) + 3 run-time insertions stays below 10, so critical <=> has a failure' % maxwarn, maxwarn + 3 < 10, repo.cls('ssh2_kexdb', 'SSH2_KexDB'), 'a database entry has %d warnings: warning-only entries could score as critical' % maxwarn)

    # ---- rule 3: name matching agreement ------------------------------------------------------------------------------------
    wc = wildcard_categories(db2)
    for site in name_match_sites(repo):
        if site['func'] not in ('algorithms:Algorithms.get_recommendations',):
            continue
        for cat in sorted(wc):
            rep.check('name-match', '%s matches advertised names against wildcard rows of category %s like the renderer' % (site['func'], cat), site['normalises'], site['node'],
                      'advertised-test `%s` compares raw names with the wildcard keys of category %r (%s ...): a fail-rated gss-* key exchange is never recommended for removal' % (site['text'], cat, sorted(wc[cat])[0]),
                      stmt=site['text'])

    # ---- rule 6: suppression list contents --------------------------------------------------------------------------------------
    ppf = repo.func('ssh_audit', 'post_process_findings')
    writers = []
    for n in walk_no_nested(ppf):
        if isinstance(n, ast.Call) and unparse(n.func) == 'algorithm_recommendation_suppress_list.append':
            writers.append(('append', unparse(n.args[0]), n))
        elif isinstance(n, ast.AugAssign) and unparse(n.target) == 'algorithm_recommendation_suppress_list':
            writers.append(('+=', call_name(n.value) if isinstance(n.value, ast.Call) else unparse(n.value), n))
        elif isinstance(n, ast.Assign) and unparse(n.targets[0]) == 'algorithm_recommendation_suppress_list':
            writers.append(('=', unparse(n.value), n))
    # contents of the returned suppression list, by abstract interpretation of post_process_findings and its nested helpers (sa/listinterp.py,
    # props/_terrapin.py) over {ChaCha, CBC, ETM offered} x {GEX-SHA256 offered, modulus recorded none / 2048 / 3072, banner none / no software / OpenSSH /
    # other}: exactly the database names of Terrapin shape that the peer does NOT offer, plus the GEX name iff the documented OpenSSH 2048-bit fallback
    # was observed -- in particular a name the peer advertises is never suppressed (its removal recommendation must stay visible)
    from sa.abseval import Opaque
    from props import _terrapin as T
    GEXN = T.GEXN
    shaped = {n for names in T.DB_NAMES.values() for n in names if any(f(n) for f in T.SHAPE.values())}
    bad = []
    nrows = 0
    gex_cases = [(False, None, 'OpenSSH_8.9p1'), (True, 2048, 'OpenSSH_8.9p1'), (True, 3072, 'OpenSSH_8.9p1'), (True, 2048, 'dropbear_2022.83'), (True, 2048, 'none'), (True, 2048, 'nosoft'), (True, None, 'OpenSSH_8.9p1')]
    for kexp, chacha, cbc, etm in itertools.product([False, True], repeat=4):
        if not kexp and (chacha or cbc or etm):
            continue
        for gexin, size, ban in (gex_cases if kexp else [(False, None, 'OpenSSH_8.9p1'), (False, None, 'none')]):
            nrows += 1
            val = {'kexp': kexp, 'client': False, 'c': False, 's': False, 'chacha': chacha, 'cbc': cbc, 'etm': etm}
            extra = {'algs.ssh2kex.dh_modulus_sizes()': ({GEXN: size} if size is not None else {}),
                     'banner': None if ban == 'none' else Opaque(), 'banner is not None': ban != 'none', 'banner is None': ban == 'none',
                     'banner.software': None if ban in ('none', 'nosoft') else ban}
            finals, it, table = T.interpret(repo, ppf, val, extra_env=extra, kex_extra=([GEXN] if gexin else []))
            want_gex = kexp and gexin and size == 2048 and ban.startswith('OpenSSH')
            want_set = T.expected_suppressed(val) | ({GEXN} if want_gex else set())
            for fe in finals:
                rep.evals()
                r = fe.get('<return>')
                if fe.get('<outcome>') != 'return' or not isinstance(r, tuple) or not isinstance(r[0], list) or any(isinstance(x, Opaque) for x in r[0]):
                    raise AnalysisError('post_process_findings: suppression list not computable (forks: %s)' % fe.get('<forks>'))
                got_set = set(r[0])
                if got_set != want_set:
                    bad.append(({'ChaCha offered': chacha, 'CBC offered': cbc, 'ETM offered': etm, 'gex offered': gexin, 'modulus': size, 'banner': ban}, sorted(got_set - want_set), sorted(want_set - got_set)))
    rep.floor('suppress', 'suppression rows interpreted', nrows, 50)
    rep.check('suppress', 'the suppression list holds exactly the Terrapin-shaped database names the peer does not offer, plus the GEX name iff the OpenSSH 2048-bit fallback was observed (%d rows)' % nrows, not bad, ppf,
              'recommendation suppression list is wrong: with %s it %s' % ((bad[0][0], ('also suppresses %s (a name the peer advertises loses its removal recommendation)' % bad[0][1]) if bad[0][1] else ('no longer suppresses %s' % bad[0][2])) if bad else ({}, '')),
              stmt='suppression list contents', sample={'rule': 'suppress', 'rows': nrows})
    for k, v, n in writers:
        if k == 'append':
            # the same block adds the explanatory note
            blk = n._parent._parent.body
            ok = any('bugzilla.mindrot.org' in unparse(s) for s in blk)
            rep.check('suppress', 'GEX suppression is accompanied by the explanatory note', ok, n, 'name suppressed without telling the operator why')
