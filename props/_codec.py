"""Model of the primitive wire codecs by abstract interpretation (sa/listinterp.py, sa/objmodel.py).  A WriteBuf / ReadBuf object is built by interpreting the
class's constructor (io.BytesIO becomes a stream token), then one writer (write_byte / write_bool / write_int / write_string / write_list / write_mpint1 /
write_mpint2, with every helper it calls: _create_mpint, _bitlength, write, ...) is interpreted -- never executed -- on a value and the bytes that reach the
stream are collected; one reader (read_*, with _parse_mpint, read, unread_len ...) is interpreted on a stream holding given bytes.  Pure standard-library
conversions applied to values of the analysed program (struct.pack / unpack with the program's own format strings, int.bit_length / from_bytes / to_bytes,
bytes(), bytearray(), str.encode) are evaluated by the checker.

Families are the finite partitions the codecs' arithmetic induces:
  integers   bit lengths 0..136 (every residue modulo 8, 32 and 64 several times) and the sizes the probes send (1024..8192 bits); for each k the values
             2^k, 2^k - 1, 2^k + 1, 2^k + 2^(k-1), 2^k | 0x55 and their negatives (top bit set / clear, sign byte needed or not, the ff80 prefix)
  bytes      all 256 values;  uint32: 0, 1, 255, 256, 2^16, 2^24, 2^31 - 1, 2^31, 2^32 - 1, word patterns
  strings    bytes and str, empty, ASCII, with '=', '+', '/', '@', ',', multi-byte UTF-8 (1 code point = 2..4 bytes), NUL and newline
  name-lists empty name, one name, many names, names with '=', '+', '/', '@', non-ASCII names
`expected_*` state RFC 4251 section 5 and the SSH-1 mpint (16-bit bit count, ceil(bits / 8) magnitude bytes).
"""
import ast
import struct

from sa.core import AnalysisError, unparse, call_name, repo_resolver
from sa.abseval import Unknown, Opaque
from sa.listinterp import Interp
from sa import objmodel


def int_family():
    ks = list(range(0, 137)) + [255, 256, 257, 511, 512, 1023, 1024, 1535, 1536, 2047, 2048, 3071, 3072, 4095, 4096, 8191, 8192]
    out = [0]
    seen = {0}
    for k in ks:
        for v in (1 << k, (1 << k) - 1, (1 << k) + 1, (1 << k) + (1 << (k - 1)) if k else 1, (1 << k) | 0x55 if k > 8 else 1):
            for s in (v, -v):
                if s not in seen:
                    seen.add(s)
                    out.append(s)
    return out


UINT32 = [0, 1, 2, 127, 128, 255, 256, 65535, 65536, 1 << 24, (1 << 31) - 1, 1 << 31, (1 << 32) - 1, 0x01020304, 0xfffefdfc, 0x80000001, 0x00ff00ff]
STRINGS = [b'', b'a', b'ssh-rsa', b'\x00', b'\x00\x01\xff\xfe', b'line\r\nbreak', bytes(range(256)), b'x' * 300,
           '', 'a', 'curve25519-sha256@libssh.org', 'gss-gex-sha1-vz8J1E9PzLr8b1K+0remTg==', 'a,b', 'café', 'ü', '€ uro', '\U0001f511key', 'xé' * 40]
LISTS = [[''], ['a'], ['a', 'b'], ['curve25519-sha256', 'curve25519-sha256@libssh.org', 'gss-gex-sha1-vz8J1E9PzLr8b1K+0remTg==', 'a/b+c=='], ['', ''], ['none', 'zlib@openssh.com'], ['näme', 'x'], ['a'] * 40]


def expected_mpint2(n):
    if n == 0:
        body = b''
    else:
        ln = (n.bit_length() if n > 0 else (n + 1).bit_length()) // 8 + 1
        body = n.to_bytes(ln, 'big', signed=True)
    return struct.pack('>I', len(body)) + body


def expected_mpint1(n):
    bits = n.bit_length()
    return struct.pack('>H', bits) + n.to_bytes((bits + 7) // 8, 'big')


def expected_string(v):
    b = v.encode('utf-8') if isinstance(v, str) else bytes(v)
    return struct.pack('>I', len(b)) + b


def expected_list(v):
    return expected_string(','.join(v))


class _CodecError(Exception):
    pass


class Stream:
    """stand-in for io.BytesIO"""
    def __init__(self, data=b''):
        self.data = bytes(data)
        self.pos = 0
        self.out = []

    def __repr__(self):
        return '<stream>'

    def __deepcopy__(self, memo):
        return self


def _vals(call, e, interp):
    args = []
    for a in call.args:
        if isinstance(a, ast.Starred):
            args.extend(interp.value(a.value, e))
        else:
            args.append(interp.value(a, e))
    kws = {k.arg: interp.value(k.value, e) for k in call.keywords}
    return args, kws


def _hook(call, e, interp):
    t = call_name(call) or unparse(call.func)
    f = call.func
    if t in ('io.BytesIO', 'BytesIO'):
        args, kws = _vals(call, e, interp)
        return (True, Stream(args[0] if args and args[0] is not None else b''))
    if isinstance(f, ast.Attribute) and f.attr in ('write', 'read', 'tell', 'getvalue', 'seek', 'truncate', 'readline'):
        try:
            base = interp.value(f.value, e)
        except Unknown:
            base = None
        if isinstance(base, Stream):
            args, kws = _vals(call, e, interp)
            if f.attr == 'write' and len(args) == 1:
                if isinstance(args[0], str):
                    raise _CodecError('a str (%r) reaches the byte stream: BytesIO.write raises TypeError' % args[0][:20])
                if not isinstance(args[0], (bytes, bytearray)):
                    raise Unknown('stream write of a value the model does not know: %r' % (args[0],))
                base.out.append(bytes(args[0]))
                return (True, len(args[0]))
            if f.attr == 'read' and len(args) <= 1:
                k = args[0] if args else None
                if k is not None and (not isinstance(k, int) or isinstance(k, bool)):
                    raise Unknown('stream read of a size the model does not know: %r' % (k,))
                chunk = base.data[base.pos:] if k is None or k < 0 else base.data[base.pos:base.pos + k]
                base.pos += len(chunk)
                return (True, chunk)
            if f.attr == 'tell' and not args:
                return (True, base.pos)
            if f.attr == 'getvalue' and not args:
                return (True, b''.join(base.out) if base.out else base.data)
            raise Unknown('stream operation %s is not modelled' % f.attr)
    if t in ('struct.pack', 'struct.unpack', 'struct.calcsize'):
        args, kws = _vals(call, e, interp)
        if any(isinstance(a, Opaque) for a in args):
            raise Unknown('%s on a value the model does not know' % t)
        try:
            return (True, getattr(struct, t.split('.')[1])(*args))
        except struct.error as ex:
            raise _CodecError('%s with format %r raises struct.error: %s' % (t, args[0] if args else None, ex))
    if isinstance(f, ast.Attribute) and f.attr == 'bit_length' and not call.args:
        v = interp.value(f.value, e)
        if isinstance(v, int):
            return (True, v.bit_length())
    if t == 'int.from_bytes':
        args, kws = _vals(call, e, interp)
        if args and isinstance(args[0], (bytes, bytearray)):
            return (True, int.from_bytes(*args, **kws))
    if isinstance(f, ast.Attribute) and f.attr == 'to_bytes':
        v = interp.value(f.value, e)
        if isinstance(v, int) and not isinstance(v, bool):
            args, kws = _vals(call, e, interp)
            try:
                return (True, v.to_bytes(*args, **kws))
            except OverflowError as ex:
                raise _CodecError('%s raises OverflowError: %s' % (unparse(call), ex))
    if isinstance(f, ast.Attribute) and f.attr == 'encode':
        v = interp.value(f.value, e)
        if isinstance(v, str):
            args, kws = _vals(call, e, interp)
            return (True, v.encode(*args, **kws))
    if t in ('bytes', 'bytearray') and len(call.args) in (1, 2):
        args, kws = _vals(call, e, interp)
        if isinstance(args[0], (bytes, bytearray, list, str, int)) and not isinstance(args[0], bool):
            try:
                return (True, bytes(bytearray(*args)))
            except (TypeError, ValueError) as ex:
                raise _CodecError('%s raises %s: %s' % (unparse(call), type(ex).__name__, ex))
    if t == 'bin' and len(call.args) == 1:
        v = interp.value(call.args[0], e)
        if isinstance(v, int):
            return (True, bin(v))
    if t == 'divmod' and len(call.args) == 2:
        a, b = [interp.value(x, e) for x in call.args]
        if isinstance(a, int) and isinstance(b, int) and b:
            return (True, divmod(a, b))
    if t == 'super' or (isinstance(f, ast.Attribute) and isinstance(f.value, ast.Call) and unparse(f.value.func) == 'super'):
        return (True, None)
    return None


def _class_consts(cls):
    out = {}
    for st in cls.body:
        if isinstance(st, ast.Assign) and len(st.targets) == 1 and isinstance(st.targets[0], ast.Name):
            try:
                out[st.targets[0].id] = ast.literal_eval(st.value)
            except (ValueError, SyntaxError):
                pass
    return out


class Model:
    def __init__(self, repo):
        self.repo = repo
        self.base = repo_resolver(repo)
        self.cls = {'WriteBuf': repo.cls('writebuf', 'WriteBuf'), 'ReadBuf': repo.cls('readbuf', 'ReadBuf')}
        self.mod = {'WriteBuf': 'writebuf', 'ReadBuf': 'readbuf'}
        self.consts = {k: _class_consts(v) for k, v in self.cls.items()}

    def _run(self, clsname, method, ctor_args, args):
        repo = self.repo
        modname = self.mod[clsname]
        cls = self.cls[clsname]
        consts = self.consts[clsname]
        holder = {}

        def resolver(call):
            f = call.func
            if isinstance(f, ast.Attribute) and isinstance(f.value, ast.Name) and f.value.id in ('self', 'cls', clsname) and repo.has_func(modname, clsname + '.' + f.attr):
                return repo.func(modname, clsname + '.' + f.attr)
            return self.base(call)

        def attr_hook(base, attr, interp):
            if isinstance(base, objmodel.Obj) and base.cls is cls and attr in consts and attr not in base.fields:
                return (True, consts[attr])
            return holder['attr'](base, attr, interp)

        def hook(call, e, interp):
            f = call.func
            # chained calls on the object a method returned:  self.write(a).write(b)
            if isinstance(f, ast.Attribute) and isinstance(f.value, ast.Call) and repo.has_func(modname, clsname + '.' + f.attr):
                try:
                    base = interp.value(f.value, e)
                except Unknown:
                    base = None
                if isinstance(base, objmodel.Obj) and base.cls is cls:
                    e2 = dict(e)
                    e2['<chained receiver>'] = base
                    call2 = ast.copy_location(ast.Call(func=ast.Attribute(value=ast.Name(id='self', ctx=ast.Load()), attr=f.attr, ctx=ast.Load()), args=call.args, keywords=call.keywords), call)
                    ast.fix_missing_locations(call2)
                    return (True, interp._inline(call2, repo.func(modname, clsname + '.' + f.attr), e))
            return _hook(call, e, interp)

        def factory():
            return Interp(call_hook=hook, resolver=resolver, attr_hook=attr_hook, budget=400000, try_normal_path=True)
        holder['construct'], holder['attr'] = objmodel.make(factory, {clsname: Opaque()})
        try:
            obj = holder['construct'](cls, ctor_args)
        except Unknown as ex:
            raise AnalysisError('%s() cannot be interpreted: %s' % (clsname, ex))
        streams = [v for v in obj.fields.values() if isinstance(v, Stream)]
        if len(streams) != 1:
            raise AnalysisError('%s() does not hold exactly one byte stream (fields %s)' % (clsname, sorted(obj.fields)))
        fn = repo.func(modname, clsname + '.' + method)
        params = [a.arg for a in fn.args.args]
        if len(params) != 1 + len(args):
            raise AnalysisError('%s.%s takes %s' % (clsname, method, params))
        env = {params[0]: obj, 'cls': obj, clsname: obj}
        env.update({'%s.%s' % (params[0], k): v for k, v in obj.fields.items()})
        env.update(dict(zip(params[1:], args)))
        try:
            finals = factory().run(fn.body, env)
        except _CodecError as ex:
            return streams[0], ('error', str(ex))
        except Unknown as ex:
            raise AnalysisError('%s.%s cannot be interpreted on %s: %s' % (clsname, method, ', '.join(short(a) for a in args) or 'the stream', ex))
        if len(finals) != 1 or finals[0].get('<forks>'):
            raise AnalysisError('%s.%s does not evaluate on a single path for %s (forks %s)' % (clsname, method, ', '.join(short(a) for a in args), [f.get('<forks>') for f in finals][:2]))
        if finals[0].get('<crash>'):
            return streams[0], ('error', 'crash: %s' % finals[0]['<crash>'])
        if finals[0].get('<outcome>') == 'raise':
            return streams[0], ('error', 'raises %s' % (finals[0].get('<raise>') or 'an exception'))
        return streams[0], ('value', finals[0].get('<return>'))

    def write(self, method, value):
        """bytes WriteBuf().<method>(value) puts on the stream, or ('error', text)"""
        st, (kind, r) = self._run('WriteBuf', method, {}, [value])
        if kind == 'error':
            return ('error', r)
        if not (isinstance(r, objmodel.Obj) and r.cls is self.cls['WriteBuf']):
            raise AnalysisError('WriteBuf.%s cannot be interpreted on %s: a step of the writer is not computable (it does not return the buffer: %r)' % (method, short(value), r))
        return b''.join(st.out)

    def read(self, method, data):
        """-> (value ReadBuf(data).<method>() returns, number of bytes consumed) or ('error', text)"""
        st, (kind, r) = self._run('ReadBuf', method, {'data': data}, [])
        if kind == 'error':
            return ('error', r)
        if isinstance(r, Opaque) or r is None:
            raise AnalysisError('ReadBuf.%s: returned value is not computable (%r)' % (method, r))
        return (r, st.pos)


def short(n):
    if isinstance(n, int) and not isinstance(n, bool) and abs(n) >= 1 << 70:
        k = abs(n).bit_length() - 1
        rest = abs(n) - (1 << k)
        return '%s(2^%d + %s)' % ('-' if n < 0 else '', k, hex(rest) if rest < 1 << 64 else '2^%d...' % (rest.bit_length() - 1))
    if isinstance(n, int) and not isinstance(n, bool):
        return hex(n)
    r = repr(n)
    return r if len(r) <= 60 else r[:57] + '...'


class _Tok:
    def __init__(self, name):
        self.name = name

    def __repr__(self):
        return self.name

    def __deepcopy__(self, memo):
        return self


def _method_run(repo, modname, clsname, method, args, observe):
    """interpret <clsname>.<method>(*args) on an opaque receiver; `observe` maps method names of the receiver that are interface points to a function
    (argument values -> returned value); other methods of the class are interpreted in place"""
    cls = repo.cls(modname, clsname)
    consts = _class_consts(cls)
    me = _Tok('<%s object>' % clsname)
    base = getattr(repo, '_codec_resolver', None)
    if base is None:
        base = repo._codec_resolver = repo_resolver(repo)

    def resolver(call):
        f = call.func
        if isinstance(f, ast.Attribute) and isinstance(f.value, ast.Name) and f.value.id in ('self', 'cls', clsname):
            if f.attr in observe:
                return None
            if repo.has_func(modname, clsname + '.' + f.attr):
                return repo.func(modname, clsname + '.' + f.attr)
        return base(call)

    def attr_hook(b, attr, interp):
        if b is me and attr in consts:
            return (True, consts[attr])
        return None

    def hook(call, e, interp):
        f = call.func
        if isinstance(f, ast.Attribute) and f.attr in observe and isinstance(f.value, ast.Name) and f.value.id in ('self', 'cls'):
            a, kw = _vals(call, e, interp)
            return (True, observe[f.attr](*a, **kw))
        return _hook(call, e, interp)
    fn = repo.func(modname, clsname + '.' + method)
    params = [a.arg for a in fn.args.args]
    env = {params[0]: me, 'cls': me, clsname: me}
    env.update(dict(zip(params[1:], args)))
    try:
        finals = Interp(call_hook=hook, resolver=resolver, attr_hook=attr_hook, budget=200000, try_normal_path=True).run(fn.body, env)
    except _CodecError as ex:
        return ('error', str(ex))
    except Unknown as ex:
        raise AnalysisError('%s.%s cannot be interpreted: %s' % (clsname, method, ex))
    if len(finals) != 1 or finals[0].get('<forks>'):
        raise AnalysisError('%s.%s does not evaluate on a single path (forks %s)' % (clsname, method, [f.get('<forks>') for f in finals][:2]))
    if finals[0].get('<crash>'):
        return ('error', 'crash: %s' % finals[0]['<crash>'])
    return ('value', finals[0].get('<return>'))


def send_packet(repo, payload):
    """bytes SSH_Socket.send_packet() hands to send() when the write buffer holds `payload`, or ('error', text)"""
    sent = []

    def send(data):
        if not isinstance(data, (bytes, bytearray)):
            raise Unknown('send() of a value the model does not know: %r' % (data,))
        sent.append(bytes(data))
        return (len(data), None)
    kind, r = _method_run(repo, 'ssh_socket', 'SSH_Socket', 'send_packet', [], {'write_flush': lambda: payload, 'send': send})
    if kind == 'error':
        return ('error', r)
    if len(sent) != 1:
        raise AnalysisError('SSH_Socket.send_packet: %d send() calls on the path the model follows' % len(sent))
    return sent[0]


def get_padding(repo, payload):
    """value DHEat.get_padding(payload) returns, or ('error', text)"""
    kind, r = _method_run(repo, 'dheat', 'DHEat', 'get_padding', [payload], {})
    return ('error', r) if kind == 'error' else r


def recv_model(repo, buffered, pos, incoming):
    """SSH_Socket.recv() interpreted on a receive buffer holding `buffered` with the read position at `pos`, while the socket delivers `incoming`.
    -> (unread bytes afterwards, returned value) or ('error', text).  The receive buffer is the stream token the ReadBuf fields point to; a rebound buffer
    (reset) is followed: what counts is what a reader would get next."""
    rc = repo.func('ssh_socket', 'SSH_Socket.recv')
    me = _Tok('<socket object>')
    sock = _Tok('<socket>')
    state = {'stream': Stream(buffered)}
    state['stream'].pos = pos
    state['stream'].bytearray = bytearray(buffered)
    base = getattr(repo, '_codec_resolver', None)
    if base is None:
        base = repo._codec_resolver = repo_resolver(repo)

    def resolver(call):
        f = call.func
        if isinstance(f, ast.Attribute) and isinstance(f.value, ast.Name) and f.value.id in ('self', 'cls', 'ReadBuf', 'SSH_Socket') and f.attr != 'recv':
            for mod, cls in (('ssh_socket', 'SSH_Socket'), ('readbuf', 'ReadBuf')):
                if repo.has_func(mod, cls + '.' + f.attr):
                    return repo.func(mod, cls + '.' + f.attr)
        return base(call)

    def attr_hook(b, attr, interp):
        return None

    def hook(call, e, interp):
        t = call_name(call) or unparse(call.func)
        f = call.func
        if t in ('io.BytesIO', 'BytesIO'):
            a, kw = _vals(call, e, interp)
            st = Stream(a[0] if a and a[0] is not None else b'')
            st.bytearray = bytearray(st.data)
            return (True, st)
        if isinstance(f, ast.Attribute) and f.attr == 'recv' and not (isinstance(f.value, ast.Name) and f.value.id == 'self'):
            return (True, incoming)
        if isinstance(f, ast.Attribute) and f.attr in ('tell', 'seek', 'write', 'getvalue', 'read', 'truncate'):
            try:
                b = interp.value(f.value, e)
            except Unknown:
                b = None
            if isinstance(b, Stream):
                a, kw = _vals(call, e, interp)
                buf = b.bytearray
                if f.attr == 'tell':
                    return (True, b.pos)
                if f.attr == 'seek' and 1 <= len(a) <= 2 and all(isinstance(x, int) for x in a):
                    whence = a[1] if len(a) == 2 else 0
                    b.pos = a[0] if whence == 0 else (b.pos + a[0] if whence == 1 else len(buf) + a[0])
                    return (True, b.pos)
                if f.attr == 'write' and len(a) == 1 and isinstance(a[0], (bytes, bytearray)):
                    buf[b.pos:b.pos + len(a[0])] = a[0]
                    b.pos += len(a[0])
                    return (True, len(a[0]))
                if f.attr == 'getvalue':
                    return (True, bytes(buf))
                if f.attr == 'read' and len(a) <= 1:
                    k = a[0] if a else None
                    chunk = bytes(buf[b.pos:] if k is None or k < 0 else buf[b.pos:b.pos + k])
                    b.pos += len(chunk)
                    return (True, chunk)
                raise Unknown('stream operation %s%r is not modelled' % (f.attr, tuple(a)))
        return None
    env = {'self': me, 'size': 2048, 'self.__sock': sock, 'self._buf': state['stream'], 'self._len': len(buffered),
           'os.SEEK_SET': 0, 'os.SEEK_CUR': 1, 'os.SEEK_END': 2, 'io.SEEK_SET': 0, 'io.SEEK_CUR': 1, 'io.SEEK_END': 2}
    for k, v in _class_consts(repo.cls('ssh_socket', 'SSH_Socket')).items():
        env['self.' + k] = v
    try:
        finals = Interp(call_hook=hook, resolver=resolver, budget=50000, try_normal_path=True).run(rc.body, env)
    except Unknown as ex:
        raise AnalysisError('SSH_Socket.recv cannot be interpreted: %s' % ex)
    if len(finals) != 1 or finals[0].get('<forks>'):
        raise AnalysisError('SSH_Socket.recv does not evaluate on a single path (forks %s)' % [f_.get('<forks>') for f_ in finals][:2])
    fe = finals[0]
    if fe.get('<crash>'):
        return ('error', fe['<crash>'])
    st = fe.get('self._buf')
    if not isinstance(st, Stream):
        raise AnalysisError('SSH_Socket.recv: the receive buffer afterwards is not computable (%r)' % (st,))
    ln = fe.get('self._len')
    unread = bytes(st.bytearray[st.pos:])
    if isinstance(ln, int) and ln - st.pos != len(unread):
        return (unread, fe.get('<return>'), 'unread_len would be %d, the buffer holds %d unread byte(s)' % (ln - st.pos, len(unread)))
    return (unread, fe.get('<return>'), None)
