"""C17 -- the tool's knowledge tables agree with each other (exhaustive over the literal tables)."""
import ast
import re

from sa.core import AnalysisError, unparse, walk_no_nested, param_default
from sa.consteval import ConstEnv, NotLiteral, dict_literal_dups

EXPL = ('Exhaustive enumeration of the literal tables in the current source (rating databases, built-in policies, '
        'probe/attack tables, default KEXINIT lists, algorithm literals used by the post-processing and recommendation '
        'code), read with a constant evaluator from the AST: shape of every entry, every cross-reference into the rating '
        'database, "no built-in policy admits a fail-rated algorithm or a sub-3072 RSA/GEX size", and "every name containing a '
        'primitive branded broken carries a failure".  Decides the whole property because its quantifier is the tables as '
        'they stand in the tree; the run-time "standard audit shows no failure" clause is decided through its table form '
        '(policy names have empty failure rows and sizes at or above the no-note thresholds).')

VERSION_RX = re.compile(r'^(d|l1)?\d[\d.]*C?$')

# token rules for rule 4: (label, predicate over (category, name))
def _tok(rx):
    r = re.compile(rx)
    return lambda cat, n: r.search(n) is not None


BROKEN = [
    ('md5', _tok(r'md5')),
    ('sha1', _tok(r'(?i)sha1(?![0-9])|sha-1')),
    ('rc4/arcfour', _tok(r'arcfour|rc4')),
    ('3des/des', _tok(r'(^|[-_])3?des([-_@]|$)|^des$|des-cbc|3des')),
    ('none/null', lambda cat, n: n in ('none', 'null')),
    ('dss/dsa', _tok(r'(^|[-@.])(ssh-)?(dss|dsa)([-@.]|$)|^x509v3-sign-dss|^pgp-sign-dss|^spki-sign-dss|^ssh-dss')),
    ('group1/1024-bit', _tok(r'group1-|rsa1024|DH1')),
    ('nist curves', _tok(r'nist[pkbt]\d')),
    ('blowfish', _tok(r'blowfish')),
    ('cast128', _tok(r'cast128')),
    ('idea', _tok(r'(^|[-_])idea([-_@]|$)')),
    ('rijndael', _tok(r'rijndael')),
    ('seed', _tok(r'^seed-')),
    ('serpent', _tok(r'serpent')),
    ('ripemd', _tok(r'ripemd')),
    ('gost/grasshopper', _tok(r'gost|grasshopper')),
    ('sm2', _tok(r'(^|[-_])sm2([-_@]|$)')),
]

# per-name exceptions to rule 4 (name -> reason); none needed on the pinned tree
BROKEN_EXCEPTIONS = {}


def _db_shape(rep, label, db, cats, modnode):
    rep.check('shape', '%s categories' % label, set(db.keys()) == set(cats), modnode, '%s categories are %s, expected %s' % (label, sorted(db), sorted(cats)))
    n = 0
    for cat, entries in db.items():
        for name, rows in entries.items():
            n += 1
            ok = isinstance(rows, list) and 1 <= len(rows) <= 4 and all(isinstance(r, list) for r in rows)
            msg = None
            if not ok:
                msg = 'entry must be a list of 1-4 lists'
            else:
                v = rows[0]
                if len(v) > 3:
                    ok, msg = False, 'versions row has more than 3 entries'
                for e in v:
                    if e is None or e == '':
                        continue
                    if not isinstance(e, str) or not all(VERSION_RX.match(x) for x in e.split(',')):
                        ok, msg = False, 'malformed version entry %r' % (e,)
                for r in rows[1:]:
                    for t in r:
                        if not isinstance(t, str) or t == '':
                            ok, msg = False, 'note rows must hold non-empty strings (got %r)' % (t,)
                if not isinstance(name, str) or name == '' or name != name.strip():
                    ok, msg = False, 'bad key %r' % (name,)
            rep.check('shape', '%s[%s][%s]' % (label, cat, name), ok, modnode, '%s entry %s/%s: %s' % (label, cat, name, msg), stmt='%s[%r][%r]' % (label, cat, name), func=label)
    return n


def run(repo, rep, tier):
    rep.explanation = EXPL
    rep.exhaustive = True
    ce = ConstEnv(repo)
    m2 = repo.mod('ssh2_kexdb')
    m1 = repo.mod('ssh1_kexdb')
    try:
        db2 = ce.lookup('ssh2_kexdb', 'SSH2_KexDB.MASTER_DB')
        db1 = ce.lookup('ssh1_kexdb', 'SSH1_KexDB.MASTER_DB')
        pol = ce.lookup('builtin_policies', 'BUILTIN_POLICIES')
    except NotLiteral as e:
        raise AnalysisError('a knowledge table is no longer a literal: %s' % e)
    c2 = repo.cls('ssh2_kexdb', 'SSH2_KexDB')
    c1 = repo.cls('ssh1_kexdb', 'SSH1_KexDB')
    rep.saw(c2), rep.saw(c1)

    # ---- rule 1: shape + duplicate keys --------------------------------------------------------
    n2 = _db_shape(rep, 'SSH2_KexDB.MASTER_DB', db2, ['kex', 'key', 'enc', 'mac'], c2)
    n1 = _db_shape(rep, 'SSH1_KexDB.MASTER_DB', db1, ['key', 'enc', 'aut'], c1)
    rep.floor('shape', 'SSH-2 database entries', n2, 300)
    rep.floor('shape', 'SSH-1 database entries', n1, 10)
    for mod in (m2, m1, repo.mod('builtin_policies'), repo.mod('hostkeytest'), repo.mod('dheat'), repo.mod('gextest')):
        dups = dict_literal_dups(mod.tree)
        rep.check('dupkeys', 'no duplicate keys in dict literals of %s' % mod.relpath, not dups, dups[0] if dups else mod.tree.body[0],
                  'duplicate dict key %r (later entry silently replaces the earlier one)' % (dups[0].value if dups else None,))

    # ---- rule 2: cross references ---------------------------------------------------------------
    def ref(kind, cat, names, node, where):
        for nm in names:
            rep.check('xref', '%s: %s in db[%s]' % (where, nm, cat), nm in db2[cat], node,
                      '%s names %r which is not a key of the %s rating table' % (where, nm, cat), stmt='%s -> %s/%s' % (where, cat, nm), func=where.split(' ')[0])
            rep.evals()

    polnode = repo.mod('builtin_policies').tree.body[-1]
    for pname, p in pol.items():
        w = 'BUILTIN_POLICIES[%s]' % pname
        ref('policy', 'key', p.get('host_keys') or [], polnode, w + ' host_keys')
        ref('policy', 'key', p.get('optional_host_keys') or [], polnode, w + ' optional_host_keys')
        ref('policy', 'kex', p.get('kex') or [], polnode, w + ' kex')
        ref('policy', 'enc', p.get('ciphers') or [], polnode, w + ' ciphers')
        ref('policy', 'mac', p.get('macs') or [], polnode, w + ' macs')
        hs = p.get('hostkey_sizes') or {}
        ref('policy', 'key', list(hs.keys()), polnode, w + ' hostkey_sizes')
        ref('policy', 'key', [v['ca_key_type'] for v in hs.values() if isinstance(v, dict) and v.get('ca_key_type')], polnode, w + ' ca_key_type')
        ref('policy', 'kex', list((p.get('dh_modulus_sizes') or {}).keys()), polnode, w + ' dh_modulus_sizes')

    hk = repo.cls('hostkeytest', 'HostKeyTest')
    rep.saw(hk)
    hkt = ce.lookup('hostkeytest', 'HostKeyTest.HOST_KEY_TYPES')
    rsaf = ce.lookup('hostkeytest', 'HostKeyTest.RSA_FAMILY')
    ref('probe', 'key', list(hkt.keys()), hk, 'HostKeyTest.HOST_KEY_TYPES')
    ref('probe', 'key', rsaf, hk, 'HostKeyTest.RSA_FAMILY')
    for nm, v in hkt.items():
        rep.check('shape', 'HOST_KEY_TYPES[%s] fields' % nm, isinstance(v, dict) and set(v) == {'cert', 'variable_key_len'} and all(isinstance(x, bool) for x in v.values()), hk,
                  'HOST_KEY_TYPES[%s] must have boolean cert/variable_key_len' % nm, stmt='HOST_KEY_TYPES[%r]' % nm, func='hostkeytest:HostKeyTest')
        rep.check('shape', 'HOST_KEY_TYPES[%s] cert flag matches name' % nm, v.get('cert') == ('-cert-' in nm), hk,
                  'HOST_KEY_TYPES[%s] cert flag disagrees with the name' % nm, stmt='HOST_KEY_TYPES[%r].cert' % nm, func='hostkeytest:HostKeyTest')
    rep.check('xref', 'RSA_FAMILY subset of HOST_KEY_TYPES', set(rsaf) <= set(hkt), hk, 'RSA_FAMILY member missing from HOST_KEY_TYPES')

    # local dict-of-classes tables
    def local_dict_keys(modname, qual, var):
        f = repo.func(modname, qual)
        rep.saw(f)
        for n in walk_no_nested(f):
            if isinstance(n, ast.Assign) and any(isinstance(t, ast.Name) and t.id == var for t in n.targets) and isinstance(n.value, ast.Dict):
                keys = []
                for k in n.value.keys:
                    if not isinstance(k, ast.Constant):
                        raise AnalysisError('%s in %s has a non-literal key' % (var, qual))
                    keys.append(k.value)
                return keys, n
        raise AnalysisError('anchor vanished: dict %s in %s.%s' % (var, modname, qual))
    keys, node = local_dict_keys('hostkeytest', 'HostKeyTest.run', 'KEX_TO_DHGROUP')
    ref('probe', 'kex', keys, node, 'HostKeyTest.run KEX_TO_DHGROUP')
    for q in ('GEXTest.run', 'GEXTest.granular_modulus_size_test'):
        keys, node = local_dict_keys('gextest', q, 'GEX_ALGS')
        ref('probe', 'kex', keys, node, '%s GEX_ALGS' % q)

    dh = repo.cls('dheat', 'DHEat')
    rep.saw(dh)
    for nm in ('gex_algs', 'alg_priority', 'tested_algs', 'HARDCODED_ALGS', 'COMPLEX_PQ_ALGS'):
        ref('dheat', 'kex', ce.lookup('dheat', 'DHEat.' + nm), dh, 'DHEat.' + nm)
    ams = ce.lookup('dheat', 'DHEat.alg_modulus_sizes')
    ref('dheat', 'kex', list(ams.keys()), dh, 'DHEat.alg_modulus_sizes')
    rep.check('xref', 'alg_priority and alg_modulus_sizes list the same algorithms', set(ams) == set(ce.lookup('dheat', 'DHEat.alg_priority')), dh,
              'DHEat.alg_priority and DHEat.alg_modulus_sizes disagree: %s' % sorted(set(ams) ^ set(ce.lookup('dheat', 'DHEat.alg_priority'))))
    rep.check('shape', 'alg_modulus_sizes values positive ints', all(isinstance(v, int) and v > 0 for v in ams.values()), dh, 'non-positive modulus size')

    sk = repo.func('ssh_socket', 'SSH_Socket.send_kexinit')
    rep.saw(sk)
    for par, cat in (('key_exchanges', 'kex'), ('hostkeys', 'key'), ('ciphers', 'enc'), ('macs', 'mac')):
        d = param_default(sk, par)
        if d is None:
            raise AnalysisError('anchor vanished: default of send_kexinit(%s)' % par)
        ref('kexinit', cat, ce.eval_in(d, 'ssh_socket'), sk, 'SSH_Socket.send_kexinit default %s' % par)

    # algorithm literals used by post-processing / recommendations / policy loader
    def literal_names(func, pred):
        out = []
        for n in ast.walk(func):
            if isinstance(n, ast.Constant) and isinstance(n.value, str) and pred(n.value):
                out.append(n)
        return out
    ppf = repo.func('ssh_audit', 'post_process_findings')
    rep.saw(ppf)
    lits = literal_names(ppf, lambda s: re.match(r'^(diffie-hellman-|kex-strict-)[a-z0-9@.\-]+$', s) is not None)
    rep.floor('xref', 'kex literals in post_process_findings', len(lits), 3)
    for n in lits:
        ref('literal', 'kex', [n.value], n, 'post_process_findings literal')
    gr = repo.func('algorithms', 'Algorithms.get_recommendations')
    rep.saw(gr)
    chg = None
    for n in walk_no_nested(gr):
        # the "change, don't delete" names: a membership test of a name against a literal list / tuple of names (wherever the literal lives: phase B gives a
        # table moved to class level back to the function)
        if isinstance(n, ast.Compare) and len(n.ops) == 1 and isinstance(n.ops[0], (ast.In, ast.NotIn)) and isinstance(n.comparators[0], (ast.List, ast.Tuple)) and isinstance(n.left, ast.Name) \
                and n.comparators[0].elts and all(isinstance(e, ast.Constant) and isinstance(e.value, str) and '-' in e.value for e in n.comparators[0].elts):
            chg = n
    if chg is None:
        raise AnalysisError('anchor vanished: chg-set membership test in get_recommendations')
    allnames = set().union(*[set(v) for v in db2.values()])
    for e in chg.comparators[0].elts:
        v = ce.eval_in(e, 'algorithms')
        rep.check('xref', 'chg-set name %s known' % v, v in allnames, chg, 'get_recommendations chg-set names %r which no rating table knows' % v, stmt='chg-set -> %s' % v)
    pin = repo.func('policy', 'Policy.__init__')
    rep.saw(pin)
    for n in literal_names(pin, lambda s: s.endswith('-cert-v01@openssh.com') or s in ('ssh-ed25519', 'ssh-rsa')):
        ref('literal', 'key', [n.value], n, 'Policy.__init__ literal')
    for q in ('Policy.evaluate',):
        f = repo.func('policy', q)
        for n in literal_names(f, lambda s: s.startswith('kex-strict-')):
            ref('literal', 'kex', [n.value], n, 'Policy.evaluate literal')
    # SSH-1 name tables against the SSH-1 database
    ciph = ce.lookup('ssh1', 'SSH1.CIPHERS')
    auths = ce.lookup('ssh1', 'SSH1.AUTHS')
    s1 = repo.cls('ssh1', 'SSH1')
    for nm in ciph:
        rep.check('xref', 'SSH1.CIPHERS %s in SSH1 db enc' % nm, nm in db1['enc'], s1, 'SSH1.CIPHERS names %r unknown to SSH1_KexDB enc' % nm, stmt='SSH1.CIPHERS -> %s' % nm)
    for nm in auths[1:]:
        rep.check('xref', 'SSH1.AUTHS %s in SSH1 db aut' % nm, nm in db1['aut'], s1, 'SSH1.AUTHS names %r unknown to SSH1_KexDB aut' % nm, stmt='SSH1.AUTHS -> %s' % nm)

    # ---- rule 3: hardening policies never admit a failure ----------------------------------------
    def has_fail(cat, nm):
        rows = db2[cat].get(nm)
        return rows is not None and len(rows) > 1 and len(rows[1]) > 0
    for pname, p in pol.items():
        w = 'BUILTIN_POLICIES[%s]' % pname
        for fld, cat in (('host_keys', 'key'), ('optional_host_keys', 'key'), ('kex', 'kex'), ('ciphers', 'enc'), ('macs', 'mac')):
            for nm in p.get(fld) or []:
                rep.check('policy-no-fail', '%s %s/%s has no failure row' % (w, fld, nm), not has_fail(cat, nm), polnode,
                          'built-in policy %r lists %s %r which the database rates as a failure (%s)' % (pname, fld, nm, (db2[cat][nm][1:2] if nm in db2[cat] else '?')),
                          stmt='%s %s -> %s' % (w, fld, nm), func='builtin_policies:BUILTIN_POLICIES')
                rep.evals()
        for nm, v in (p.get('hostkey_sizes') or {}).items():
            if nm.startswith('rsa-') or nm.startswith('ssh-rsa'):
                rep.check('policy-no-fail', '%s hostkey_sizes[%s] >= 3072' % (w, nm), isinstance(v.get('hostkey_size'), int) and v['hostkey_size'] >= 3072, polnode,
                          'built-in policy %r fixes RSA host key %r at %r bits (< 3072 draws a size note)' % (pname, nm, v.get('hostkey_size')), stmt='%s hostkey_sizes %s' % (w, nm), func='builtin_policies:BUILTIN_POLICIES')
            if v.get('ca_key_type') in rsaf:
                rep.check('policy-no-fail', '%s CA size for %s >= 3072' % (w, nm), isinstance(v.get('ca_key_size'), int) and v['ca_key_size'] >= 3072, polnode,
                          'built-in policy %r fixes RSA CA key for %r at %r bits' % (pname, nm, v.get('ca_key_size')), stmt='%s ca size %s' % (w, nm), func='builtin_policies:BUILTIN_POLICIES')
        for nm, v in (p.get('dh_modulus_sizes') or {}).items():
            rep.check('policy-no-fail', '%s dh_modulus_sizes[%s] >= 3072' % (w, nm), isinstance(v, int) and v >= 3072, polnode,
                      'built-in policy %r fixes GEX modulus for %r at %r bits (< 3072 draws a size note)' % (pname, nm, v), stmt='%s dh %s' % (w, nm), func='builtin_policies:BUILTIN_POLICIES')

    # ---- rule 4: broken primitives failed under every spelling -----------------------------------
    hits = 0
    for cat, entries in db2.items():
        for nm, rows in entries.items():
            for label, pred in BROKEN:
                if pred(cat, nm):
                    hits += 1
                    if nm in BROKEN_EXCEPTIONS:
                        rep.note('rule 4 exception %s: %s' % (nm, BROKEN_EXCEPTIONS[nm]))
                        continue
                    ok = len(rows) > 1 and len(rows[1]) > 0
                    rep.check('broken-failed', '%s/%s contains broken primitive %s and carries a failure' % (cat, nm, label), ok, c2,
                              'database entry %s/%s contains the broken primitive "%s" but has no failure note' % (cat, nm, label), stmt='MASTER_DB[%r][%r] ~ %s' % (cat, nm, label), func='ssh2_kexdb:SSH2_KexDB')
                    rep.evals()
    rep.floor('broken-failed', 'token hits', hits, 120)
    obs = []
    for cat, entries in db1.items():
        for nm, rows in entries.items():
            for label, pred in BROKEN:
                if pred(cat, nm) and not (len(rows) > 1 and len(rows[1]) > 0):
                    obs.append('%s/%s (%s)' % (cat, nm, label))
    if obs:
        rep.note('observation (SSH-1 table, out of rule 4 scope per DESIGN): no failure row for ' + ', '.join(obs))

    # ---- rule 4b: built-in policies against the host-key probe's own thresholds -----------------------------------------------
    # "a peer configured exactly per a built-in policy shows no failure in a standard audit": the sizes a policy prescribes for each
    # host-key type (and its CA) are run through the size-rating block of HostKeyTest.perform_test (abstract evaluation of that block,
    # shared with C11); no entry may draw a failure note, and no entry of the probe table may be rated with thresholds of another family.
    from props import _hostkey_rating
    hk_consts = _hostkey_rating.class_consts(repo, ce, 'hostkeytest', 'HostKeyTest')
    _pt, _blk = _hostkey_rating.rating_block(repo)
    rep.saw(_pt)
    probe_table = hk_consts.get('HostKeyTest.HOST_KEY_TYPES') or {}
    nrated = 0
    for pname, p in sorted(pol.items()):
        w = 'policy %s:' % pname
        for nm, v in sorted((p.get('hostkey_sizes') or {}).items()):
            if not isinstance(v, dict) or nm not in probe_table:
                continue
            cert = bool(probe_table[nm].get('cert'))
            fails, warns = _hostkey_rating.rate_key(_blk, hk_consts, nm, cert, v.get('hostkey_size', 0), v.get('ca_key_type', '') or '', v.get('ca_key_size', 0) or 0, on_eval=rep.evals, repo=repo)
            nrated += 1
            rep.check('policy-no-fail', '%s %s at the prescribed sizes draws no failure from the host-key probe' % (w, nm), not fails, polnode,
                      'a server configured exactly per built-in policy %r is failed by the host-key probe: %s (%s bits%s) -> %s' % (pname, nm, v.get('hostkey_size'), (', %s CA %s bits' % (v.get('ca_key_type'), v.get('ca_key_size'))) if v.get('ca_key_type') else '', fails[:1]),
                      stmt='%s probe rating %s' % (w, nm), func='builtin_policies:BUILTIN_POLICIES')
    rep.floor('policy-no-fail', 'policy size entries rated through the probe thresholds', nrated, 50)

    # ... nor from the Terrapin post-processing of the report: post_process_findings is interpreted (props/_terrapin.py) for the situation each built-in
    # policy describes (role, own strict-KEX marker listed or not, ChaCha20 / CBC ciphers / EtM MACs listed or not): whatever it adds to the per-scan table
    # is a warning or a note, never a failure (row 1) -- a peer configured exactly as the policy lists shows no failure
    from props import _terrapin as _T17
    ppf17 = repo.func('ssh_audit', 'post_process_findings')
    rep.saw(ppf17)
    seen_sit = {}
    for pname, p in sorted(pol.items()):
        client_ = not p.get('server_policy', True)
        kexl, encl, macl = p.get('kex') or [], p.get('ciphers') or [], p.get('macs') or []
        sit = (client_, _T17.C_LIT in kexl, _T17.S_LIT in kexl, any(x.startswith('chacha20-poly1305') for x in encl),
               any(x.endswith(('-cbc', '-cbc@openssh.org', '-cbc@ssh.com')) or x == 'rijndael-cbc@lysator.liu.se' for x in encl), any(x.endswith('-etm@openssh.com') for x in macl))
        seen_sit.setdefault(sit, []).append(pname)
    for sit, pnames in sorted(seen_sit.items()):
        val_ = {'kexp': True, 'client': sit[0], 'c': sit[1], 's': sit[2], 'chacha': sit[3], 'cbc': sit[4], 'etm': sit[5]}
        finals_, _it, _n = _T17.interpret(repo, ppf17, val_)
        rep.evals()
        failed_ = sorted({(cat_, n_) for fe_ in finals_ for cat_, names_ in fe_['<table>'].items() for n_, rows_ in names_.items() if len(rows_) > 1 and rows_[1]})
        rep.check('policy-no-fail', 'the Terrapin post-processing adds no failure for a peer configured per %d built-in polic%s (%s, %s%s%s)' % (
                      len(pnames), 'y' if len(pnames) == 1 else 'ies', 'client' if sit[0] else 'server', 'own marker listed' if (sit[1] if sit[0] else sit[2]) else 'no marker', ', ChaCha20' if sit[3] else '', ', CBC+EtM' if sit[4] and sit[5] else ''),
                  not failed_, polnode,
                  'a peer configured exactly per built-in policy %r (and %d more) is failed by the Terrapin post-processing: %s get a failure-level note' % (pnames[0], len(pnames) - 1, failed_[:3]),
                  stmt='terrapin post-processing adds no failure: %s' % (sit,), func='builtin_policies:BUILTIN_POLICIES')
    rep.floor('policy-no-fail', 'policy situations interpreted through the Terrapin post-processing', len(seen_sit), 3)
    # ---- rule 5: policy table shape -----------------------------------------------------------------
    REQ = {'version', 'changelog', 'banner', 'compressions', 'host_keys', 'optional_host_keys', 'kex', 'ciphers', 'macs', 'hostkey_sizes', 'dh_modulus_sizes', 'server_policy'}
    rep.floor('policy-shape', 'built-in policies', len(pol), 40)
    for pname, p in pol.items():
        w = 'BUILTIN_POLICIES[%s]' % pname
        ok = isinstance(p, dict) and REQ <= set(p)
        rep.check('policy-shape', w + ' has required fields', ok, polnode, 'policy %r lacks fields %s' % (pname, sorted(REQ - set(p)) if isinstance(p, dict) else '?'), stmt=w + ' fields', func='builtin_policies:BUILTIN_POLICIES')
        if not ok:
            continue
        v = p['version']
        rep.check('policy-shape', w + ' version decimal and matches name', isinstance(v, str) and v.isdigit() and pname.endswith(' (version %s)' % v), polnode,
                  'policy %r: version field %r does not match the name suffix' % (pname, v), stmt=w + ' version', func='builtin_policies:BUILTIN_POLICIES')
        rep.check('policy-shape', w + ' server_policy boolean', isinstance(p['server_policy'], bool), polnode, 'policy %r: server_policy not a bool' % pname, stmt=w + ' server_policy', func='builtin_policies:BUILTIN_POLICIES')
        hk_, opt = p['host_keys'] or [], p['optional_host_keys'] or []
        rep.check('policy-shape', w + ' required and optional host keys disjoint', not (set(hk_) & set(opt)), polnode,
                  'policy %r lists %s both as required and optional host key (exact match unsatisfiable)' % (pname, sorted(set(hk_) & set(opt))), stmt=w + ' disjoint', func='builtin_policies:BUILTIN_POLICIES')
        for fld in ('host_keys', 'optional_host_keys', 'kex', 'ciphers', 'macs'):
            lst = p[fld] or []
            rep.check('policy-shape', w + ' %s has no duplicates' % fld, len(lst) == len(set(lst)), polnode, 'policy %r: duplicate name in %s' % (pname, fld), stmt=w + ' dup ' + fld, func='builtin_policies:BUILTIN_POLICIES')
        hs = p['hostkey_sizes'] or {}
        rep.check('policy-shape', w + ' hostkey_sizes keys are listed host keys', set(hs) <= set(hk_) | set(opt), polnode,
                  'policy %r: hostkey_sizes names %s not in host_keys/optional_host_keys' % (pname, sorted(set(hs) - set(hk_) - set(opt))), stmt=w + ' hostkey_sizes subset', func='builtin_policies:BUILTIN_POLICIES')
        rep.check('policy-shape', w + ' dh_modulus_sizes keys are listed kex', set(p['dh_modulus_sizes'] or {}) <= set(p['kex'] or []), polnode,
                  'policy %r: dh_modulus_sizes names a kex not in its kex list' % pname, stmt=w + ' dh subset', func='builtin_policies:BUILTIN_POLICIES')
        for nm, v in hs.items():
            ok = isinstance(v, dict) and isinstance(v.get('hostkey_size'), int) and set(v) <= {'hostkey_size', 'ca_key_type', 'ca_key_size'} and (('ca_key_type' in v) == ('ca_key_size' in v))
            rep.check('policy-shape', w + ' hostkey_sizes[%s] shape' % nm, ok, polnode, 'policy %r: malformed hostkey_sizes entry %r' % (pname, nm), stmt=w + ' hk shape ' + nm, func='builtin_policies:BUILTIN_POLICIES')
    rep.samples.extend([
        {'rule': 'xref', 'instance': 'DHEat.alg_priority -> kex/diffie-hellman-group18-sha512', 'held': True},
        {'rule': 'broken-failed', 'instance': 'mac/hmac-sha1-etm@openssh.com ~ sha1', 'rows': db2['mac'].get('hmac-sha1-etm@openssh.com')},
        {'rule': 'policy-no-fail', 'instance': list(pol.keys())[0], 'kex': list(pol.values())[0]['kex']},
    ])
    rep.extra['table_sizes'] = {'ssh2': {k: len(v) for k, v in db2.items()}, 'ssh1': {k: len(v) for k, v in db1.items()}, 'policies': len(pol)}
