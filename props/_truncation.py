"""Shared by C02 and C09: a truncated algorithm message must not parse as a complete one.

ReadBuf.read(n) returns what is there, so a message cut short is noticed only because the fixed-width primitives fail on fewer bytes
than they need, and because each parser ends with fixed-width fields after its last variable-length one."""
import ast

from sa.core import AnalysisError, unparse, walk_no_nested
from sa.logic import path_condition


def check_truncation(repo, rep, rule):
    # truncated algorithm messages: ReadBuf.read(n) returns what is there, so a message cut short is noticed only because the fixed-width
    # primitives fail on fewer bytes than they need, and because each parser ends with fixed-width fields after its last variable-length one
    import struct as _struct
    for prim, need in (('ReadBuf.read_byte', 1), ('ReadBuf.read_int', 4)):
        pf = repo.func('readbuf', prim)
        rep.saw(pf)
        reads = [n for n in walk_no_nested(pf) if isinstance(n, ast.Call) and unparse(n.func) == 'self.read']
        if len(reads) != 1:
            raise AnalysisError('%s: expected exactly one self.read(k)' % prim)
        rd = reads[0]
        par = rd._parent
        strict = False
        if isinstance(par, ast.Call) and unparse(par.func) == 'struct.unpack' and par.args and isinstance(par.args[0], ast.Constant) and len(par.args) == 2 and par.args[1] is rd:
            try:
                strict = _struct.calcsize(par.args[0].value) == need and unparse(rd.args[0]) == str(need)
            except _struct.error:
                strict = False
        if not strict:
            # an explicit length test that raises is as good
            for n in walk_no_nested(pf):
                if isinstance(n, ast.If) and 'len(' in unparse(n.test) and any(isinstance(x, ast.Raise) for x in ast.walk(n)):
                    strict = True
        rep.check(rule, '%s fails on fewer than %d byte(s) (struct.unpack of exactly that size, or an explicit length test)' % (prim, need), strict, rd,
                  '%s accepts a short read (%s): a KEXINIT / public-key message cut off inside or before a fixed-width field parses as if it were complete (missing bytes count as zero), so an audit that never obtained the full algorithm lists prints a report and exits 0/2/3' % (prim, unparse(par)[:70]),
                  stmt='%s short-read strictness' % prim)
    FIXED = ('read_byte', 'read_bool', 'read_int')
    for pq_mod, pq in (('ssh2_kex', 'SSH2_Kex.parse'), ('ssh1_publickeymessage', 'SSH1_PublicKeyMessage.parse')):
        pf = repo.func(pq_mod, pq)
        rep.saw(pf)
        rcalls = sorted([n for n in walk_no_nested(pf) if isinstance(n, ast.Call) and isinstance(n.func, ast.Attribute) and n.func.attr.startswith('read') and isinstance(n.func.value, ast.Name)], key=lambda n: (n.lineno, n.col_offset))
        rep.floor(rule, 'buffer reads in %s' % pq, len(rcalls), 5)
        last = rcalls[-1]
        in_branch = any(k in ('if', 'for', 'while') for t, pol, k in path_condition(last))
        rep.check(rule, '%s ends with a fixed-width field read unconditionally after its last variable-length field' % pq, last.func.attr in FIXED and not in_branch, last,
                  '%s ends with %s: a message truncated inside its last variable-length field is accepted as complete' % (pq, unparse(last)), stmt='%s trailing fixed-width read' % pq)
